"""Checker self-test for the thorough tier (DESIGN §1.5, §25).

Variants of the *current* source of /repo/pane are built in memory (never written under /repo or /verif; nothing is
executed) and the rules of the property are run on each:

 * breaking variants  — the committed seeded patches and the reversed fix commits that are recorded (in
   selftest_expected.json) as detected by this property, plus single-site mutants computed from the current AST
   (handler narrowed, gate deleted, forwarded keyword dropped, table cell widened, operator flipped, ...).  The
   property's rules must report a finding on each.
 * benign variants — behaviour-preserving rewrites computed from the current AST (locals renamed, ``raise X()`` vs
   ``raise X``, ``if a or b`` split, comparison operands swapped, whole-file reformat) and the breaking patches recorded as
   *not* affecting this property.  The rules must stay silent and decided on each.

The result is reported in the evidence file; it never turns a run on the real tree into a violation.
"""
from __future__ import annotations

import ast
import copy
import glob
import json
import os
import re
import time
import typing as t
from concurrent.futures import ProcessPoolExecutor

from . import report
from .model import AnalysisError, Model

HERE = os.path.dirname(os.path.dirname(os.path.abspath(__file__)))
EXPECTED_FILE = os.path.join(HERE, 'selftest_expected.json')


# ---------------------------------------------------------------------------- patches in memory


def parse_patch(text: str) -> t.Dict[str, t.List[t.Tuple[int, t.List[str], t.List[str]]]]:
    """unified diff -> {path: [(old_start, old_lines, new_lines)]}"""
    files: t.Dict[str, t.List[t.Tuple[int, t.List[str], t.List[str]]]] = {}
    cur: t.Optional[str] = None
    hunk: t.Optional[t.Tuple[int, t.List[str], t.List[str]]] = None
    for line in text.splitlines():
        if line.startswith('+++ '):
            p = line[4:].strip()
            cur = p[2:] if p.startswith('b/') else p
            files.setdefault(cur, [])
            hunk = None
        elif line.startswith('--- ') or line.startswith('diff ') or line.startswith('index '):
            continue
        elif line.startswith('@@'):
            m = re.match(r'@@ -(\d+)(?:,\d+)? \+\d+(?:,\d+)? @@', line)
            if m and cur is not None:
                hunk = (int(m.group(1)), [], [])
                files[cur].append(hunk)
        elif hunk is not None:
            if line.startswith('+'):
                hunk[2].append(line[1:])
            elif line.startswith('-'):
                hunk[1].append(line[1:])
            elif line.startswith(' ') or line == '':
                hunk[1].append(line[1:])
                hunk[2].append(line[1:])
            elif line.startswith('\\'):
                continue
    return files


def apply_patch(root: str, text: str) -> t.Optional[t.Dict[str, str]]:
    """Apply a unified diff to the files under ``root`` in memory; None when it does not apply."""
    out: t.Dict[str, str] = {}
    for path, hunks in parse_patch(text).items():
        full = os.path.join(root, path)
        if not os.path.exists(full):
            return None
        lines = open(full, encoding='utf-8').read().split('\n')
        offset = 0
        for (start, old, new) in hunks:
            pos = None
            guess = start - 1 + offset
            for d in sorted(range(-60, 61), key=abs):
                i = guess + d
                if 0 <= i <= len(lines) - len(old) and lines[i:i + len(old)] == old:
                    pos = i
                    break
            if pos is None:
                return None
            lines[pos:pos + len(old)] = new
            offset += len(new) - len(old) + (pos - guess)
        out[path] = '\n'.join(lines)
    return out


# ---------------------------------------------------------------------------- AST mutants


class Variant:
    def __init__(self, name: str, kind: str, overrides: t.Dict[str, str]):
        self.name = name
        self.kind = kind          # 'break' | 'benign'
        self.overrides = overrides


def _src(root: str, rel: str) -> str:
    return open(os.path.join(root, rel), encoding='utf-8').read()


def _mutate(root: str, rel: str, pick: t.Callable[[ast.AST], bool], edit: t.Callable[[ast.AST], t.Optional[ast.AST]],
            label: str, kind: str, limit: int = 400) -> t.List[Variant]:
    """One variant per node of ``rel`` satisfying ``pick``; ``edit`` rewrites (a deep copy of) that node in place
    or returns a replacement."""
    src = _src(root, rel)
    tree = ast.parse(src)
    targets = [n for n in ast.walk(tree) if pick(n)]
    out = []
    for idx in range(min(len(targets), limit)):
        t2 = ast.parse(src)
        nodes = [n for n in ast.walk(t2) if pick(n)]
        node = nodes[idx]
        repl = edit(node)
        if repl is False:
            continue
        if repl is not None and repl is not node:
            _replace(t2, node, repl)
        ast.fix_missing_locations(t2)
        try:
            new_src = ast.unparse(t2)
            ast.parse(new_src)
        except Exception:
            continue
        if new_src == ast.unparse(ast.parse(src)):
            continue
        out.append(Variant(f"{label}@{rel}:{getattr(node, 'lineno', 0)}", kind, {rel: new_src}))
    return out


def _replace(tree: ast.AST, old: ast.AST, new: t.Any) -> None:
    for parent in ast.walk(tree):
        for field, value in ast.iter_fields(parent):
            if value is old:
                setattr(parent, field, new)
                return
            if isinstance(value, list):
                for i, v in enumerate(value):
                    if v is old:
                        if isinstance(new, list):
                            value[i:i + 1] = new
                        else:
                            value[i] = new
                        return


def _is_name(e: ast.AST, name: str) -> bool:
    return (isinstance(e, ast.Name) and e.id == name) or (isinstance(e, ast.Attribute) and e.attr == name)


def breaking_variants(root: str, prop: str) -> t.List[Variant]:
    V: t.List[Variant] = []
    conv, cls_, cvt = 'pane/converters.py', 'pane/classes.py', 'pane/convert.py'

    def narrow(h: ast.AST) -> None:
        h.type = ast.Name(id='ValueError', ctx=ast.Load())  # type: ignore[attr-defined]
    if prop in ('C04',):
        # narrow a handler inside a conversion pass (fast or diagnostic)
        def pick_pass(n: ast.AST) -> bool:
            return isinstance(n, ast.FunctionDef) and re.match(r'^(_?try_convert|_?collect_errors)', n.name) is not None and any(
                isinstance(h, ast.ExceptHandler) and isinstance(h.type, ast.Name) and h.type.id == 'Exception' for h in ast.walk(n))

        def narrow_all(fn: ast.AST) -> None:
            for h in ast.walk(fn):
                if isinstance(h, ast.ExceptHandler) and isinstance(h.type, ast.Name) and h.type.id == 'Exception':
                    h.type = ast.Name(id='ValueError', ctx=ast.Load())
        for rel in (conv, cls_):
            V += _mutate(root, rel, pick_pass, narrow_all, 'narrow-handler', 'break')
    if prop in ('C03', 'C07', 'C08'):
        # one-sided: narrow handlers only inside collect_errors* functions
        def pick_collect(n: ast.AST) -> bool:
            return isinstance(n, ast.FunctionDef) and 'collect_errors' in n.name and any(
                isinstance(h, ast.ExceptHandler) and isinstance(h.type, ast.Name) and h.type.id == 'Exception' for h in ast.walk(n))

        def narrow_first(fn: ast.AST) -> None:
            for h in ast.walk(fn):
                if isinstance(h, ast.ExceptHandler) and isinstance(h.type, ast.Name) and h.type.id == 'Exception':
                    h.type = ast.Name(id='ValueError', ctx=ast.Load())
                    return
        for rel in (conv, cls_):
            V += _mutate(root, rel, pick_collect, narrow_first, 'one-sided-narrow', 'break')
    if prop in ('C03', 'C02', 'C15', 'C01'):
        # delete a rejecting gate of the fast pass:  if <cond>: raise ParseInterrupt  ->  pass
        def pick_gate(n: ast.AST) -> bool:
            return isinstance(n, ast.If) and len(n.body) == 1 and isinstance(n.body[0], ast.Raise) and not n.orelse \
                and 'ParseInterrupt' in ast.unparse(n.body[0])
        if prop in ('C03',):
            for rel in (conv, cls_):
                V += _mutate(root, rel, pick_gate, lambda n: ast.Pass(), 'delete-gate', 'break')
    if prop == 'C02':
        # widen an allowed tuple of the scalar table with str
        def pick_row(n: ast.AST) -> bool:
            return isinstance(n, ast.Call) and isinstance(n.func, ast.Name) and n.func.id == 'ScalarConverter' and len(n.args) >= 2 \
                and ast.unparse(n.args[0]) in ('int', 'float', 'complex', 'bool', 'bytes')

        def widen(c: ast.AST) -> None:
            a = c.args[1]  # type: ignore[attr-defined]
            elts = list(a.elts) if isinstance(a, ast.Tuple) else [a]
            c.args[1] = ast.Tuple(elts=elts + [ast.Name(id='str', ctx=ast.Load())], ctx=ast.Load())  # type: ignore[attr-defined]
        V += _mutate(root, conv, pick_row, widen, 'widen-allowed', 'break')
        # replace data_is_sequence by data_is_iterable at a gate
        V += _mutate(root, conv, lambda n: isinstance(n, ast.Call) and isinstance(n.func, ast.Name) and n.func.id == 'data_is_sequence'
                     and isinstance(getattr(n, 'ctx', None), type(None)),
                     lambda n: setattr(n.func, 'id', 'bool') or None, 'gate-to-truthiness', 'break', limit=12)
    if prop == 'C18':
        def pick_fw(n: ast.AST) -> bool:
            return isinstance(n, ast.Call) and any(k.arg in ('handlers', 'custom') and isinstance(k.value, ast.Name) and k.value.id == k.arg
                                                   for k in n.keywords)

        def drop_kw(c: ast.AST) -> None:
            c.keywords = [k for k in c.keywords if not (k.arg in ('handlers', 'custom') and isinstance(k.value, ast.Name) and k.value.id == k.arg)]  # type: ignore[attr-defined]
        for rel in (conv, cls_, cvt, 'pane/io.py'):
            V += _mutate(root, rel, pick_fw, drop_kw, 'drop-forward', 'break')
    if prop == 'C19':
        def pick_opt(n: ast.AST) -> bool:
            return isinstance(n, ast.Call) and any(k.arg in ('indent', 'sort_keys', 'width', 'allow_unicode', 'explicit_start', 'explicit_end',
                                                              'default_style', 'default_flow_style') for k in n.keywords)

        def drop_opt(c: ast.AST) -> None:
            for i, k in enumerate(c.keywords):  # type: ignore[attr-defined]
                if k.arg in ('indent', 'sort_keys', 'width', 'allow_unicode', 'explicit_start', 'explicit_end', 'default_style', 'default_flow_style'):
                    del c.keywords[i]  # type: ignore[attr-defined]
                    return
        for rel in ('pane/io.py', cls_):
            V += _mutate(root, rel, pick_opt, drop_opt, 'drop-format-option', 'break')
    if prop == 'C13':
        flip = {ast.Gt: ast.GtE, ast.GtE: ast.Gt, ast.Lt: ast.LtE, ast.LtE: ast.Lt, ast.Eq: ast.NotEq, ast.NotEq: ast.Eq}

        def pick_cmp(n: ast.AST) -> bool:
            return isinstance(n, ast.Lambda) and isinstance(n.body, ast.Compare) and type(n.body.ops[0]) in flip

        def do_flip(lam: ast.AST) -> None:
            lam.body.ops[0] = flip[type(lam.body.ops[0])]()  # type: ignore[attr-defined]
        V += _mutate(root, 'pane/annotations.py', pick_cmp, do_flip, 'flip-operator', 'break')
    if prop == 'C16':
        def pick_cell(n: ast.AST) -> bool:
            return isinstance(n, ast.Dict) and len(n.keys) == 16 and all(isinstance(k, ast.Tuple) for k in n.keys)

        src = _src(root, cls_)
        tree = ast.parse(src)
        tables = [n for n in ast.walk(tree) if pick_cell(n)]
        if tables:
            for i in range(16):
                t2 = ast.parse(src)
                d = [n for n in ast.walk(t2) if pick_cell(n)][0]
                cur = ast.unparse(d.values[i])
                d.values[i] = ast.Constant(value=None) if cur != 'None' else ast.Name(id='_make_hash', ctx=ast.Load())
                V.append(Variant(f"flip-hash-cell-{i}", 'break', {cls_: ast.unparse(t2)}))
    if prop == 'C09':
        V += _mutate(root, conv, lambda n: isinstance(n, ast.Assign) and ast.unparse(n) == 'val = val.copy()', lambda n: ast.Pass(), 'delete-copy', 'break')
    if prop == 'C01':
        def pick_abs(n: ast.AST) -> bool:
            return isinstance(n, ast.Dict) and any(ast.unparse(k) == 'os.PathLike' for k in n.keys if k is not None)
        src = _src(root, cvt)
        tree = ast.parse(src)
        if [n for n in ast.walk(tree) if pick_abs(n)]:
            n_rows = len([n for n in ast.walk(tree) if pick_abs(n)][0].keys)
            for i in range(n_rows):
                t2 = ast.parse(src)
                d = [n for n in ast.walk(t2) if pick_abs(n)][0]
                if ast.unparse(d.keys[i]).startswith('t.'):
                    continue      # typing aliases are never looked up (the origin class is)
                d.values[i] = ast.Name(id='bytearray' if ast.unparse(d.values[i]) != 'bytearray' else 'list', ctx=ast.Load())
                V.append(Variant(f"retarget-abstract-row-{i}", 'break', {cvt: ast.unparse(t2)}))
    if prop == 'C14':
        V += _mutate(root, cls_, lambda n: isinstance(n, ast.Call) and isinstance(n.func, ast.Attribute) and n.func.attr == 'default_factory'
                     and not n.args, lambda n: n.func, 'uncall-factory', 'break')
    if prop == 'C10':
        V += _mutate(root, 'pane/util.py', lambda n: isinstance(n, ast.Assign) and ast.unparse(n.targets[0]).startswith('self._refs['),
                     lambda n: ast.Pass(), 'drop-keepalive', 'break')
    if prop == 'C11':
        def rev(n: ast.AST) -> None:
            n.iter = ast.Call(func=ast.Name(id='reversed', ctx=ast.Load()), args=[ast.Call(func=ast.Name(id='list', ctx=ast.Load()), args=[n.iter], keywords=[])], keywords=[])  # type: ignore[attr-defined]
        V += _mutate(root, conv, lambda n: isinstance(n, ast.For) and 'self.converters' in ast.unparse(n.iter) and 'zip' not in ast.unparse(n.iter), rev, 'reverse-members', 'break', limit=4)
    return V


# ---------------------------------------------------------------------------- benign rewrites


class _Renamer(ast.NodeTransformer):
    def __init__(self, names: t.Set[str]):
        self.names = names

    def visit_Name(self, n: ast.Name) -> ast.AST:
        if n.id in self.names:
            n.id = n.id + '_rn'
        return n

    def visit_ExceptHandler(self, n: ast.ExceptHandler) -> ast.AST:
        if n.name in self.names:
            n.name = n.name + '_rn'
        self.generic_visit(n)
        return n

    def visit_FunctionDef(self, n: ast.FunctionDef) -> ast.AST:
        return n      # nested functions have their own scope (free variables of the renamed set are not touched)

    def visit_Lambda(self, n: ast.Lambda) -> ast.AST:
        return n


def _locals_of(fn: ast.FunctionDef) -> t.Set[str]:
    params = {a.arg for a in (*fn.args.posonlyargs, *fn.args.args, *fn.args.kwonlyargs)} | \
        {x.arg for x in (fn.args.vararg, fn.args.kwarg) if x is not None}
    out: t.Set[str] = set()
    nested_free: t.Set[str] = set()
    for st in fn.body:
        for n in ast.walk(st):
            if isinstance(n, (ast.FunctionDef, ast.Lambda)):
                for x in ast.walk(n):
                    if isinstance(x, ast.Name):
                        nested_free.add(x.id)
    def visit(n: ast.AST) -> None:
        for ch in ast.iter_child_nodes(n):
            if isinstance(ch, (ast.FunctionDef, ast.Lambda, ast.ClassDef)):
                continue
            if isinstance(ch, (ast.ListComp, ast.SetComp, ast.DictComp, ast.GeneratorExp)):
                continue       # comprehension scopes: leave alone
            if isinstance(ch, ast.Name) and isinstance(ch.ctx, (ast.Store, ast.Del)):
                out.add(ch.id)
            if isinstance(ch, ast.ExceptHandler) and ch.name:
                out.add(ch.name)
            if isinstance(ch, (ast.Global, ast.Nonlocal)):
                for nm in ch.names:
                    nested_free.add(nm)
            visit(ch)
    for st in fn.body:
        visit(st)
    # names also used inside comprehensions / nested scopes are left alone to keep the rewrite trivially safe
    comp_names: t.Set[str] = set()
    for st in fn.body:
        for n in ast.walk(st):
            if isinstance(n, (ast.ListComp, ast.SetComp, ast.DictComp, ast.GeneratorExp)):
                for x in ast.walk(n):
                    if isinstance(x, ast.Name):
                        comp_names.add(x.id)
    return out - params - nested_free - comp_names


def benign_variants(root: str, rels: t.Sequence[str]) -> t.List[Variant]:
    V: t.List[Variant] = []
    for rel in rels:
        src = _src(root, rel)
        # (e) whole-file reformat
        V.append(Variant(f"reformat@{rel}", 'benign', {rel: ast.unparse(ast.parse(src))}))
        # (a) rename the locals of each function, one function at a time

        def pick_fn(n: ast.AST) -> bool:
            return isinstance(n, ast.FunctionDef) and bool(_locals_of(n))

        def rename(fn: ast.AST) -> None:
            names = _locals_of(fn)  # type: ignore[arg-type]
            r = _Renamer(names)
            fn.body = [r.visit(st) for st in fn.body]  # type: ignore[attr-defined]
        V += _mutate(root, rel, pick_fn, rename, 'rename-locals', 'benign')
        # (b) raise X()  <->  raise X

        def pick_raise(n: ast.AST) -> bool:
            return isinstance(n, ast.Raise) and n.exc is not None and (
                (isinstance(n.exc, ast.Call) and not n.exc.args and not n.exc.keywords and ast.unparse(n.exc.func) == 'ParseInterrupt')
                or (isinstance(n.exc, ast.Name) and n.exc.id == 'ParseInterrupt'))

        def toggle(rz: ast.AST) -> None:
            e = rz.exc  # type: ignore[attr-defined]
            rz.exc = e.func if isinstance(e, ast.Call) else ast.Call(func=e, args=[], keywords=[])  # type: ignore[attr-defined]
        V += _mutate(root, rel, pick_raise, toggle, 'raise-spelling', 'benign', limit=60)
        # (c) if a or b: <exit>   ->   if a: <exit>   if b: <exit>

        def pick_or(n: ast.AST) -> bool:
            return isinstance(n, ast.If) and isinstance(n.test, ast.BoolOp) and isinstance(n.test.op, ast.Or) and not n.orelse \
                and isinstance(n.body[-1], (ast.Raise, ast.Return, ast.Continue))

        def split(n: ast.AST) -> t.Any:
            return [ast.If(test=v, body=copy.deepcopy(n.body), orelse=[]) for v in n.test.values]  # type: ignore[attr-defined]
        V += _mutate(root, rel, pick_or, split, 'split-or', 'benign')
        # (d) swap the operands of == / != / is / is not

        def pick_eq(n: ast.AST) -> bool:
            return isinstance(n, ast.Compare) and len(n.ops) == 1 and isinstance(n.ops[0], (ast.Eq, ast.NotEq, ast.Is, ast.IsNot)) \
                and not isinstance(n.comparators[0], ast.Constant) and not isinstance(n.left, ast.Constant)

        def swap(c: ast.AST) -> None:
            c.left, c.comparators[0] = c.comparators[0], c.left  # type: ignore[attr-defined]
        V += _mutate(root, rel, pick_eq, swap, 'swap-eq-operands', 'benign', limit=40)
    return V


# ---------------------------------------------------------------------------- runner


def _evaluate(args: t.Tuple[str, str, str, str, t.Dict[str, str]]) -> t.Tuple[str, str, str, t.List[str]]:
    prop, repo, name, kind, overrides = args
    from .properties import PROPERTIES
    try:
        model = Model(repo, overrides)
    except AnalysisError as e:
        return name, kind, 'undecided', [str(e)[:120]]
    except Exception as e:  # pragma: no cover
        return name, kind, 'undecided', [f"{type(e).__name__}: {e}"[:120]]
    known = {k['key'] for k in report.load_known().get('known', []) if k.get('property') == prop}
    rules: t.List[str] = []
    errs: t.List[str] = []
    for rule in PROPERTIES[prop]['rules']:
        try:
            rr = rule(model)
        except AnalysisError as e:
            errs.append(str(e)[:120])
            continue
        except Exception as e:
            errs.append(f"INTERNAL {type(e).__name__}: {e}"[:120])
            continue
        for f in rr.findings:
            if f.key not in known:
                rules.append(f"{rr.rule}: {f.construct[:70]}")
    if rules:
        return name, kind, 'finding', rules[:3]
    if errs:
        return name, kind, 'undecided', errs[:2]
    return name, kind, 'silent', []


def run_selftest(prop: str, repo: str, out: t.Callable[..., None]) -> t.Dict[str, t.Any]:
    t0 = time.time()
    expected: t.Dict[str, t.List[str]] = {}
    if os.path.exists(EXPECTED_FILE):
        expected = json.load(open(EXPECTED_FILE, encoding='utf-8'))
    variants: t.List[Variant] = []
    skipped: t.List[str] = []
    for path in sorted(glob.glob(os.path.join(HERE, 'seeded', '*', 'patch.diff')) + glob.glob(os.path.join(HERE, 'regress', '*.diff'))):
        name = ('seed ' + os.path.basename(os.path.dirname(path))) if '/seeded/' in path else ('regress ' + os.path.basename(path)[:-5])
        if name not in expected:
            continue
        ov = apply_patch(repo, open(path, encoding='utf-8').read())
        if ov is None:
            skipped.append(name)
            continue
        variants.append(Variant(name, 'break' if prop in expected[name] else 'benign-for-this-property', ov))
    for path in sorted(glob.glob(os.path.join(HERE, 'benign', '*.diff'))):
        ov = apply_patch(repo, open(path, encoding='utf-8').read())
        if ov is None:
            skipped.append('benign ' + os.path.basename(path)[:-5])
            continue
        variants.append(Variant('refactor ' + os.path.basename(path)[:-5], 'benign', ov))
    try:
        variants += breaking_variants(repo, prop)
    except Exception as e:  # a self-test generator must never break the check itself
        skipped.append(f"breaking generator failed: {type(e).__name__}: {e}"[:120])
    rels = ['pane/converters.py', 'pane/classes.py', 'pane/convert.py', 'pane/errors.py', 'pane/annotations.py', 'pane/util.py',
            'pane/field.py', 'pane/io.py']
    try:
        variants += benign_variants(repo, rels)
    except Exception as e:
        skipped.append(f"benign generator failed: {type(e).__name__}: {e}"[:120])
    jobs = [(prop, repo, v.name, v.kind, v.overrides) for v in variants]
    results: t.List[t.Tuple[str, str, str, t.List[str]]] = []
    workers = min(16, os.cpu_count() or 4)
    if jobs:
        with ProcessPoolExecutor(max_workers=workers) as ex:
            results = list(ex.map(_evaluate, jobs, chunksize=4))
    detected = [n for (n, k, v, _d) in results if k == 'break' and v == 'finding']
    missed = [n for (n, k, v, _d) in results if k == 'break' and v == 'silent']
    blind = [(n, d) for (n, k, v, d) in results if k == 'break' and v == 'undecided']
    false_alarms = [(n, d) for (n, k, v, d) in results if k.startswith('benign') and v == 'finding']
    went_blind = [(n, d) for (n, k, v, d) in results if k.startswith('benign') and v == 'undecided']
    quiet = [n for (n, k, v, _d) in results if k.startswith('benign') and v == 'silent']
    summary = {
        'variants': len(results),
        'breaking_variants': len(detected) + len(missed) + len(blind),
        'detected': len(detected),
        'missed': missed[:40],
        'undecided_on_breaking': [f"{n}: {d}" for n, d in blind][:20],
        'benign_variants': len(quiet) + len(false_alarms) + len(went_blind),
        'silent_on_benign': len(quiet),
        'false_alarms': [f"{n}: {d}" for n, d in false_alarms][:40],
        'undecided_on_benign': [f"{n}: {d}" for n, d in went_blind][:20],
        'skipped': skipped[:20],
        'wall_s': round(time.time() - t0, 1),
        'samples': [{'variant': n, 'kind': k, 'verdict': v, 'detail': d[:1]} for (n, k, v, d) in results[:6]],
    }
    out(f"SELFTEST property={prop} variants={summary['variants']} breaking detected {summary['detected']}/{summary['breaking_variants']} "
        f"benign silent {summary['silent_on_benign']}/{summary['benign_variants']} missed={len(missed)} false_alarms={len(false_alarms)} "
        f"undecided={len(blind) + len(went_blind)} ({summary['wall_s']}s)")
    for n in missed[:10]:
        out(f"    SELFTEST-MISS {n}")
    for n, d in false_alarms[:10]:
        out(f"    SELFTEST-FALSE-ALARM {n}: {d}")
    for n, d in went_blind[:10]:
        out(f"    SELFTEST-UNDECIDED {n}: {d}")
    return summary
