"""Checker self-test (thorough tier): in-memory single-site mutations of the current source. Filled in later."""
from __future__ import annotations
import typing as t


def run_selftest(prop: str, repo: str, out: t.Callable[..., None]) -> t.Dict[str, t.Any]:
    return {'mutants': 0, 'detected': 0, 'missed': [], 'false_alarms': [], 'note': 'self-test not implemented yet'}
