"""Partial evaluation of *classifier helpers* (a pre-pass of the program model).

A classifier helper is a small function whose body only tests its parameters and returns constants::

    def _data_layout(val):
        if data_is_sequence(val):
            return 'tuple'
        if isinstance(val, (dict, t.Mapping)):
            return 'struct'
        return None

When a function stores the helper's result in a local and then only *compares* that local with constants
(``layout is None``, ``layout == 'tuple'``, ``layout not in self.opts.in_format``), every such comparison is rewritten into the
conditions under which the helper returns the constant(s) in question, with the helper's parameters replaced by the call's
arguments.  The rewritten function is what every analysis sees, so a dispatcher written around a classifier has the same
control-flow conditions as one written with nested ``if`` statements.  Nothing else is rewritten; if the local is used in any other
way the function is left alone.
"""
from __future__ import annotations

import ast
import typing as t


def _clone(e: ast.AST) -> t.Any:
    """A private copy of an expression (model nodes carry ``_parent`` links, which ``copy.deepcopy`` would follow upwards)."""
    return ast.parse(ast.unparse(e), mode='eval').body


class _Paths:
    """constant -> condition (an expression over the helper's parameters) under which the helper returns it."""

    def __init__(self) -> None:
        self.cases: t.List[t.Tuple[t.Any, t.Optional[ast.expr]]] = []


def _const(e: t.Optional[ast.AST]) -> t.Tuple[bool, t.Any]:
    if e is None:
        return True, None
    if isinstance(e, ast.Constant) and (e.value is None or isinstance(e.value, (str, bool, int))):
        return True, e.value
    return False, None


def _and(a: t.Optional[ast.expr], b: t.Optional[ast.expr]) -> t.Optional[ast.expr]:
    if a is None:
        return b
    if b is None:
        return a
    return ast.BoolOp(op=ast.And(), values=[a, b])


def _not(a: ast.expr) -> ast.expr:
    if isinstance(a, ast.UnaryOp) and isinstance(a.op, ast.Not):
        return a.operand
    return ast.UnaryOp(op=ast.Not(), operand=a)


def _classify(body: t.Sequence[ast.stmt], cond: t.Optional[ast.expr], out: _Paths) -> t.Optional[t.Optional[ast.expr]]:
    """Walk ``if ...: return CONST`` chains.  Returns the condition under which control falls off the end of ``body``
    (``False`` sentinel = never), or raises ValueError when the body is not of the classifier shape."""
    cur: t.Optional[ast.expr] = cond
    reachable = True
    for st in body:
        if isinstance(st, ast.Expr) and isinstance(st.value, ast.Constant):
            continue
        if isinstance(st, ast.Pass):
            continue
        if not reachable:
            raise ValueError('dead code')
        if isinstance(st, ast.Return):
            ok, v = _const(st.value)
            if not ok:
                raise ValueError('non-constant return')
            out.cases.append((v, cur))
            reachable = False
            continue
        if isinstance(st, ast.If):
            t_reach = _classify(st.body, _and(cur, st.test), out)
            f_reach = _classify(st.orelse, _and(cur, _not(st.test)), out) if st.orelse else ('through', _and(cur, _not(st.test)))
            falls = [x for x in (t_reach, f_reach) if x is not None]
            if not falls:
                reachable = False
            elif len(falls) == 1:
                cur = falls[0][1]
            else:
                cur = ast.BoolOp(op=ast.Or(), values=[x[1] if x[1] is not None else ast.Constant(value=True) for x in falls])
            continue
        raise ValueError('statement outside the classifier fragment')
    return ('through', cur) if reachable else None


def classifier_paths(fn: ast.FunctionDef) -> t.Optional[_Paths]:
    if fn.decorator_list and not all(isinstance(d, ast.Name) and d.id in ('staticmethod', 'classmethod') for d in fn.decorator_list):
        return None
    if fn.args.vararg or fn.args.kwarg or fn.args.kwonlyargs:
        return None
    out = _Paths()
    try:
        rest = _classify(fn.body, None, out)
    except ValueError:
        return None
    if rest is not None:
        out.cases.append((None, rest[1]))          # falling off the end returns None
    consts = {repr(c) for c, _ in out.cases}
    if len(consts) < 2 or len(out.cases) > 6:
        return None
    params = {a.arg for a in fn.args.args}
    # tests may mention parameters, globals and attributes, but must not assign or call methods with side effects we cannot see:
    for _c, cond in out.cases:
        if cond is None:
            continue
        for x in ast.walk(cond):
            if isinstance(x, (ast.NamedExpr, ast.Lambda, ast.Await, ast.Yield, ast.YieldFrom)):
                return None
    _ = params
    return out


class _Subst(ast.NodeTransformer):
    def __init__(self, mapping: t.Dict[str, ast.expr]):
        self.mapping = mapping

    def visit_Name(self, node: ast.Name) -> ast.AST:
        if isinstance(node.ctx, ast.Load) and node.id in self.mapping:
            return _clone(self.mapping[node.id])
        return node


def _simple_arg(e: ast.AST) -> bool:
    while isinstance(e, ast.Attribute):
        e = e.value
    return isinstance(e, (ast.Name, ast.Constant))


def _or_all(parts: t.List[ast.expr]) -> ast.expr:
    if not parts:
        return ast.Constant(value=False)
    if len(parts) == 1:
        return parts[0]
    return ast.BoolOp(op=ast.Or(), values=parts)


def expand_function(fn: ast.FunctionDef, resolve: t.Callable[[ast.Call], t.Optional[t.Tuple[ast.FunctionDef, bool]]]) -> int:
    """Rewrite comparisons of classifier results inside ``fn`` in place.  ``resolve(call)`` gives the helper's definition and whether
    its first parameter is an implicit receiver.  Returns the number of comparisons rewritten."""
    # locals assigned exactly once, from a classifier call with simple arguments
    assigned: t.Dict[str, t.List[ast.AST]] = {}
    for x in ast.walk(fn):
        if isinstance(x, (ast.FunctionDef, ast.Lambda)) and x is not fn:
            continue
        if isinstance(x, ast.Name) and isinstance(x.ctx, (ast.Store, ast.Del)):
            assigned.setdefault(x.id, []).append(x)
    params = {a.arg for a in fn.args.args + fn.args.kwonlyargs} | ({fn.args.vararg.arg} if fn.args.vararg else set()) | \
        ({fn.args.kwarg.arg} if fn.args.kwarg else set())
    cands: t.Dict[str, t.Tuple[_Paths, t.Dict[str, ast.expr]]] = {}
    for st in ast.walk(fn):
        if not (isinstance(st, ast.Assign) and len(st.targets) == 1 and isinstance(st.targets[0], ast.Name) and isinstance(st.value, ast.Call)):
            continue
        nm = st.targets[0].id
        if nm in params or len(assigned.get(nm, [])) != 1:
            continue
        call = st.value
        if call.keywords or any(isinstance(a, ast.Starred) for a in call.args) or not all(_simple_arg(a) for a in call.args):
            continue
        res = resolve(call)
        if res is None:
            continue
        helper, has_recv = res
        paths = classifier_paths(helper)
        if paths is None:
            continue
        hparams = [a.arg for a in helper.args.args]
        if has_recv:
            recv = call.func.value if isinstance(call.func, ast.Attribute) else None
            if recv is None or not hparams:
                continue
            mapping: t.Dict[str, ast.expr] = {hparams[0]: recv}
            hparams = hparams[1:]
        else:
            mapping = {}
        if len(hparams) != len(call.args):
            continue
        mapping.update(dict(zip(hparams, call.args)))
        # arguments must not be reassigned between the call and the uses: require them to be parameters / attribute chains on
        # names assigned at most once
        ok = True
        for a in call.args:
            root = a
            while isinstance(root, ast.Attribute):
                root = root.value
            if isinstance(root, ast.Name) and root.id not in params and len(assigned.get(root.id, [])) > 1:
                ok = False
        if ok:
            cands[nm] = (paths, mapping)
    if not cands:
        return 0
    # every load of the local must be an operand of a supported comparison
    parent: t.Dict[int, ast.AST] = {}
    for p in ast.walk(fn):
        for ch in ast.iter_child_nodes(p):
            parent[id(ch)] = p
    uses: t.Dict[str, t.List[ast.Compare]] = {nm: [] for nm in cands}
    bad: t.Set[str] = set()
    for x in ast.walk(fn):
        if isinstance(x, ast.Name) and isinstance(x.ctx, ast.Load) and x.id in cands:
            par = parent.get(id(x))
            if isinstance(par, ast.Compare) and len(par.ops) == 1:
                op = par.ops[0]
                other = par.comparators[0] if par.left is x else par.left
                if isinstance(op, (ast.Eq, ast.NotEq, ast.Is, ast.IsNot)) and _const(other)[0] and other is not None:
                    uses[x.id].append(par)
                    continue
                if isinstance(op, (ast.In, ast.NotIn)) and par.left is x:
                    uses[x.id].append(par)
                    continue
            bad.add(x.id)
    n = 0

    class Rewrite(ast.NodeTransformer):
        def visit_Compare(self, node: ast.Compare) -> ast.AST:
            nonlocal n
            for nm, cmps in uses.items():
                if nm in bad or not any(c is node for c in cmps):
                    continue
                paths, mapping = cands[nm]
                op = node.ops[0]

                def cond_of(pred: t.Callable[[t.Any], t.Optional[ast.expr]]) -> ast.expr:
                    parts: t.List[ast.expr] = []
                    for (c, cond) in paths.cases:
                        extra = pred(c)
                        if extra is False:      # type: ignore[comparison-overlap]
                            continue
                        ce = _Subst(mapping).visit(_clone(cond)) if cond is not None else None
                        full = _and(ce, extra if extra is not True else None)      # type: ignore[arg-type]
                        parts.append(full if full is not None else ast.Constant(value=True))
                    return _or_all(parts)
                if isinstance(op, (ast.Eq, ast.NotEq, ast.Is, ast.IsNot)):
                    other = node.comparators[0] if isinstance(node.left, ast.Name) and node.left.id == nm else node.left
                    want = _const(other)[1]
                    e = cond_of(lambda c: True if (c == want and type(c) is type(want)) else False)
                    if isinstance(op, (ast.NotEq, ast.IsNot)):
                        e = _not(e)
                else:
                    coll = node.comparators[0]
                    neg = isinstance(op, ast.NotIn)
                    e = cond_of(lambda c: ast.Compare(left=ast.Constant(value=c), ops=[ast.NotIn() if neg else ast.In()],
                                                      comparators=[_clone(coll)]))
                n += 1
                return ast.copy_location(e, node)
            return self.generic_visit(node)
    if any(nm not in bad and uses[nm] for nm in cands):
        Rewrite().visit(fn)
        ast.fix_missing_locations(fn)
        for x in ast.walk(fn):
            if not hasattr(x, 'lineno') and isinstance(x, (ast.expr, ast.stmt)):
                x.lineno = fn.lineno          # type: ignore[attr-defined]
    return n


def inline_method_aliases(fn: ast.FunctionDef) -> int:
    """``add = items.append`` ... ``add(x)``  ->  ``items.append(x)``: a local bound once to a method (an attribute of a name or of
    an attribute chain) and only ever *called* is replaced by the attribute at its call sites, so rules that look at what is
    called on an object see through the micro-optimisation.  Returns the number of call sites rewritten."""
    stores: t.Dict[str, int] = {}
    for x in ast.walk(fn):
        if isinstance(x, ast.Name) and isinstance(x.ctx, (ast.Store, ast.Del)):
            stores[x.id] = stores.get(x.id, 0) + 1
    params = {a.arg for a in fn.args.args + fn.args.kwonlyargs + fn.args.posonlyargs}
    for extra in (fn.args.vararg, fn.args.kwarg):
        if extra is not None:
            params.add(extra.arg)
    parent: t.Dict[int, ast.AST] = {}
    for p in ast.walk(fn):
        for ch in ast.iter_child_nodes(p):
            parent[id(ch)] = p
    aliases: t.Dict[str, ast.Attribute] = {}
    for st in ast.walk(fn):
        if isinstance(st, ast.Assign) and len(st.targets) == 1 and isinstance(st.targets[0], ast.Name) and isinstance(st.value, ast.Attribute):
            nm = st.targets[0].id
            if nm in params or stores.get(nm, 0) != 1:
                continue
            root: ast.AST = st.value
            while isinstance(root, ast.Attribute):
                root = root.value
            if not isinstance(root, ast.Name):
                continue
            if root.id not in params and stores.get(root.id, 0) > 1:
                continue
            # the assignment must not sit inside a loop or branch deeper than the uses can see: require function top level
            if parent.get(id(st)) is not fn:
                continue
            aliases[nm] = st.value
    if not aliases:
        return 0
    ok = {nm: True for nm in aliases}
    for x in ast.walk(fn):
        if isinstance(x, ast.Name) and isinstance(x.ctx, ast.Load) and x.id in aliases:
            par = parent.get(id(x))
            if not (isinstance(par, ast.Call) and par.func is x):
                ok[x.id] = False
    n = 0
    for x in ast.walk(fn):
        if isinstance(x, ast.Call) and isinstance(x.func, ast.Name) and x.func.id in aliases and ok[x.func.id]:
            new = _clone(aliases[x.func.id])
            ast.copy_location(new, x.func)
            for y in ast.walk(new):
                ast.copy_location(y, x.func)
            x.func = new
            n += 1
    return n
