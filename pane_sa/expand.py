"""Partial evaluation of *classifier helpers* (a pre-pass of the program model).

A classifier helper is a small function whose body only tests its parameters and returns constants::

    def _data_layout(val):
        if data_is_sequence(val):
            return 'tuple'
        if isinstance(val, (dict, t.Mapping)):
            return 'struct'
        return None

When a function stores the helper's result in a local and then only *compares* that local with constants
(``layout is None``, ``layout == 'tuple'``, ``layout not in self.opts.in_format``), every such comparison is rewritten into the
conditions under which the helper returns the constant(s) in question, with the helper's parameters replaced by the call's
arguments.  The rewritten function is what every analysis sees, so a dispatcher written around a classifier has the same
control-flow conditions as one written with nested ``if`` statements.  Nothing else is rewritten; if the local is used in any other
way the function is left alone.
"""
from __future__ import annotations

import ast
import typing as t


def _clone(e: ast.AST) -> t.Any:
    """A private copy of an expression (model nodes carry ``_parent`` links, which ``copy.deepcopy`` would follow upwards)."""
    if isinstance(e, ast.stmt):
        return ast.parse(ast.unparse(e)).body[0]
    return ast.parse(ast.unparse(e), mode='eval').body


class _Paths:
    """constant -> condition (an expression over the helper's parameters) under which the helper returns it."""

    def __init__(self) -> None:
        self.cases: t.List[t.Tuple[t.Any, t.Optional[ast.expr]]] = []


def _const(e: t.Optional[ast.AST]) -> t.Tuple[bool, t.Any]:
    if e is None:
        return True, None
    if isinstance(e, ast.Constant) and (e.value is None or isinstance(e.value, (str, bool, int))):
        return True, e.value
    return False, None


def _and(a: t.Optional[ast.expr], b: t.Optional[ast.expr]) -> t.Optional[ast.expr]:
    if a is None:
        return b
    if b is None:
        return a
    return ast.BoolOp(op=ast.And(), values=[a, b])


_FLIP = {ast.Is: ast.IsNot, ast.IsNot: ast.Is, ast.Eq: ast.NotEq, ast.NotEq: ast.Eq, ast.In: ast.NotIn, ast.NotIn: ast.In}


def _not(a: ast.expr) -> ast.expr:
    if isinstance(a, ast.UnaryOp) and isinstance(a.op, ast.Not):
        return a.operand
    if isinstance(a, ast.Compare) and len(a.ops) == 1 and type(a.ops[0]) in _FLIP:
        return ast.Compare(left=a.left, ops=[_FLIP[type(a.ops[0])]()], comparators=a.comparators)
    return ast.UnaryOp(op=ast.Not(), operand=a)


def _classify(body: t.Sequence[ast.stmt], cond: t.Optional[ast.expr], out: _Paths) -> t.Optional[t.Optional[ast.expr]]:
    """Walk ``if ...: return CONST`` chains.  Returns the condition under which control falls off the end of ``body``
    (``False`` sentinel = never), or raises ValueError when the body is not of the classifier shape."""
    cur: t.Optional[ast.expr] = cond
    reachable = True
    for st in body:
        if isinstance(st, ast.Expr) and isinstance(st.value, ast.Constant):
            continue
        if isinstance(st, ast.Pass):
            continue
        if not reachable:
            raise ValueError('dead code')
        if isinstance(st, ast.Return):
            ok, v = _const(st.value)
            if not ok:
                raise ValueError('non-constant return')
            out.cases.append((v, cur))
            reachable = False
            continue
        if isinstance(st, ast.If):
            t_reach = _classify(st.body, _and(cur, st.test), out)
            f_reach = _classify(st.orelse, _and(cur, _not(st.test)), out) if st.orelse else ('through', _and(cur, _not(st.test)))
            falls = [x for x in (t_reach, f_reach) if x is not None]
            if not falls:
                reachable = False
            elif len(falls) == 1:
                cur = falls[0][1]
            else:
                cur = ast.BoolOp(op=ast.Or(), values=[x[1] if x[1] is not None else ast.Constant(value=True) for x in falls])
            continue
        raise ValueError('statement outside the classifier fragment')
    return ('through', cur) if reachable else None


def classifier_paths(fn: ast.FunctionDef) -> t.Optional[_Paths]:
    if fn.decorator_list and not all(isinstance(d, ast.Name) and d.id in ('staticmethod', 'classmethod') for d in fn.decorator_list):
        return None
    if fn.args.vararg or fn.args.kwarg or fn.args.kwonlyargs:
        return None
    out = _Paths()
    try:
        rest = _classify(fn.body, None, out)
    except ValueError:
        return None
    if rest is not None:
        out.cases.append((None, rest[1]))          # falling off the end returns None
    consts = {repr(c) for c, _ in out.cases}
    if len(consts) < 2 or len(out.cases) > 6:
        return None
    params = {a.arg for a in fn.args.args}
    # tests may mention parameters, globals and attributes, but must not assign or call methods with side effects we cannot see:
    for _c, cond in out.cases:
        if cond is None:
            continue
        for x in ast.walk(cond):
            if isinstance(x, (ast.NamedExpr, ast.Lambda, ast.Await, ast.Yield, ast.YieldFrom)):
                return None
    _ = params
    return out


class _Subst(ast.NodeTransformer):
    def __init__(self, mapping: t.Dict[str, ast.expr]):
        self.mapping = mapping

    def visit_Name(self, node: ast.Name) -> ast.AST:
        if isinstance(node.ctx, ast.Load) and node.id in self.mapping:
            return _clone(self.mapping[node.id])
        return node


def _simple_arg(e: ast.AST) -> bool:
    while isinstance(e, ast.Attribute):
        e = e.value
    return isinstance(e, (ast.Name, ast.Constant))


def _or_all(parts: t.List[ast.expr]) -> ast.expr:
    if not parts:
        return ast.Constant(value=False)
    if len(parts) == 1:
        return parts[0]
    return ast.BoolOp(op=ast.Or(), values=parts)


def expand_function(fn: ast.FunctionDef, resolve: t.Callable[[ast.Call], t.Optional[t.Tuple[ast.FunctionDef, bool]]]) -> int:
    """Rewrite comparisons of classifier results inside ``fn`` in place.  ``resolve(call)`` gives the helper's definition and whether
    its first parameter is an implicit receiver.  Returns the number of comparisons rewritten."""
    # locals assigned exactly once, from a classifier call with simple arguments
    assigned: t.Dict[str, t.List[ast.AST]] = {}
    for x in ast.walk(fn):
        if isinstance(x, (ast.FunctionDef, ast.Lambda)) and x is not fn:
            continue
        if isinstance(x, ast.Name) and isinstance(x.ctx, (ast.Store, ast.Del)):
            assigned.setdefault(x.id, []).append(x)
    params = {a.arg for a in fn.args.args + fn.args.kwonlyargs} | ({fn.args.vararg.arg} if fn.args.vararg else set()) | \
        ({fn.args.kwarg.arg} if fn.args.kwarg else set())
    cands: t.Dict[str, t.Tuple[_Paths, t.Dict[str, ast.expr]]] = {}
    for st in ast.walk(fn):
        if not (isinstance(st, ast.Assign) and len(st.targets) == 1 and isinstance(st.targets[0], ast.Name) and isinstance(st.value, ast.Call)):
            continue
        nm = st.targets[0].id
        if nm in params or len(assigned.get(nm, [])) != 1:
            continue
        call = st.value
        if call.keywords or any(isinstance(a, ast.Starred) for a in call.args) or not all(_simple_arg(a) for a in call.args):
            continue
        res = resolve(call)
        if res is None:
            continue
        helper, has_recv = res
        paths = classifier_paths(helper)
        if paths is None:
            continue
        hparams = [a.arg for a in helper.args.args]
        if has_recv:
            recv = call.func.value if isinstance(call.func, ast.Attribute) else None
            if recv is None or not hparams:
                continue
            mapping: t.Dict[str, ast.expr] = {hparams[0]: recv}
            hparams = hparams[1:]
        else:
            mapping = {}
        if len(hparams) != len(call.args):
            continue
        mapping.update(dict(zip(hparams, call.args)))
        # arguments must not be reassigned between the call and the uses: require them to be parameters / attribute chains on
        # names assigned at most once
        ok = True
        for a in call.args:
            root = a
            while isinstance(root, ast.Attribute):
                root = root.value
            if isinstance(root, ast.Name) and root.id not in params and len(assigned.get(root.id, [])) > 1:
                ok = False
        if ok:
            cands[nm] = (paths, mapping)
    if not cands:
        return 0
    # every load of the local must be an operand of a supported comparison
    parent: t.Dict[int, ast.AST] = {}
    for p in ast.walk(fn):
        for ch in ast.iter_child_nodes(p):
            parent[id(ch)] = p
    uses: t.Dict[str, t.List[ast.Compare]] = {nm: [] for nm in cands}
    bad: t.Set[str] = set()
    for x in ast.walk(fn):
        if isinstance(x, ast.Name) and isinstance(x.ctx, ast.Load) and x.id in cands:
            par = parent.get(id(x))
            if isinstance(par, ast.Compare) and len(par.ops) == 1:
                op = par.ops[0]
                other = par.comparators[0] if par.left is x else par.left
                if isinstance(op, (ast.Eq, ast.NotEq, ast.Is, ast.IsNot)) and _const(other)[0] and other is not None:
                    uses[x.id].append(par)
                    continue
                if isinstance(op, (ast.In, ast.NotIn)) and par.left is x:
                    uses[x.id].append(par)
                    continue
            bad.add(x.id)
    n = 0

    class Rewrite(ast.NodeTransformer):
        def visit_Compare(self, node: ast.Compare) -> ast.AST:
            nonlocal n
            for nm, cmps in uses.items():
                if nm in bad or not any(c is node for c in cmps):
                    continue
                paths, mapping = cands[nm]
                op = node.ops[0]

                def cond_of(pred: t.Callable[[t.Any], t.Optional[ast.expr]]) -> ast.expr:
                    parts: t.List[ast.expr] = []
                    for (c, cond) in paths.cases:
                        extra = pred(c)
                        if extra is False:      # type: ignore[comparison-overlap]
                            continue
                        ce = _Subst(mapping).visit(_clone(cond)) if cond is not None else None
                        full = _and(ce, extra if extra is not True else None)      # type: ignore[arg-type]
                        parts.append(full if full is not None else ast.Constant(value=True))
                    return _or_all(parts)
                if isinstance(op, (ast.Eq, ast.NotEq, ast.Is, ast.IsNot)):
                    other = node.comparators[0] if isinstance(node.left, ast.Name) and node.left.id == nm else node.left
                    want = _const(other)[1]
                    e = cond_of(lambda c: True if (c == want and type(c) is type(want)) else False)
                    if isinstance(op, (ast.NotEq, ast.IsNot)):
                        e = _not(e)
                else:
                    coll = node.comparators[0]
                    neg = isinstance(op, ast.NotIn)
                    e = cond_of(lambda c: ast.Compare(left=ast.Constant(value=c), ops=[ast.NotIn() if neg else ast.In()],
                                                      comparators=[_clone(coll)]))
                n += 1
                return ast.copy_location(e, node)
            return self.generic_visit(node)
    if any(nm not in bad and uses[nm] for nm in cands):
        Rewrite().visit(fn)
        # a flag assigned once from a rewritten comparison (`accepted = layout in formats`) and only ever tested: its (now compound)
        # value is substituted into the tests, so that the flow graph sees the connectives
        parent2: t.Dict[int, ast.AST] = {}
        for p in ast.walk(fn):
            for ch in ast.iter_child_nodes(p):
                parent2[id(ch)] = p
        for st in list(ast.walk(fn)):
            if not (isinstance(st, ast.Assign) and len(st.targets) == 1 and isinstance(st.targets[0], ast.Name)
                    and isinstance(st.value, ast.BoolOp)):
                continue
            flag = st.targets[0].id
            if flag in params or len(assigned.get(flag, [])) != 1:
                continue
            if any(isinstance(x, ast.Name) and x.id not in params and len(assigned.get(x.id, [])) > 0 for x in ast.walk(st.value)):
                continue
            loads = [x for x in ast.walk(fn) if isinstance(x, ast.Name) and isinstance(x.ctx, ast.Load) and x.id == flag]

            def _tested(x: ast.AST) -> bool:
                par = parent2.get(id(x))
                while isinstance(par, (ast.BoolOp, ast.UnaryOp)) and (not isinstance(par, ast.UnaryOp) or isinstance(par.op, ast.Not)):
                    x, par = par, parent2.get(id(par))
                return isinstance(par, (ast.If, ast.While, ast.IfExp)) and par.test is x
            if not loads or not all(_tested(x) for x in loads):
                continue
            _Subst({flag: st.value}).visit(fn)
            body_owner = parent2.get(id(st))
            for fld in ('body', 'orelse', 'finalbody'):
                seq = getattr(body_owner, fld, None)
                if isinstance(seq, list) and st in seq:
                    seq[seq.index(st)] = ast.copy_location(ast.Pass(), st)
        ast.fix_missing_locations(fn)
        for x in ast.walk(fn):
            if not hasattr(x, 'lineno') and isinstance(x, (ast.expr, ast.stmt)):
                x.lineno = fn.lineno          # type: ignore[attr-defined]
    return n


def inline_method_aliases(fn: ast.FunctionDef) -> int:
    """``add = items.append`` ... ``add(x)``  ->  ``items.append(x)``: a local bound once to a method (an attribute of a name or of
    an attribute chain) and only ever *called* is replaced by the attribute at its call sites, so rules that look at what is
    called on an object see through the micro-optimisation.  Returns the number of call sites rewritten."""
    stores: t.Dict[str, int] = {}
    for x in ast.walk(fn):
        if isinstance(x, ast.Name) and isinstance(x.ctx, (ast.Store, ast.Del)):
            stores[x.id] = stores.get(x.id, 0) + 1
    params = {a.arg for a in fn.args.args + fn.args.kwonlyargs + fn.args.posonlyargs}
    for extra in (fn.args.vararg, fn.args.kwarg):
        if extra is not None:
            params.add(extra.arg)
    parent: t.Dict[int, ast.AST] = {}
    for p in ast.walk(fn):
        for ch in ast.iter_child_nodes(p):
            parent[id(ch)] = p
    aliases: t.Dict[str, ast.Attribute] = {}
    for st in ast.walk(fn):
        if isinstance(st, ast.Assign) and len(st.targets) == 1 and isinstance(st.targets[0], ast.Name) and isinstance(st.value, ast.Attribute):
            nm = st.targets[0].id
            if nm in params or stores.get(nm, 0) != 1:
                continue
            root: ast.AST = st.value
            while isinstance(root, ast.Attribute):
                root = root.value
            if not isinstance(root, ast.Name):
                continue
            if root.id not in params and stores.get(root.id, 0) > 1:
                continue
            # the assignment must not sit inside a loop or branch deeper than the uses can see: require function top level
            if parent.get(id(st)) is not fn:
                continue
            aliases[nm] = st.value
    if not aliases:
        return 0
    ok = {nm: True for nm in aliases}
    for x in ast.walk(fn):
        if isinstance(x, ast.Name) and isinstance(x.ctx, ast.Load) and x.id in aliases:
            par = parent.get(id(x))
            if not (isinstance(par, ast.Call) and par.func is x):
                ok[x.id] = False
    n = 0
    for x in ast.walk(fn):
        if isinstance(x, ast.Call) and isinstance(x.func, ast.Name) and x.func.id in aliases and ok[x.func.id]:
            new = _clone(aliases[x.func.id])
            ast.copy_location(new, x.func)
            for y in ast.walk(new):
                ast.copy_location(y, x.func)
            x.func = new
            n += 1
    return n


# ---------------------------------------------------------------------------- accumulate-loops -> comprehensions


def _mentions(node: ast.AST, name: str) -> bool:
    return any(isinstance(x, ast.Name) and x.id == name for x in ast.walk(node))


def _empty_init(st: ast.stmt) -> t.Optional[t.Tuple[str, str]]:
    """``acc = []`` / ``acc: T = {}`` / ``acc = set()`` / ``dict()`` / ``list()``  ->  (name, kind)."""
    tg: t.Optional[ast.AST] = None
    val: t.Optional[ast.AST] = None
    if isinstance(st, ast.Assign) and len(st.targets) == 1:
        tg, val = st.targets[0], st.value
    elif isinstance(st, ast.AnnAssign) and st.value is not None:
        tg, val = st.target, st.value
    if not isinstance(tg, ast.Name) or val is None:
        return None
    if isinstance(val, ast.List) and not val.elts:
        return tg.id, 'list'
    if isinstance(val, ast.Dict) and not val.keys:
        return tg.id, 'dict'
    if isinstance(val, ast.Call) and isinstance(val.func, ast.Name) and not val.args and not val.keywords and val.func.id in ('list', 'dict', 'set'):
        return tg.id, val.func.id
    return None


class _SubstNames(ast.NodeTransformer):
    def __init__(self, mapping: t.Dict[str, ast.expr]):
        self.mapping = mapping

    def visit_Name(self, node: ast.Name) -> t.Any:
        if isinstance(node.ctx, ast.Load) and node.id in self.mapping:
            return _clone(self.mapping[node.id])
        return node



def _arms_assign(st: ast.stmt) -> t.Optional[t.Tuple[str, ast.expr]]:
    """``if C: t = A else: t = B``  ->  (t, ``A if C else B``)."""
    if not (isinstance(st, ast.If) and len(st.body) == 1 and len(st.orelse) == 1):
        return None
    a, b = st.body[0], st.orelse[0]

    def one(x: ast.stmt) -> t.Optional[t.Tuple[str, ast.expr]]:
        if isinstance(x, ast.Assign) and len(x.targets) == 1 and isinstance(x.targets[0], ast.Name):
            return x.targets[0].id, x.value
        if isinstance(x, ast.AnnAssign) and isinstance(x.target, ast.Name) and x.value is not None:
            return x.target.id, x.value
        return None
    pa, pb = one(a), one(b)
    if pa is None or pb is None or pa[0] != pb[0]:
        return None
    return pa[0], ast.IfExp(test=_clone(st.test), body=_clone(pa[1]), orelse=_clone(pb[1]))


def _loop_as_comprehension(loop: ast.For, acc: str, kind: str) -> t.Optional[ast.expr]:
    """The comprehension a ``for`` loop amounts to when its body is guards (``if not c: continue`` / ``if c:`` nesting), single-use
    temporaries and exactly one final fill of ``acc``."""
    if loop.orelse or _mentions(loop.iter, acc) or _mentions(loop.target, acc):
        return None
    filters: t.List[ast.expr] = []
    temps: t.Dict[str, ast.expr] = {}
    body = list(loop.body)
    while True:
        if not body:
            return None
        st = body[0]
        if len(body) == 1 and isinstance(st, ast.If) and not st.orelse and not _mentions(st.test, acc):
            filters.append(t.cast(ast.expr, _SubstNames(temps).visit(_clone(st.test))))
            body = list(st.body)
            continue
        if isinstance(st, ast.If) and not st.orelse and len(st.body) == 1 and isinstance(st.body[0], ast.Continue) and not _mentions(st.test, acc):
            filters.append(t.cast(ast.expr, _SubstNames(temps).visit(_not(_clone(st.test)))))
            body = body[1:]
            continue
        if len(body) > 1 and isinstance(st, ast.If) and not st.orelse and len(st.body) == 1 and isinstance(st.body[0], ast.Assign) \
                and len(st.body[0].targets) == 1 and isinstance(st.body[0].targets[0], ast.Name) and st.body[0].targets[0].id in temps \
                and not _mentions(st, acc):
            # `t = A` / `if c(t): t = B`: the temporary is `B if c(A) else A`
            nm_ = st.body[0].targets[0].id
            sub_ = _SubstNames(temps)
            temps[nm_] = ast.IfExp(test=t.cast(ast.expr, sub_.visit(_clone(st.test))), body=t.cast(ast.expr, sub_.visit(_clone(st.body[0].value))),
                                   orelse=temps[nm_])
            body = body[1:]
            continue
        arms = _arms_assign(st) if len(body) > 1 else None
        if arms is not None and arms[0] != acc and arms[0] not in temps and not _mentions(st, acc):
            temps[arms[0]] = t.cast(ast.expr, _SubstNames(temps).visit(arms[1]))
            body = body[1:]
            continue
        if len(body) > 1 and isinstance(st, (ast.Assign, ast.AnnAssign)):
            tg = st.targets[0] if isinstance(st, ast.Assign) and len(st.targets) == 1 else (st.target if isinstance(st, ast.AnnAssign) else None)
            if isinstance(tg, ast.Name) and st.value is not None and tg.id != acc and not _mentions(st.value, acc) and tg.id not in temps \
                    and not any(isinstance(x, (ast.NamedExpr, ast.Yield, ast.YieldFrom, ast.Await)) for x in ast.walk(st.value)):
                temps[tg.id] = t.cast(ast.expr, _SubstNames(temps).visit(_clone(st.value)))
                body = body[1:]
                continue
            return None
        break
    if len(body) != 1:
        return None
    st = body[0]
    gens = [ast.comprehension(target=_clone(loop.target), iter=_clone(loop.iter), ifs=filters, is_async=0)]
    sub = _SubstNames(temps)
    # temporaries must not be visible after the loop: require they are not the loop target
    if isinstance(st, ast.Expr) and isinstance(st.value, ast.Call) and isinstance(st.value.func, ast.Attribute) \
            and isinstance(st.value.func.value, ast.Name) and st.value.func.value.id == acc and len(st.value.args) == 1 and not st.value.keywords:
        arg = st.value.args[0]
        if _mentions(arg, acc):
            return None
        elt = t.cast(ast.expr, sub.visit(_clone(arg)))
        if st.value.func.attr == 'append' and kind == 'list':
            return ast.ListComp(elt=elt, generators=gens)
        if st.value.func.attr == 'add' and kind == 'set':
            return ast.SetComp(elt=elt, generators=gens)
        return None
    if isinstance(st, ast.Assign) and len(st.targets) == 1 and isinstance(st.targets[0], ast.Subscript) and kind == 'dict' \
            and isinstance(st.targets[0].value, ast.Name) and st.targets[0].value.id == acc:
        k, v = st.targets[0].slice, st.value
        if _mentions(k, acc) or _mentions(v, acc):
            return None
        return ast.DictComp(key=t.cast(ast.expr, sub.visit(_clone(k))), value=t.cast(ast.expr, sub.visit(_clone(v))), generators=gens)
    return None


def _flag_init(st: ast.stmt) -> t.Optional[t.Tuple[str, str]]:
    tg = val = None
    if isinstance(st, ast.Assign) and len(st.targets) == 1:
        tg, val = st.targets[0], st.value
    elif isinstance(st, ast.AnnAssign) and st.value is not None:
        tg, val = st.target, st.value
    if isinstance(tg, ast.Name) and isinstance(val, ast.Constant) and isinstance(val.value, bool):
        return tg.id, 'flagTrue' if val.value else 'flagFalse'
    return None


def _split_loop(loop: ast.For, inits: t.Dict[str, str]) -> t.Optional[t.List[ast.stmt]]:
    """A loop that fills several accumulators / sets flags, each statement independent of the others' accumulators:

        out = []; changed = False            out = [f(x) for x in xs]
        for x in xs:                   ->    changed = not all(f(x) is x for x in xs)
            y = f(x)
            out.append(y)
            if y is not x: changed = True

    ``if c: a.append(x) else: b.append(x)`` (a partition) gives each accumulator its own filter.
    """
    if loop.orelse or any(_mentions(loop.iter, a) or _mentions(loop.target, a) for a in inits):
        return None
    temps: t.Dict[str, ast.expr] = {}
    results: t.Dict[str, ast.expr] = {}

    def touches(e: ast.AST) -> bool:
        return any(_mentions(e, a) for a in inits)

    def gens(filters: t.List[ast.expr]) -> t.List[ast.comprehension]:
        return [ast.comprehension(target=_clone(loop.target), iter=_clone(loop.iter), ifs=[_clone(x) for x in filters], is_async=0)]

    def conj(filters: t.List[ast.expr]) -> ast.expr:
        return filters[0] if len(filters) == 1 else ast.BoolOp(op=ast.And(), values=[_clone(x) for x in filters])

    def walk(stmts: t.Sequence[ast.stmt], filters: t.List[ast.expr], top: bool) -> bool:
        filters = list(filters)
        for st in stmts:
            sub = _SubstNames(temps)
            if isinstance(st, ast.If) and not st.orelse and len(st.body) == 1 and isinstance(st.body[0], ast.Continue) and top and not touches(st.test):
                filters.append(t.cast(ast.expr, sub.visit(_not(_clone(st.test)))))
                continue
            arms = _arms_assign(st) if top else None
            if arms is not None and arms[0] not in inits and arms[0] not in temps and not touches(st):
                temps[arms[0]] = t.cast(ast.expr, sub.visit(arms[1]))
                continue
            if isinstance(st, (ast.Assign, ast.AnnAssign)):
                tg = st.targets[0] if isinstance(st, ast.Assign) and len(st.targets) == 1 else (st.target if isinstance(st, ast.AnnAssign) else None)
                if top and isinstance(tg, ast.Name) and st.value is not None and tg.id not in inits and tg.id not in temps and not touches(st.value) \
                        and not any(isinstance(x, (ast.NamedExpr, ast.Yield, ast.YieldFrom, ast.Await)) for x in ast.walk(st.value)):
                    temps[tg.id] = t.cast(ast.expr, sub.visit(_clone(st.value)))
                    continue
                if isinstance(st, ast.Assign) and isinstance(tg, ast.Subscript) and isinstance(tg.value, ast.Name) and inits.get(tg.value.id) == 'dict' \
                        and tg.value.id not in results and not touches(tg.slice) and not touches(st.value):
                    results[tg.value.id] = ast.DictComp(key=t.cast(ast.expr, sub.visit(_clone(tg.slice))),
                                                        value=t.cast(ast.expr, sub.visit(_clone(st.value))), generators=gens(filters))
                    continue
                if isinstance(st, ast.Assign) and isinstance(tg, ast.Name) and isinstance(st.value, ast.Constant) and filters \
                        and inits.get(tg.id) in ('flagTrue', 'flagFalse') and tg.id not in results \
                        and st.value.value is (inits[tg.id] == 'flagFalse'):
                    # `if c: flag = True` (flag starts False): flag == not all(not c)
                    every = ast.Call(func=ast.Name(id='all', ctx=ast.Load()),
                                     args=[ast.GeneratorExp(elt=_not(conj(filters)), generators=gens([]))], keywords=[])
                    results[tg.id] = every if inits[tg.id] == 'flagTrue' else ast.UnaryOp(op=ast.Not(), operand=every)
                    continue
                return False
            if isinstance(st, ast.Expr) and isinstance(st.value, ast.Call) and isinstance(st.value.func, ast.Attribute) \
                    and isinstance(st.value.func.value, ast.Name) and len(st.value.args) == 1 and not st.value.keywords:
                a_, meth, arg = st.value.func.value.id, st.value.func.attr, st.value.args[0]
                if a_ in inits and a_ not in results and not touches(arg):
                    elt = t.cast(ast.expr, sub.visit(_clone(arg)))
                    if meth == 'append' and inits[a_] == 'list':
                        results[a_] = ast.ListComp(elt=elt, generators=gens(filters))
                        continue
                    if meth == 'add' and inits[a_] == 'set':
                        results[a_] = ast.SetComp(elt=elt, generators=gens(filters))
                        continue
                return False
            if isinstance(st, ast.If) and not touches(st.test):
                test = t.cast(ast.expr, sub.visit(_clone(st.test)))
                if not walk(st.body, filters + [test], False):
                    return False
                if st.orelse and not walk(st.orelse, filters + [_not(_clone(test))], False):
                    return False
                continue
            if isinstance(st, ast.Pass):
                continue
            return False
        return True

    if not walk(loop.body, [], True) or not results:
        return None
    out: t.List[ast.stmt] = []
    for nm, val in results.items():
        new = ast.Assign(targets=[ast.Name(id=nm, ctx=ast.Store())], value=val)
        for y in ast.walk(new):
            ast.copy_location(y, loop)
        out.append(new)
    return out


def loops_to_comprehensions(fn: ast.FunctionDef) -> int:
    """Rewrite, in the analysed copy of the program, the accumulate idiom

        acc = []                       acc = [E for T in ITER if C]
        for T in ITER:          ->
            if not C: continue
            acc.append(E)

    (lists, sets and dicts; guards as ``continue`` or nested ``if``; single-use temporaries inlined).  The loop must be reached from
    the initialisation through ``if`` arms only (no enclosing loop, ``try`` or ``with``) and nothing in between may mention ``acc``,
    so ``acc`` is still empty when the loop starts.  The rules that read collection builders (which fields are listed, filtered and
    how they are labelled) then see one form, whichever way the code is written.  Returns the number of loops rewritten."""
    count = 0

    def rewrite(stmts: t.List[ast.stmt], start: int, acc: str, kind: str) -> None:
        """Rewrite the first statement after ``start`` that mentions ``acc`` if it is a suitable loop (descending through if-arms)."""
        nonlocal count
        for j in range(start, len(stmts)):
            s2 = stmts[j]
            if not _mentions(s2, acc):
                continue
            if isinstance(s2, ast.For):
                comp = _loop_as_comprehension(s2, acc, kind)
                if comp is not None:
                    new = ast.Assign(targets=[ast.Name(id=acc, ctx=ast.Store())], value=comp)
                    for y in ast.walk(new):
                        ast.copy_location(y, s2)
                    stmts[j] = new
                    count += 1
            elif isinstance(s2, ast.If) and not _mentions(s2.test, acc):
                rewrite(s2.body, 0, acc, kind)
                rewrite(s2.orelse, 0, acc, kind)
            return      # whatever follows may see a filled accumulator

    def multi(block: t.List[ast.stmt]) -> None:
        """Loops of this block that fill several accumulators / flags initialised earlier in the same block."""
        nonlocal count
        j = 0
        while j < len(block):
            st = block[j]
            if isinstance(st, ast.For):
                inits: t.Dict[str, str] = {}
                for i in range(j):
                    ini = _empty_init(block[i]) or _flag_init(block[i])
                    if ini is not None and _mentions(st, ini[0]) and not any(_mentions(block[k], ini[0]) for k in range(i + 1, j)):
                        inits[ini[0]] = ini[1]
                if len(inits) >= 2 or any(k.startswith('flag') for k in inits.values()):
                    new = _split_loop(st, inits)
                    # every accumulator the loop touches must have been accounted for
                    if new is not None and len(new) == len(inits):
                        block[j:j + 1] = new
                        count += 1
                        j += len(new)
                        continue
            j += 1

    def scan(block: t.List[ast.stmt]) -> None:
        multi(block)
        for i, st in enumerate(block):
            init = _empty_init(st)
            if init is not None:
                rewrite(block, i + 1, init[0], init[1])
        for st in block:
            if isinstance(st, (ast.FunctionDef, ast.AsyncFunctionDef, ast.ClassDef)):
                continue
            for fld in ('body', 'orelse', 'finalbody'):
                sub = getattr(st, fld, None)
                if isinstance(sub, list) and sub and isinstance(sub[0], ast.stmt):
                    scan(sub)
            for h in getattr(st, 'handlers', []) or []:
                scan(h.body)
    scan(fn.body)
    return count


# ---------------------------------------------------------------------------- early-return predicates -> one Boolean expression


def _is_pure_bool(e: ast.AST) -> bool:
    if isinstance(e, ast.Constant):
        return isinstance(e.value, bool)
    if isinstance(e, ast.Compare):
        return all(_is_pure_operand(x) for x in [e.left, *e.comparators])
    if isinstance(e, ast.BoolOp):
        return all(_is_pure_bool(v) for v in e.values)
    if isinstance(e, ast.UnaryOp) and isinstance(e.op, ast.Not):
        return _is_pure_bool(e.operand)
    if isinstance(e, ast.Call) and isinstance(e.func, ast.Name) and e.func.id in ('isinstance', 'issubclass', 'hasattr', 'callable') and not e.keywords:
        return all(_is_pure_operand(a) for a in e.args)
    return False


def _is_pure_operand(e: ast.AST) -> bool:
    if isinstance(e, (ast.Name, ast.Constant)):
        return True
    if isinstance(e, ast.Attribute):
        return _is_pure_operand(e.value)
    if isinstance(e, ast.Tuple):
        return all(_is_pure_operand(x) for x in e.elts)
    if isinstance(e, ast.Call) and isinstance(e.func, ast.Name) and e.func.id in ('type', 'len') and len(e.args) == 1 and not e.keywords:
        return _is_pure_operand(e.args[0])
    return False


def merge_boolean_returns(fn: ast.FunctionDef) -> int:
    """``if A: return True`` / ``if B: return False`` / ``return C``  ->  ``return A or (not B and C)``.

    Only for predicates whose every test and result is a side-effect-free Boolean expression over names, attributes and constants
    (``Field.has_default``): the early-return chain and the one-line form are the same function, and the rules that compare
    conditions see the same atoms either way.  Returns 1 if the body was rewritten."""
    body = [s for s in fn.body if not (isinstance(s, ast.Expr) and isinstance(s.value, ast.Constant))]
    if len(body) < 2 or not isinstance(body[-1], ast.Return) or body[-1].value is None or not _is_pure_bool(body[-1].value):
        return 0
    steps: t.List[t.Tuple[ast.expr, ast.expr]] = []
    for st in body[:-1]:
        if not (isinstance(st, ast.If) and not st.orelse and len(st.body) == 1 and isinstance(st.body[0], ast.Return)
                and st.body[0].value is not None and _is_pure_bool(st.test) and _is_pure_bool(st.body[0].value)):
            return 0
        steps.append((st.test, st.body[0].value))
    result: ast.expr = _clone(body[-1].value)
    for (c, e) in reversed(steps):
        if isinstance(e, ast.Constant) and e.value is True:
            new: ast.expr = ast.BoolOp(op=ast.Or(), values=[_clone(c), result])
        elif isinstance(e, ast.Constant) and e.value is False:
            new = ast.BoolOp(op=ast.And(), values=[_not(_clone(c)), result])
        else:
            new = ast.BoolOp(op=ast.Or(), values=[ast.BoolOp(op=ast.And(), values=[_clone(c), _clone(e)]),
                                                  ast.BoolOp(op=ast.And(), values=[_not(_clone(c)), result])])
        result = new
    # flatten nested `or` / `and` of the same kind (a or (b or c))
    def flat(x: ast.expr) -> ast.expr:
        if isinstance(x, ast.BoolOp):
            vals: t.List[ast.expr] = []
            for v in x.values:
                v = flat(v)
                if isinstance(v, ast.BoolOp) and type(v.op) is type(x.op):
                    vals.extend(v.values)
                else:
                    vals.append(v)
            x.values = vals
        return x
    ret = ast.Return(value=flat(result))
    for y in ast.walk(ret):
        ast.copy_location(y, body[-1])
    keep = [s for s in fn.body if isinstance(s, ast.Expr) and isinstance(s.value, ast.Constant)][:1]
    fn.body = keep + [ret]
    return 1


# ---------------------------------------------------------------------------- nullary import helpers


def _import_only(body: t.Sequence[ast.stmt]) -> bool:
    for st in body:
        if isinstance(st, (ast.Import, ast.ImportFrom, ast.Pass)):
            continue
        if isinstance(st, ast.Try) and _import_only(st.body) and all(_import_only(h.body) for h in st.handlers) \
                and _import_only(st.orelse) and not st.finalbody:
            continue
        return False
    return True


def inline_import_helpers(fn: ast.FunctionDef, lookup: t.Callable[[ast.Call], t.Optional[ast.FunctionDef]]) -> int:
    """``yaml, Loader = _yaml_loader()`` where the helper takes no argument and consists of (guarded) imports and a final
    ``return <names>``: replace the statement by the helper's imports (and ``target = name`` where the names differ), so that the
    caller reads as if it imported the modules itself.  Returns the number of statements replaced."""
    count = 0

    def scan(block: t.List[ast.stmt]) -> None:
        nonlocal count
        i = 0
        while i < len(block):
            st = block[i]
            if isinstance(st, ast.Assign) and len(st.targets) == 1 and isinstance(st.value, ast.Call) and not st.value.args and not st.value.keywords:
                g = lookup(st.value)
                if g is not None and not (g.args.args or g.args.posonlyargs or g.args.kwonlyargs or g.args.vararg or g.args.kwarg):
                    body = [s for s in g.body if not (isinstance(s, ast.Expr) and isinstance(s.value, ast.Constant))]
                    if body and isinstance(body[-1], ast.Return) and body[-1].value is not None and _import_only(body[:-1]):
                        rv = body[-1].value
                        rnames = [rv] if isinstance(rv, ast.Name) else (list(rv.elts) if isinstance(rv, ast.Tuple) else None)
                        tg = st.targets[0]
                        tnames = [tg] if isinstance(tg, ast.Name) else (list(tg.elts) if isinstance(tg, (ast.Tuple, ast.List)) else None)
                        if rnames and tnames and len(rnames) == len(tnames) and all(isinstance(x, ast.Name) for x in rnames + tnames):
                            new: t.List[ast.stmt] = [_clone(s) for s in body[:-1]]
                            for a, b in zip(tnames, rnames):
                                if a.id != b.id:       # type: ignore[union-attr]
                                    new.append(ast.Assign(targets=[ast.Name(id=a.id, ctx=ast.Store())],     # type: ignore[union-attr]
                                                          value=ast.Name(id=b.id, ctx=ast.Load())))           # type: ignore[union-attr]
                            for s2 in new:
                                for y in ast.walk(s2):
                                    ast.copy_location(y, st)
                            block[i:i + 1] = new
                            count += 1
                            i += len(new)
                            continue
            for fld in ('body', 'orelse', 'finalbody'):
                sub = getattr(st, fld, None)
                if isinstance(sub, list) and sub and isinstance(sub[0], ast.stmt) and not isinstance(st, (ast.FunctionDef, ast.AsyncFunctionDef, ast.ClassDef)):
                    scan(sub)
            for h in getattr(st, 'handlers', []) or []:
                scan(h.body)
            i += 1
    scan(fn.body)
    return count


# ---------------------------------------------------------------------------- `**opts` of a literal dictionary


def spread_kwargs_dicts(fn: ast.FunctionDef) -> int:
    """``opts = {'indent': indent, 'custom': custom}`` ... ``f(x, **opts)``  ->  ``f(x, indent=indent, custom=custom)``.

    ``opts`` is bound once, to a dictionary display / ``dict(k=v)`` call with constant string keys; it may then be filled by
    ``opts['k'] = v`` statements and by ``for a in ('x', 'y'): opts[a] = getattr(obj, a)`` loops over constant names (unrolled to
    ``x=obj.x, y=obj.y``), all in the same block; every value is a name, attribute or constant that is not rebound afterwards; and
    the dictionary is used only as ``**opts``.  Forwarding rules (which option reaches which callee under which name) then read
    explicit keywords."""
    stores: t.Dict[str, t.List[ast.AST]] = {}
    for st in ast.walk(fn):
        if isinstance(st, ast.Assign):
            for tg in st.targets:
                for nm in ast.walk(tg):
                    if isinstance(nm, ast.Name) and isinstance(nm.ctx, ast.Store):
                        stores.setdefault(nm.id, []).append(st)
        elif isinstance(st, (ast.AnnAssign, ast.AugAssign, ast.NamedExpr)) and isinstance(st.target, ast.Name):
            stores.setdefault(st.target.id, []).append(st)
        elif isinstance(st, (ast.For, ast.comprehension)):
            for nm in ast.walk(st.target):
                if isinstance(nm, ast.Name):
                    stores.setdefault(nm.id, []).append(st)
    params = {a.arg for a in fn.args.args + fn.args.kwonlyargs + fn.args.posonlyargs}
    parent: t.Dict[int, ast.AST] = {}
    for p in ast.walk(fn):
        for ch in ast.iter_child_nodes(p):
            parent[id(ch)] = p

    def pure(e: ast.AST) -> bool:
        if isinstance(e, (ast.Name, ast.Constant)):
            return True
        return isinstance(e, ast.Attribute) and pure(e.value)

    def block_of(st: ast.AST) -> t.Optional[t.List[ast.stmt]]:
        par = parent.get(id(st))
        for fld in ('body', 'orelse', 'finalbody'):
            b = getattr(par, fld, None)
            if isinstance(b, list) and st in b:
                return b
        return None
    cands: t.Dict[str, t.List[t.Tuple[str, ast.expr]]] = {}
    drop: t.Dict[str, t.List[ast.stmt]] = {}
    for nm, sts in stores.items():
        if len(sts) != 1 or nm in params:
            continue
        st = sts[0]
        val = getattr(st, 'value', None)
        if not isinstance(st, (ast.Assign, ast.AnnAssign)) or val is None:
            continue
        if isinstance(st, ast.Assign) and not (len(st.targets) == 1 and isinstance(st.targets[0], ast.Name)):
            continue
        items: t.List[t.Tuple[str, ast.expr]] = []
        if isinstance(val, ast.Dict) and all(isinstance(k, ast.Constant) and isinstance(k.value, str) for k in val.keys):
            items = [(k.value, v) for k, v in zip(val.keys, val.values)]       # type: ignore[union-attr]
        elif isinstance(val, ast.Call) and isinstance(val.func, ast.Name) and val.func.id == 'dict' and not val.args \
                and all(k.arg for k in val.keywords):
            items = [(t.cast(str, k.arg), k.value) for k in val.keywords]
        else:
            continue
        # later fills in the same block
        blk = block_of(st)
        extra_stmts: t.List[ast.stmt] = []
        first_use: t.Optional[ast.stmt] = None
        ok = blk is not None
        if blk is not None:
            for s2 in blk[blk.index(t.cast(ast.stmt, st)) + 1:]:
                if not any(isinstance(x, ast.Name) and x.id == nm for x in ast.walk(s2)):
                    continue
                if isinstance(s2, ast.Assign) and len(s2.targets) == 1 and isinstance(s2.targets[0], ast.Subscript) \
                        and isinstance(s2.targets[0].value, ast.Name) and s2.targets[0].value.id == nm \
                        and isinstance(s2.targets[0].slice, ast.Constant) and isinstance(s2.targets[0].slice.value, str) \
                        and not any(isinstance(x, ast.Name) and x.id == nm for x in ast.walk(s2.value)):
                    items = [(k, v) for (k, v) in items if k != s2.targets[0].slice.value] + [(s2.targets[0].slice.value, s2.value)]
                    extra_stmts.append(s2)
                    continue
                if isinstance(s2, ast.For) and not s2.orelse and isinstance(s2.target, ast.Name) and isinstance(s2.iter, (ast.Tuple, ast.List)) \
                        and s2.iter.elts and all(isinstance(e, ast.Constant) and isinstance(e.value, str) for e in s2.iter.elts) \
                        and len(s2.body) == 1 and isinstance(s2.body[0], ast.Assign) and len(s2.body[0].targets) == 1:
                    tg = s2.body[0].targets[0]
                    v2 = s2.body[0].value
                    if isinstance(tg, ast.Subscript) and isinstance(tg.value, ast.Name) and tg.value.id == nm and isinstance(tg.slice, ast.Name) \
                            and tg.slice.id == s2.target.id and isinstance(v2, ast.Call) and isinstance(v2.func, ast.Name) and v2.func.id == 'getattr' \
                            and len(v2.args) == 2 and isinstance(v2.args[1], ast.Name) and v2.args[1].id == s2.target.id and pure(v2.args[0]):
                        for e in s2.iter.elts:
                            key = e.value        # type: ignore[attr-defined]
                            attr = ast.Attribute(value=_clone(v2.args[0]), attr=key, ctx=ast.Load())
                            items = [(k, v) for (k, v) in items if k != key] + [(key, attr)]
                        extra_stmts.append(s2)
                        continue
                if isinstance(s2, ast.If) and len(s2.body) == 1 and len(s2.orelse) == 1:
                    # `if c: opts['k'] = a` / `else: opts['k'] = b`: the same key either way
                    arms = []
                    for arm in (s2.body[0], s2.orelse[0]):
                        if isinstance(arm, ast.Assign) and len(arm.targets) == 1 and isinstance(arm.targets[0], ast.Subscript) \
                                and isinstance(arm.targets[0].value, ast.Name) and arm.targets[0].value.id == nm \
                                and isinstance(arm.targets[0].slice, ast.Constant) and isinstance(arm.targets[0].slice.value, str) \
                                and not any(isinstance(x, ast.Name) and x.id == nm for x in ast.walk(arm.value)):
                            arms.append((arm.targets[0].slice.value, arm.value))
                    if len(arms) == 2 and arms[0][0] == arms[1][0] and not any(isinstance(x, ast.Name) and x.id == nm for x in ast.walk(s2.test)):
                        key = arms[0][0]
                        ife = ast.IfExp(test=_clone(s2.test), body=_clone(arms[0][1]), orelse=_clone(arms[1][1]))
                        items = [(k, v) for (k, v) in items if k != key] + [(key, ife)]
                        extra_stmts.append(s2)
                        continue
                first_use = s2
                break       # first other use (the `**nm` call, or something the rewrite does not model)
        # when nothing but fills stands between the display and the statement that spreads it, the values are evaluated where they
        # were (in order, just before the call): any expression may be moved into the call
        adjacent = False
        if ok and blk is not None and first_use is not None:
            between = blk[blk.index(t.cast(ast.stmt, st)) + 1: blk.index(first_use)]
            spreads = [k for c_ in ast.walk(first_use) if isinstance(c_, ast.Call) for k in c_.keywords
                       if k.arg is None and isinstance(k.value, ast.Name) and k.value.id == nm]
            adjacent = all(b in extra_stmts for b in between) and len(spreads) == 1 and not isinstance(first_use, (ast.For, ast.While, ast.If, ast.Try, ast.With))
        if not ok or not items or not (adjacent or all(pure(v) for _k, v in items)):
            continue
        if adjacent:
            cands[nm] = items
            drop[nm] = extra_stmts
            continue
        # names used in the values must not be rebound after the dictionary statement
        line0 = getattr(st, 'lineno', 0)
        for _k, v in items:
            for x in ast.walk(v):
                if isinstance(x, ast.Name) and any(getattr(s3, 'lineno', 0) >= line0 and s3 is not st and s3 not in extra_stmts
                                                   for s3 in stores.get(x.id, [])):
                    ok = False
        if ok:
            cands[nm] = items
            drop[nm] = extra_stmts
    if not cands:
        return 0
    # every other load of the name must be a `**name` argument
    for x in ast.walk(fn):
        if isinstance(x, ast.Name) and isinstance(x.ctx, ast.Load) and x.id in cands:
            par = parent.get(id(x))
            if isinstance(par, ast.keyword) and par.arg is None and par.value is x:
                continue
            # a use inside one of the fill statements that will be dropped
            p2: t.Optional[ast.AST] = x
            inside = False
            while p2 is not None:
                if p2 in drop.get(x.id, []):
                    inside = True
                    break
                p2 = parent.get(id(p2))
            if not inside:
                cands.pop(x.id, None)
    n = 0
    for c in ast.walk(fn):
        if isinstance(c, ast.Call):
            new_kw: t.List[ast.keyword] = []
            changed = False
            for k in c.keywords:
                if k.arg is None and isinstance(k.value, ast.Name) and k.value.id in cands:
                    for (key, v) in cands[k.value.id]:
                        kw = ast.keyword(arg=key, value=_clone(v))
                        for y in ast.walk(kw):
                            ast.copy_location(y, k.value)
                        new_kw.append(kw)
                    changed = True
                    n += 1
                else:
                    new_kw.append(k)
            if changed:
                c.keywords = new_kw
    if n:
        for nm in cands:
            for s2 in [*drop.get(nm, []), *[s_ for s_ in stores.get(nm, []) if isinstance(s_, ast.stmt)]]:
                blk = block_of(s2)
                if blk is not None and s2 in blk:
                    blk[blk.index(s2)] = ast.copy_location(ast.Pass(), s2)
    return n


# ---------------------------------------------------------------------------- private one-expression helpers


def inline_expression_helpers(fn: ast.FunctionDef, lookup: t.Callable[[ast.Call], t.Optional[ast.FunctionDef]],
                              lookup_method: t.Optional[t.Callable[[str], t.Optional[ast.FunctionDef]]] = None) -> int:
    """``conv = _custom_converter(ty, custom)`` with ``def _custom_converter(ty, custom): return make_converter(ty, H.make(custom))``
    ->  ``conv = make_converter(ty, H.make(custom))``.

    Only for an undecorated private module-level helper whose body is (a docstring and) one ``return`` of an expression, called with
    names / attributes / constants for every parameter (so that an argument may be written more than once), without ``*`` / ``**``."""
    n = 0

    class Inline(ast.NodeTransformer):
        def visit_Call(self, node: ast.Call) -> ast.AST:
            nonlocal n
            self.generic_visit(node)
            recv: t.Optional[ast.expr] = None
            if isinstance(node.func, ast.Attribute) and isinstance(node.func.value, ast.Name) and lookup_method is not None and fn.args.args \
                    and node.func.value.id == fn.args.args[0].arg and node.func.attr.startswith('_') and not node.func.attr.startswith('__'):
                # a private method of the same class called on the receiver (`self._is_adjacent_form(val, a, b)`)
                g = lookup_method(node.func.attr)
                if g is None or g is fn or g.args.vararg or g.args.kwarg or g.args.posonlyargs:
                    return node
                decos = [d.id for d in g.decorator_list if isinstance(d, ast.Name)]
                if len(decos) != len(g.decorator_list) or any(d != 'staticmethod' for d in decos):
                    return node
                if not decos:
                    recv = node.func.value
            elif not (isinstance(node.func, ast.Name) and node.func.id.startswith('_') and not node.func.id.startswith('__')):
                return node
            else:
                g = lookup(node)
                if g is None or g is fn or g.decorator_list or g.args.vararg or g.args.kwarg or g.args.posonlyargs:
                    return node
            body = [s_ for s_ in g.body if not (isinstance(s_, ast.Expr) and isinstance(s_.value, ast.Constant))]
            if len(body) != 1 or not isinstance(body[0], ast.Return) or body[0].value is None:
                return node
            if any(isinstance(a, ast.Starred) for a in node.args) or any(k.arg is None for k in node.keywords):
                return node
            if not all(_simple_arg(a) for a in [*node.args, *[k.value for k in node.keywords]]):
                return node
            pos = [a.arg for a in g.args.args]
            mapping: t.Dict[str, ast.expr] = {}
            if recv is not None:
                if not pos:
                    return node
                mapping[pos[0]] = recv
                pos = pos[1:]
            names = pos + [a.arg for a in g.args.kwonlyargs]
            if len(node.args) > len(pos):
                return node
            mapping.update(dict(zip(pos, node.args)))
            for k in node.keywords:
                if k.arg not in names or k.arg in mapping:
                    return node
                mapping[t.cast(str, k.arg)] = k.value
            defaults = dict(zip([a.arg for a in g.args.args][len(g.args.args) - len(g.args.defaults):], g.args.defaults))
            defaults.update({a.arg: d for a, d in zip(g.args.kwonlyargs, g.args.kw_defaults) if d is not None})
            for nm in names:
                if nm not in mapping:
                    d = defaults.get(nm)
                    if d is None or not isinstance(d, ast.Constant):
                        return node
                    mapping[nm] = d
            expr = body[0].value
            for x in ast.walk(expr):
                if isinstance(x, (ast.Lambda, ast.NamedExpr, ast.Yield, ast.YieldFrom, ast.Await)):
                    return node
                if isinstance(x, ast.comprehension) and any(isinstance(y, ast.Name) and y.id in mapping for y in ast.walk(x.target)):
                    return node
                if isinstance(x, ast.Call) and isinstance(x.func, ast.Name) and x.func.id == g.name:
                    return node
                if isinstance(x, ast.Call) and isinstance(x.func, ast.Attribute) and x.func.attr == g.name:
                    return node
            new = _Subst(mapping).visit(_clone(expr))
            for y in ast.walk(new):
                ast.copy_location(y, node)
            n += 1
            return new
    Inline().visit(fn)
    if n:
        ast.fix_missing_locations(fn)
    return n


# ---------------------------------------------------------------------------- generator functions of one loop


def generator_to_genexp(fn: ast.FunctionDef) -> int:
    """``def g(xs): for x in xs: if c: yield e``  ->  ``def g(xs): return (e for x in xs if c)``.

    Only for a body that is exactly one ``for`` loop (after the docstring) whose body is guards (``if c:`` nesting / ``if not c:
    continue``), single-use temporaries and one final ``yield``.  What the caller iterates over is the same sequence of values; the
    rules then read the helper like any other function that returns a generator expression."""
    body = [s for s in fn.body if not (isinstance(s, ast.Expr) and isinstance(s.value, ast.Constant))]
    if len(body) != 1 or not isinstance(body[0], ast.For) or body[0].orelse:
        return 0
    loop = body[0]
    n_yield = sum(1 for x in ast.walk(fn) if isinstance(x, (ast.Yield, ast.YieldFrom)))
    if n_yield != 1:
        return 0
    filters: t.List[ast.expr] = []
    temps: t.Dict[str, ast.expr] = {}
    stmts = list(loop.body)
    while True:
        if not stmts:
            return 0
        st = stmts[0]
        if len(stmts) == 1 and isinstance(st, ast.If) and not st.orelse:
            filters.append(t.cast(ast.expr, _SubstNames(temps).visit(_clone(st.test))))
            stmts = list(st.body)
            continue
        if isinstance(st, ast.If) and not st.orelse and len(st.body) == 1 and isinstance(st.body[0], ast.Continue):
            filters.append(t.cast(ast.expr, _SubstNames(temps).visit(_not(_clone(st.test)))))
            stmts = stmts[1:]
            continue
        if len(stmts) > 1 and isinstance(st, ast.Assign) and len(st.targets) == 1 and isinstance(st.targets[0], ast.Name) \
                and st.targets[0].id not in temps:
            temps[st.targets[0].id] = t.cast(ast.expr, _SubstNames(temps).visit(_clone(st.value)))
            stmts = stmts[1:]
            continue
        break
    if len(stmts) != 1 or not (isinstance(stmts[0], ast.Expr) and isinstance(stmts[0].value, ast.Yield) and stmts[0].value.value is not None):
        return 0
    elt = t.cast(ast.expr, _SubstNames(temps).visit(_clone(stmts[0].value.value)))
    gen = ast.GeneratorExp(elt=elt, generators=[ast.comprehension(target=_clone(loop.target), iter=_clone(loop.iter), ifs=filters, is_async=0)])
    ret = ast.Return(value=gen)
    for y in ast.walk(ret):
        ast.copy_location(y, loop)
    keep = [s for s in fn.body if isinstance(s, ast.Expr) and isinstance(s.value, ast.Constant)][:1]
    fn.body = keep + [ret]
    return 1


# ---------------------------------------------------------------------------- isinstance(x, A) or isinstance(x, B)


class _MergeIsinstance(ast.NodeTransformer):
    """``isinstance(x, A) or isinstance(x, B)`` -> ``isinstance(x, (A, B))`` and ``not isinstance(x, A) and not isinstance(x, B)`` ->
    ``not isinstance(x, (A, B))`` (same first argument, a plain name or attribute chain; adjacent operands only, so the evaluation
    order of anything else in the chain is untouched).  One kind test is then one branch in the control-flow graph."""

    def __init__(self) -> None:
        self.count = 0

    @staticmethod
    def _inst(e: ast.AST, negated: bool) -> t.Optional[t.Tuple[str, t.List[ast.expr]]]:
        if negated:
            if not (isinstance(e, ast.UnaryOp) and isinstance(e.op, ast.Not)):
                return None
            e = e.operand
        if isinstance(e, ast.Call) and isinstance(e.func, ast.Name) and e.func.id in ('isinstance', 'issubclass') and len(e.args) == 2 and not e.keywords:
            subj = e.args[0]
            x = subj
            while isinstance(x, ast.Attribute):
                x = x.value
            if not isinstance(x, ast.Name):
                return None
            cl = e.args[1]
            return e.func.id + ':' + ast.unparse(subj), (list(cl.elts) if isinstance(cl, ast.Tuple) else [cl])
        return None

    def visit_BoolOp(self, node: ast.BoolOp) -> t.Any:
        self.generic_visit(node)
        negated = isinstance(node.op, ast.And)
        out: t.List[ast.expr] = []
        for v in node.values:
            cur = self._inst(v, negated)
            prev = self._inst(out[-1], negated) if out else None
            if cur is not None and prev is not None and cur[0] == prev[0]:
                call = out[-1].operand if negated else out[-1]       # type: ignore[union-attr]
                merged = ast.Tuple(elts=[_clone(x) for x in prev[1] + cur[1]], ctx=ast.Load())
                call.args[1] = merged                                  # type: ignore[union-attr]
                for y in ast.walk(merged):
                    ast.copy_location(y, v)
                self.count += 1
            else:
                out.append(v)
        if len(out) == 1:
            return out[0]
        node.values = out
        return node


def merge_isinstance_chains(fn: ast.FunctionDef) -> int:
    tr = _MergeIsinstance()
    for i, st in enumerate(fn.body):
        fn.body[i] = tr.visit(st)
    return tr.count


# ---------------------------------------------------------------------------- a local that is (only) a name for an attribute of self


def fold_attribute_aliases(fn: ast.FunctionDef) -> int:
    """``m = {}`` ... ``self.m = m`` (each exactly once, ``m`` never rebound): the local is just a shorter name for the attribute's
    object.  The copy analysed reads ``self.m = {}`` at the place of the first statement, ``self.m`` wherever ``m`` was used, and
    drops the second statement; rules that look for stores into ``self.m`` then see them whichever name the code uses."""
    args = fn.args.posonlyargs + fn.args.args
    if not args:
        return 0
    me = args[0].arg
    stores: t.Dict[str, t.List[ast.stmt]] = {}
    attr_stores: t.Dict[str, t.List[ast.stmt]] = {}
    parent: t.Dict[int, ast.AST] = {}
    for p in ast.walk(fn):
        for ch in ast.iter_child_nodes(p):
            parent[id(ch)] = p
    params = {a.arg for a in args + fn.args.kwonlyargs} | ({fn.args.vararg.arg} if fn.args.vararg else set()) | ({fn.args.kwarg.arg} if fn.args.kwarg else set())
    for x in ast.walk(fn):
        if isinstance(x, ast.Name) and isinstance(x.ctx, (ast.Store, ast.Del)):
            par = parent.get(id(x))
            stores.setdefault(x.id, []).append(t.cast(ast.stmt, par))
        if isinstance(x, ast.Attribute) and isinstance(x.ctx, (ast.Store, ast.Del)) and isinstance(x.value, ast.Name) and x.value.id == me:
            attr_stores.setdefault(x.attr, []).append(t.cast(ast.stmt, parent.get(id(x))))
    n = 0
    for attr, sts in attr_stores.items():
        if len(sts) != 1:
            continue
        st = sts[0]
        val = getattr(st, 'value', None)
        if not isinstance(st, (ast.Assign, ast.AnnAssign)) or not isinstance(val, ast.Name) or val.id in params:
            continue
        if isinstance(st, ast.Assign) and len(st.targets) != 1:
            continue
        loc = val.id
        ls = stores.get(loc, [])
        if len(ls) != 1 or not isinstance(ls[0], (ast.Assign, ast.AnnAssign)) or getattr(ls[0], 'value', None) is None:
            continue
        init = ls[0]
        if isinstance(init, ast.Assign) and not (len(init.targets) == 1 and isinstance(init.targets[0], ast.Name)):
            continue
        # both statements directly in the function body (not under a branch or loop), the initialisation first
        if parent.get(id(init)) is not fn or parent.get(id(st)) is not fn or fn.body.index(init) > fn.body.index(st):
            continue
        # nested functions must not capture the local
        if any(isinstance(y, ast.Name) and y.id == loc for d in ast.walk(fn) if isinstance(d, (ast.FunctionDef, ast.Lambda)) and d is not fn
               for y in ast.walk(d)):
            continue

        def attr_node(ctx: ast.expr_context, at: ast.AST) -> ast.Attribute:
            a = ast.Attribute(value=ast.Name(id=me, ctx=ast.Load()), attr=attr, ctx=ctx)
            for y in ast.walk(a):
                ast.copy_location(y, at)
            return a

        class _R(ast.NodeTransformer):
            def visit_Name(self, node: ast.Name) -> t.Any:
                if node.id == loc and isinstance(node.ctx, ast.Load):
                    return attr_node(ast.Load(), node)
                return node
        new_init = ast.Assign(targets=[attr_node(ast.Store(), init)], value=init.value)
        ast.copy_location(new_init, init)
        i0, i1 = fn.body.index(init), fn.body.index(st)
        fn.body[i0] = new_init
        del fn.body[i1]
        for k, s_ in enumerate(fn.body):
            if s_ is not new_init:
                fn.body[k] = _R().visit(s_)
        n += 1
        break       # indices changed: one alias per pass is enough for the idiom
    return n


# ---------------------------------------------------------------------------- return A if C else B


def split_conditional_returns(fn: ast.FunctionDef) -> int:
    """``return A if C else B``  ->  ``if C: return A`` / ``return B`` (recursively, in every block of the function but not in nested
    functions).  A decision then is a branch of the control-flow graph whichever way it is written."""
    count = 0

    def rewrite(block: t.List[ast.stmt]) -> None:
        nonlocal count
        i = 0
        while i < len(block):
            st = block[i]
            if isinstance(st, ast.Return) and isinstance(st.value, ast.IfExp):
                ife = st.value
                a = ast.Return(value=ife.body)
                b = ast.Return(value=ife.orelse)
                new_if = ast.If(test=ife.test, body=[a], orelse=[])
                for y in (a, b, new_if):
                    ast.copy_location(y, st)
                block[i:i + 1] = [new_if, b]
                count += 1
                continue      # re-examine (nested conditional expressions)
            if not isinstance(st, (ast.FunctionDef, ast.AsyncFunctionDef, ast.ClassDef)):
                for fld in ('body', 'orelse', 'finalbody'):
                    sub = getattr(st, fld, None)
                    if isinstance(sub, list) and sub and isinstance(sub[0], ast.stmt):
                        rewrite(sub)
                for h in getattr(st, 'handlers', []) or []:
                    rewrite(h.body)
            i += 1
    rewrite(fn.body)
    return count


def split_conditional_rebind_return(fn: ast.FunctionDef) -> int:
    """``if C: x = E`` immediately followed by ``return x``  ->  ``if C: return E`` / ``return x`` (at the end of any block, ``x`` a
    plain name, the ``if`` without ``else`` and with that single assignment as its body).  The same decision as the early-return
    form, written as a conditional rebinding of the value that is returned."""
    count = 0

    def rewrite(block: t.List[ast.stmt]) -> None:
        nonlocal count
        for i in range(len(block) - 1):
            st, nxt = block[i], block[i + 1]
            if isinstance(st, ast.If) and not st.orelse and len(st.body) == 1 and isinstance(st.body[0], ast.Assign) \
                    and len(st.body[0].targets) == 1 and isinstance(st.body[0].targets[0], ast.Name) \
                    and isinstance(nxt, ast.Return) and isinstance(nxt.value, ast.Name) and nxt.value.id == st.body[0].targets[0].id:
                name = nxt.value.id
                # the new value must not be needed by the test of a later statement (there is none: the return follows directly)
                ret = ast.Return(value=st.body[0].value)
                ast.copy_location(ret, st.body[0])
                st.body[0] = ret
                count += 1
                _ = name
        for st in block:
            if not isinstance(st, (ast.FunctionDef, ast.AsyncFunctionDef, ast.ClassDef)):
                for fld in ('body', 'orelse', 'finalbody'):
                    sub = getattr(st, fld, None)
                    if isinstance(sub, list) and sub and isinstance(sub[0], ast.stmt):
                        rewrite(sub)
                for h in getattr(st, 'handlers', []) or []:
                    rewrite(h.body)
    rewrite(fn.body)
    return count


def ladder_result_to_returns(fn: ast.FunctionDef) -> int:
    """``if a: result = X`` / ``elif b: result = Y`` / ``else: ... result = Z`` followed by ``return result`` (the last two statements
    of the function; every arm of the ladder, nested ladders included, ends in exactly one assignment to the name; the name is read
    nowhere else)  ->  ``return X`` / ``return Y`` / ``return Z`` in the arms.  The single-exit spelling of an early-return chain."""
    body = fn.body
    if len(body) < 2 or not isinstance(body[-1], ast.Return) or not isinstance(body[-1].value, ast.Name) or not isinstance(body[-2], ast.If):
        return 0
    name = body[-1].value.id
    loads = [x for x in ast.walk(fn) if isinstance(x, ast.Name) and x.id == name and isinstance(x.ctx, ast.Load)]
    if len(loads) != 1:
        return 0
    stores = [x for x in ast.walk(fn) if isinstance(x, ast.Name) and x.id == name and isinstance(x.ctx, (ast.Store, ast.Del))]
    tails: t.List[t.Tuple[t.List[ast.stmt], ast.Assign]] = []

    def collect(block: t.List[ast.stmt]) -> bool:
        if not block:
            return False
        last = block[-1]
        if isinstance(last, ast.Assign) and len(last.targets) == 1 and isinstance(last.targets[0], ast.Name) and last.targets[0].id == name:
            tails.append((block, last))
            return True
        if isinstance(last, ast.If) and last.orelse:
            return collect(last.body) and collect(last.orelse)
        return False
    if not collect([body[-2]]):
        return 0
    bare = [st for st in body if isinstance(st, ast.AnnAssign) and st.value is None and isinstance(st.target, ast.Name) and st.target.id == name]
    if len(stores) != len(tails) + len(bare):
        return 0
    for (block, asg) in tails:
        ret = ast.copy_location(ast.Return(value=asg.value), asg)
        block[block.index(asg)] = ret
    for st in bare:
        body[body.index(st)] = ast.copy_location(ast.Pass(), st)
    body.pop()      # the final `return result` is unreachable now
    return len(tails)


def locals_to_attributes(fn: ast.FunctionDef) -> int:
    """``info = E`` ... ``self.cls_info = info``  ->  ``self.cls_info = E`` at the place of the first statement, every later read of the
    local replaced by the attribute (``__init__`` methods only; both statements in the top-level block; the local bound once and not a
    parameter; the attribute stored once and not read in between).  State that a constructor first builds in a local and then
    publishes is read by the rules as the attribute it becomes."""
    if fn.name != '__init__' or not fn.args.args:
        return 0
    self_ = fn.args.args[0].arg
    params = {a.arg for a in fn.args.args + fn.args.kwonlyargs + fn.args.posonlyargs} | ({fn.args.vararg.arg} if fn.args.vararg else set()) \
        | ({fn.args.kwarg.arg} if fn.args.kwarg else set())
    count = 0
    for _round in range(12):
        stores: t.Dict[str, int] = {}
        for x in ast.walk(fn):
            if isinstance(x, ast.Name) and isinstance(x.ctx, (ast.Store, ast.Del)):
                stores[x.id] = stores.get(x.id, 0) + 1
        attr_stores: t.Dict[str, int] = {}
        for x in ast.walk(fn):
            if isinstance(x, ast.Attribute) and isinstance(x.ctx, (ast.Store, ast.Del)) and isinstance(x.value, ast.Name) and x.value.id == self_:
                attr_stores[x.attr] = attr_stores.get(x.attr, 0) + 1
        done = False
        for j, s2 in enumerate(fn.body):
            tg = s2.targets[0] if isinstance(s2, ast.Assign) and len(s2.targets) == 1 else (s2.target if isinstance(s2, ast.AnnAssign) else None)
            val = getattr(s2, 'value', None)
            if not (isinstance(tg, ast.Attribute) and isinstance(tg.value, ast.Name) and tg.value.id == self_ and isinstance(val, ast.Name)):
                continue
            v = val.id
            if v in params or stores.get(v, 0) != 1 or attr_stores.get(tg.attr, 0) != 1:
                continue
            i = next((i for i, s1 in enumerate(fn.body[:j]) if isinstance(s1, (ast.Assign, ast.AnnAssign)) and getattr(s1, 'value', None) is not None
                      and isinstance(s1.targets[0] if isinstance(s1, ast.Assign) and len(s1.targets) == 1 else getattr(s1, 'target', None), ast.Name)
                      and (s1.targets[0] if isinstance(s1, ast.Assign) else s1.target).id == v), None)      # type: ignore[union-attr]
            if i is None:
                continue
            attr_text = f"{self_}.{tg.attr}"
            if any(isinstance(x, ast.Attribute) and isinstance(x.ctx, ast.Load) and unparse_(x) == attr_text for st in fn.body[:j] for x in ast.walk(st)):
                continue
            s1 = fn.body[i]
            new1 = ast.copy_location(ast.Assign(targets=[ast.Attribute(value=ast.Name(id=self_, ctx=ast.Load()), attr=tg.attr, ctx=ast.Store())],
                                                value=s1.value), s1)      # type: ignore[attr-defined]
            fn.body[i] = new1
            fn.body[j] = ast.copy_location(ast.Pass(), s2)

            class _ToAttr(ast.NodeTransformer):
                def visit_Name(self, node: ast.Name) -> ast.AST:
                    if node.id == v and isinstance(node.ctx, ast.Load):
                        return ast.copy_location(ast.Attribute(value=ast.Name(id=self_, ctx=ast.Load()), attr=tg.attr, ctx=ast.Load()), node)
                    return node
            _ToAttr().visit(fn)
            ast.fix_missing_locations(fn)
            count += 1
            done = True
            break
        if not done:
            break
    return count


def unparse_(e: ast.AST) -> str:
    try:
        return ast.unparse(e)
    except Exception:
        return ''


def counting_loops_to_sum(fn: ast.FunctionDef) -> int:
    """``n = 0`` / ``for p in ITER: if TEST: n += 1``  ->  ``n = sum(1 for p in ITER if TEST)`` (adjacent statements of one block, the
    loop body being exactly that ``if`` without ``else``, ``n`` a plain local)."""
    count = 0

    def rewrite(block: t.List[ast.stmt]) -> None:
        nonlocal count
        i = 0
        while i < len(block) - 1:
            a, b = block[i], block[i + 1]
            name = None
            if isinstance(a, ast.Assign) and len(a.targets) == 1 and isinstance(a.targets[0], ast.Name) \
                    and isinstance(a.value, ast.Constant) and a.value.value == 0 and not isinstance(a.value.value, bool):
                name = a.targets[0].id
            elif isinstance(a, ast.AnnAssign) and isinstance(a.target, ast.Name) and isinstance(a.value, ast.Constant) and a.value.value == 0:
                name = a.target.id
            if name and isinstance(b, ast.For) and not b.orelse and len(b.body) == 1 and isinstance(b.body[0], ast.If) and not b.body[0].orelse \
                    and len(b.body[0].body) == 1 and isinstance(b.body[0].body[0], ast.AugAssign) and isinstance(b.body[0].body[0].op, ast.Add) \
                    and isinstance(b.body[0].body[0].target, ast.Name) and b.body[0].body[0].target.id == name \
                    and isinstance(b.body[0].body[0].value, ast.Constant) and b.body[0].body[0].value.value == 1:
                gen = ast.GeneratorExp(elt=ast.Constant(value=1),
                                       generators=[ast.comprehension(target=b.target, iter=b.iter, ifs=[b.body[0].test], is_async=0)])
                new = ast.Assign(targets=[ast.Name(id=name, ctx=ast.Store())],
                                 value=ast.Call(func=ast.Name(id='sum', ctx=ast.Load()), args=[gen], keywords=[]))
                ast.copy_location(new, a)
                ast.fix_missing_locations(new)
                block[i:i + 2] = [new]
                count += 1
                continue
            i += 1
        for st in block:
            if not isinstance(st, (ast.FunctionDef, ast.AsyncFunctionDef, ast.ClassDef)):
                for fld in ('body', 'orelse', 'finalbody'):
                    sub = getattr(st, fld, None)
                    if isinstance(sub, list) and sub and isinstance(sub[0], ast.stmt):
                        rewrite(sub)
                for h in getattr(st, 'handlers', []) or []:
                    rewrite(h.body)
    rewrite(fn.body)
    return count


def fold_temporaries_into_return(fn: ast.FunctionDef) -> int:
    """A function that is nothing but ``x = E1`` / ``y = E2`` / ``return R`` (each temporary assigned once, from a call-free expression)
    returns R with the temporaries written out: ``no_default = A and B`` / ``return not no_default``  ->  ``return not (A and B)``."""
    body = [s for s in fn.body if not (isinstance(s, ast.Expr) and isinstance(s.value, ast.Constant))]
    if len(body) < 2 or not isinstance(body[-1], ast.Return) or body[-1].value is None:
        return 0
    names: t.List[str] = []
    for s in body[:-1]:
        if not (isinstance(s, ast.Assign) and len(s.targets) == 1 and isinstance(s.targets[0], ast.Name)):
            return 0
        if any(isinstance(x, (ast.Call, ast.Lambda, ast.NamedExpr, ast.Await, ast.Yield)) for x in ast.walk(s.value)):
            return 0
        names.append(s.targets[0].id)
    if len(set(names)) != len(names):
        return 0
    import copy as _copy
    env: t.Dict[str, ast.expr] = {}

    class _Sub(ast.NodeTransformer):
        def visit_Name(self, node: ast.Name) -> ast.AST:
            if isinstance(node.ctx, ast.Load) and node.id in env:
                return _copy.deepcopy(env[node.id])
            return node
    for s in body[:-1]:
        a = t.cast(ast.Assign, s)
        env[t.cast(ast.Name, a.targets[0]).id] = t.cast(ast.expr, _Sub().visit(_copy.deepcopy(a.value)))
    ret = ast.Return(value=t.cast(ast.expr, _Sub().visit(_copy.deepcopy(body[-1].value))))
    ast.copy_location(ret, body[-1])
    ast.fix_missing_locations(ret)
    docs = [s for s in fn.body if isinstance(s, ast.Expr) and isinstance(s.value, ast.Constant)]
    fn.body = docs + [ret]
    return 1
