"""Partial evaluation of *classifier helpers* (a pre-pass of the program model).

A classifier helper is a small function whose body only tests its parameters and returns constants::

    def _data_layout(val):
        if data_is_sequence(val):
            return 'tuple'
        if isinstance(val, (dict, t.Mapping)):
            return 'struct'
        return None

When a function stores the helper's result in a local and then only *compares* that local with constants
(``layout is None``, ``layout == 'tuple'``, ``layout not in self.opts.in_format``), every such comparison is rewritten into the
conditions under which the helper returns the constant(s) in question, with the helper's parameters replaced by the call's
arguments.  The rewritten function is what every analysis sees, so a dispatcher written around a classifier has the same
control-flow conditions as one written with nested ``if`` statements.  Nothing else is rewritten; if the local is used in any other
way the function is left alone.
"""
from __future__ import annotations

import ast
import typing as t


def _clone(e: ast.AST) -> t.Any:
    """A private copy of an expression (model nodes carry ``_parent`` links, which ``copy.deepcopy`` would follow upwards)."""
    if isinstance(e, ast.stmt):
        return ast.parse(ast.unparse(e)).body[0]
    return ast.parse(ast.unparse(e), mode='eval').body


class _Paths:
    """constant -> condition (an expression over the helper's parameters) under which the helper returns it."""

    def __init__(self) -> None:
        self.cases: t.List[t.Tuple[t.Any, t.Optional[ast.expr]]] = []


def _const(e: t.Optional[ast.AST]) -> t.Tuple[bool, t.Any]:
    if e is None:
        return True, None
    if isinstance(e, ast.Constant) and (e.value is None or isinstance(e.value, (str, bool, int))):
        return True, e.value
    return False, None


def _and(a: t.Optional[ast.expr], b: t.Optional[ast.expr]) -> t.Optional[ast.expr]:
    if a is None:
        return b
    if b is None:
        return a
    return ast.BoolOp(op=ast.And(), values=[a, b])


_FLIP = {ast.Is: ast.IsNot, ast.IsNot: ast.Is, ast.Eq: ast.NotEq, ast.NotEq: ast.Eq, ast.In: ast.NotIn, ast.NotIn: ast.In}


def _not(a: ast.expr) -> ast.expr:
    if isinstance(a, ast.UnaryOp) and isinstance(a.op, ast.Not):
        return a.operand
    if isinstance(a, ast.Compare) and len(a.ops) == 1 and type(a.ops[0]) in _FLIP:
        return ast.Compare(left=a.left, ops=[_FLIP[type(a.ops[0])]()], comparators=a.comparators)
    return ast.UnaryOp(op=ast.Not(), operand=a)


def _classify(body: t.Sequence[ast.stmt], cond: t.Optional[ast.expr], out: _Paths) -> t.Optional[t.Optional[ast.expr]]:
    """Walk ``if ...: return CONST`` chains.  Returns the condition under which control falls off the end of ``body``
    (``False`` sentinel = never), or raises ValueError when the body is not of the classifier shape."""
    cur: t.Optional[ast.expr] = cond
    reachable = True
    for st in body:
        if isinstance(st, ast.Expr) and isinstance(st.value, ast.Constant):
            continue
        if isinstance(st, ast.Pass):
            continue
        if not reachable:
            raise ValueError('dead code')
        if isinstance(st, ast.Return):
            ok, v = _const(st.value)
            if not ok:
                raise ValueError('non-constant return')
            out.cases.append((v, cur))
            reachable = False
            continue
        if isinstance(st, ast.If):
            t_reach = _classify(st.body, _and(cur, st.test), out)
            f_reach = _classify(st.orelse, _and(cur, _not(st.test)), out) if st.orelse else ('through', _and(cur, _not(st.test)))
            falls = [x for x in (t_reach, f_reach) if x is not None]
            if not falls:
                reachable = False
            elif len(falls) == 1:
                cur = falls[0][1]
            else:
                cur = ast.BoolOp(op=ast.Or(), values=[x[1] if x[1] is not None else ast.Constant(value=True) for x in falls])
            continue
        raise ValueError('statement outside the classifier fragment')
    return ('through', cur) if reachable else None


def classifier_paths(fn: ast.FunctionDef) -> t.Optional[_Paths]:
    if fn.decorator_list and not all(isinstance(d, ast.Name) and d.id in ('staticmethod', 'classmethod') for d in fn.decorator_list):
        return None
    if fn.args.vararg or fn.args.kwarg or fn.args.kwonlyargs:
        return None
    out = _Paths()
    try:
        rest = _classify(fn.body, None, out)
    except ValueError:
        return None
    if rest is not None:
        out.cases.append((None, rest[1]))          # falling off the end returns None
    consts = {repr(c) for c, _ in out.cases}
    if len(consts) < 2 or len(out.cases) > 6:
        return None
    params = {a.arg for a in fn.args.args}
    # tests may mention parameters, globals and attributes, but must not assign or call methods with side effects we cannot see:
    for _c, cond in out.cases:
        if cond is None:
            continue
        for x in ast.walk(cond):
            if isinstance(x, (ast.NamedExpr, ast.Lambda, ast.Await, ast.Yield, ast.YieldFrom)):
                return None
    _ = params
    return out


class _Subst(ast.NodeTransformer):
    def __init__(self, mapping: t.Dict[str, ast.expr]):
        self.mapping = mapping

    def visit_Name(self, node: ast.Name) -> ast.AST:
        if isinstance(node.ctx, ast.Load) and node.id in self.mapping:
            return _clone(self.mapping[node.id])
        return node


def _simple_arg(e: ast.AST) -> bool:
    while isinstance(e, ast.Attribute):
        e = e.value
    return isinstance(e, (ast.Name, ast.Constant))


def _or_all(parts: t.List[ast.expr]) -> ast.expr:
    if not parts:
        return ast.Constant(value=False)
    if len(parts) == 1:
        return parts[0]
    return ast.BoolOp(op=ast.Or(), values=parts)


def expand_function(fn: ast.FunctionDef, resolve: t.Callable[[ast.Call], t.Optional[t.Tuple[ast.FunctionDef, bool]]]) -> int:
    """Rewrite comparisons of classifier results inside ``fn`` in place.  ``resolve(call)`` gives the helper's definition and whether
    its first parameter is an implicit receiver.  Returns the number of comparisons rewritten."""
    # locals assigned exactly once, from a classifier call with simple arguments
    assigned: t.Dict[str, t.List[ast.AST]] = {}
    for x in ast.walk(fn):
        if isinstance(x, (ast.FunctionDef, ast.Lambda)) and x is not fn:
            continue
        if isinstance(x, ast.Name) and isinstance(x.ctx, (ast.Store, ast.Del)):
            assigned.setdefault(x.id, []).append(x)
    params = {a.arg for a in fn.args.args + fn.args.kwonlyargs} | ({fn.args.vararg.arg} if fn.args.vararg else set()) | \
        ({fn.args.kwarg.arg} if fn.args.kwarg else set())
    cands: t.Dict[str, t.Tuple[_Paths, t.Dict[str, ast.expr]]] = {}
    for st in ast.walk(fn):
        if not (isinstance(st, ast.Assign) and len(st.targets) == 1 and isinstance(st.targets[0], ast.Name) and isinstance(st.value, ast.Call)):
            continue
        nm = st.targets[0].id
        if nm in params or len(assigned.get(nm, [])) != 1:
            continue
        call = st.value
        if call.keywords or any(isinstance(a, ast.Starred) for a in call.args) or not all(_simple_arg(a) for a in call.args):
            continue
        res = resolve(call)
        if res is None:
            continue
        helper, has_recv = res
        paths = classifier_paths(helper)
        if paths is None:
            continue
        hparams = [a.arg for a in helper.args.args]
        if has_recv:
            recv = call.func.value if isinstance(call.func, ast.Attribute) else None
            if recv is None or not hparams:
                continue
            mapping: t.Dict[str, ast.expr] = {hparams[0]: recv}
            hparams = hparams[1:]
        else:
            mapping = {}
        if len(hparams) != len(call.args):
            continue
        mapping.update(dict(zip(hparams, call.args)))
        # arguments must not be reassigned between the call and the uses: require them to be parameters / attribute chains on
        # names assigned at most once
        ok = True
        for a in call.args:
            root = a
            while isinstance(root, ast.Attribute):
                root = root.value
            if isinstance(root, ast.Name) and root.id not in params and len(assigned.get(root.id, [])) > 1:
                ok = False
        if ok:
            cands[nm] = (paths, mapping)
    if not cands:
        return 0
    # every load of the local must be an operand of a supported comparison
    parent: t.Dict[int, ast.AST] = {}
    for p in ast.walk(fn):
        for ch in ast.iter_child_nodes(p):
            parent[id(ch)] = p
    uses: t.Dict[str, t.List[ast.Compare]] = {nm: [] for nm in cands}
    bad: t.Set[str] = set()
    for x in ast.walk(fn):
        if isinstance(x, ast.Name) and isinstance(x.ctx, ast.Load) and x.id in cands:
            par = parent.get(id(x))
            if isinstance(par, ast.Compare) and len(par.ops) == 1:
                op = par.ops[0]
                other = par.comparators[0] if par.left is x else par.left
                if isinstance(op, (ast.Eq, ast.NotEq, ast.Is, ast.IsNot)) and _const(other)[0] and other is not None:
                    uses[x.id].append(par)
                    continue
                if isinstance(op, (ast.In, ast.NotIn)) and par.left is x:
                    uses[x.id].append(par)
                    continue
            bad.add(x.id)
    n = 0

    class Rewrite(ast.NodeTransformer):
        def visit_Compare(self, node: ast.Compare) -> ast.AST:
            nonlocal n
            for nm, cmps in uses.items():
                if nm in bad or not any(c is node for c in cmps):
                    continue
                paths, mapping = cands[nm]
                op = node.ops[0]

                def cond_of(pred: t.Callable[[t.Any], t.Optional[ast.expr]]) -> ast.expr:
                    parts: t.List[ast.expr] = []
                    for (c, cond) in paths.cases:
                        extra = pred(c)
                        if extra is False:      # type: ignore[comparison-overlap]
                            continue
                        ce = _Subst(mapping).visit(_clone(cond)) if cond is not None else None
                        full = _and(ce, extra if extra is not True else None)      # type: ignore[arg-type]
                        parts.append(full if full is not None else ast.Constant(value=True))
                    return _or_all(parts)
                if isinstance(op, (ast.Eq, ast.NotEq, ast.Is, ast.IsNot)):
                    other = node.comparators[0] if isinstance(node.left, ast.Name) and node.left.id == nm else node.left
                    want = _const(other)[1]
                    e = cond_of(lambda c: True if (c == want and type(c) is type(want)) else False)
                    if isinstance(op, (ast.NotEq, ast.IsNot)):
                        e = _not(e)
                else:
                    coll = node.comparators[0]
                    neg = isinstance(op, ast.NotIn)
                    e = cond_of(lambda c: ast.Compare(left=ast.Constant(value=c), ops=[ast.NotIn() if neg else ast.In()],
                                                      comparators=[_clone(coll)]))
                n += 1
                return ast.copy_location(e, node)
            return self.generic_visit(node)
    if any(nm not in bad and uses[nm] for nm in cands):
        Rewrite().visit(fn)
        ast.fix_missing_locations(fn)
        for x in ast.walk(fn):
            if not hasattr(x, 'lineno') and isinstance(x, (ast.expr, ast.stmt)):
                x.lineno = fn.lineno          # type: ignore[attr-defined]
    return n


def inline_method_aliases(fn: ast.FunctionDef) -> int:
    """``add = items.append`` ... ``add(x)``  ->  ``items.append(x)``: a local bound once to a method (an attribute of a name or of
    an attribute chain) and only ever *called* is replaced by the attribute at its call sites, so rules that look at what is
    called on an object see through the micro-optimisation.  Returns the number of call sites rewritten."""
    stores: t.Dict[str, int] = {}
    for x in ast.walk(fn):
        if isinstance(x, ast.Name) and isinstance(x.ctx, (ast.Store, ast.Del)):
            stores[x.id] = stores.get(x.id, 0) + 1
    params = {a.arg for a in fn.args.args + fn.args.kwonlyargs + fn.args.posonlyargs}
    for extra in (fn.args.vararg, fn.args.kwarg):
        if extra is not None:
            params.add(extra.arg)
    parent: t.Dict[int, ast.AST] = {}
    for p in ast.walk(fn):
        for ch in ast.iter_child_nodes(p):
            parent[id(ch)] = p
    aliases: t.Dict[str, ast.Attribute] = {}
    for st in ast.walk(fn):
        if isinstance(st, ast.Assign) and len(st.targets) == 1 and isinstance(st.targets[0], ast.Name) and isinstance(st.value, ast.Attribute):
            nm = st.targets[0].id
            if nm in params or stores.get(nm, 0) != 1:
                continue
            root: ast.AST = st.value
            while isinstance(root, ast.Attribute):
                root = root.value
            if not isinstance(root, ast.Name):
                continue
            if root.id not in params and stores.get(root.id, 0) > 1:
                continue
            # the assignment must not sit inside a loop or branch deeper than the uses can see: require function top level
            if parent.get(id(st)) is not fn:
                continue
            aliases[nm] = st.value
    if not aliases:
        return 0
    ok = {nm: True for nm in aliases}
    for x in ast.walk(fn):
        if isinstance(x, ast.Name) and isinstance(x.ctx, ast.Load) and x.id in aliases:
            par = parent.get(id(x))
            if not (isinstance(par, ast.Call) and par.func is x):
                ok[x.id] = False
    n = 0
    for x in ast.walk(fn):
        if isinstance(x, ast.Call) and isinstance(x.func, ast.Name) and x.func.id in aliases and ok[x.func.id]:
            new = _clone(aliases[x.func.id])
            ast.copy_location(new, x.func)
            for y in ast.walk(new):
                ast.copy_location(y, x.func)
            x.func = new
            n += 1
    return n


# ---------------------------------------------------------------------------- accumulate-loops -> comprehensions


def _mentions(node: ast.AST, name: str) -> bool:
    return any(isinstance(x, ast.Name) and x.id == name for x in ast.walk(node))


def _empty_init(st: ast.stmt) -> t.Optional[t.Tuple[str, str]]:
    """``acc = []`` / ``acc: T = {}`` / ``acc = set()`` / ``dict()`` / ``list()``  ->  (name, kind)."""
    tg: t.Optional[ast.AST] = None
    val: t.Optional[ast.AST] = None
    if isinstance(st, ast.Assign) and len(st.targets) == 1:
        tg, val = st.targets[0], st.value
    elif isinstance(st, ast.AnnAssign) and st.value is not None:
        tg, val = st.target, st.value
    if not isinstance(tg, ast.Name) or val is None:
        return None
    if isinstance(val, ast.List) and not val.elts:
        return tg.id, 'list'
    if isinstance(val, ast.Dict) and not val.keys:
        return tg.id, 'dict'
    if isinstance(val, ast.Call) and isinstance(val.func, ast.Name) and not val.args and not val.keywords and val.func.id in ('list', 'dict', 'set'):
        return tg.id, val.func.id
    return None


class _SubstNames(ast.NodeTransformer):
    def __init__(self, mapping: t.Dict[str, ast.expr]):
        self.mapping = mapping

    def visit_Name(self, node: ast.Name) -> t.Any:
        if isinstance(node.ctx, ast.Load) and node.id in self.mapping:
            return _clone(self.mapping[node.id])
        return node


def _loop_as_comprehension(loop: ast.For, acc: str, kind: str) -> t.Optional[ast.expr]:
    """The comprehension a ``for`` loop amounts to when its body is guards (``if not c: continue`` / ``if c:`` nesting), single-use
    temporaries and exactly one final fill of ``acc``."""
    if loop.orelse or _mentions(loop.iter, acc) or _mentions(loop.target, acc):
        return None
    filters: t.List[ast.expr] = []
    temps: t.Dict[str, ast.expr] = {}
    body = list(loop.body)
    while True:
        if not body:
            return None
        st = body[0]
        if len(body) == 1 and isinstance(st, ast.If) and not st.orelse and not _mentions(st.test, acc):
            filters.append(t.cast(ast.expr, _SubstNames(temps).visit(_clone(st.test))))
            body = list(st.body)
            continue
        if isinstance(st, ast.If) and not st.orelse and len(st.body) == 1 and isinstance(st.body[0], ast.Continue) and not _mentions(st.test, acc):
            filters.append(t.cast(ast.expr, _SubstNames(temps).visit(_not(_clone(st.test)))))
            body = body[1:]
            continue
        if len(body) > 1 and isinstance(st, (ast.Assign, ast.AnnAssign)):
            tg = st.targets[0] if isinstance(st, ast.Assign) and len(st.targets) == 1 else (st.target if isinstance(st, ast.AnnAssign) else None)
            if isinstance(tg, ast.Name) and st.value is not None and tg.id != acc and not _mentions(st.value, acc) and tg.id not in temps \
                    and not any(isinstance(x, (ast.NamedExpr, ast.Yield, ast.YieldFrom, ast.Await)) for x in ast.walk(st.value)):
                temps[tg.id] = t.cast(ast.expr, _SubstNames(temps).visit(_clone(st.value)))
                body = body[1:]
                continue
            return None
        break
    if len(body) != 1:
        return None
    st = body[0]
    gens = [ast.comprehension(target=_clone(loop.target), iter=_clone(loop.iter), ifs=filters, is_async=0)]
    sub = _SubstNames(temps)
    # temporaries must not be visible after the loop: require they are not the loop target
    if isinstance(st, ast.Expr) and isinstance(st.value, ast.Call) and isinstance(st.value.func, ast.Attribute) \
            and isinstance(st.value.func.value, ast.Name) and st.value.func.value.id == acc and len(st.value.args) == 1 and not st.value.keywords:
        arg = st.value.args[0]
        if _mentions(arg, acc):
            return None
        elt = t.cast(ast.expr, sub.visit(_clone(arg)))
        if st.value.func.attr == 'append' and kind == 'list':
            return ast.ListComp(elt=elt, generators=gens)
        if st.value.func.attr == 'add' and kind == 'set':
            return ast.SetComp(elt=elt, generators=gens)
        return None
    if isinstance(st, ast.Assign) and len(st.targets) == 1 and isinstance(st.targets[0], ast.Subscript) and kind == 'dict' \
            and isinstance(st.targets[0].value, ast.Name) and st.targets[0].value.id == acc:
        k, v = st.targets[0].slice, st.value
        if _mentions(k, acc) or _mentions(v, acc):
            return None
        return ast.DictComp(key=t.cast(ast.expr, sub.visit(_clone(k))), value=t.cast(ast.expr, sub.visit(_clone(v))), generators=gens)
    return None


def _flag_init(st: ast.stmt) -> t.Optional[t.Tuple[str, str]]:
    tg = val = None
    if isinstance(st, ast.Assign) and len(st.targets) == 1:
        tg, val = st.targets[0], st.value
    elif isinstance(st, ast.AnnAssign) and st.value is not None:
        tg, val = st.target, st.value
    if isinstance(tg, ast.Name) and isinstance(val, ast.Constant) and isinstance(val.value, bool):
        return tg.id, 'flagTrue' if val.value else 'flagFalse'
    return None


def _split_loop(loop: ast.For, inits: t.Dict[str, str]) -> t.Optional[t.List[ast.stmt]]:
    """A loop that fills several accumulators / sets flags, each statement independent of the others' accumulators:

        out = []; changed = False            out = [f(x) for x in xs]
        for x in xs:                   ->    changed = not all(f(x) is x for x in xs)
            y = f(x)
            out.append(y)
            if y is not x: changed = True
    """
    if loop.orelse or any(_mentions(loop.iter, a) or _mentions(loop.target, a) for a in inits):
        return None
    temps: t.Dict[str, ast.expr] = {}
    filters: t.List[ast.expr] = []
    results: t.Dict[str, ast.expr] = {}
    seen_fill = False

    def gens() -> t.List[ast.comprehension]:
        return [ast.comprehension(target=_clone(loop.target), iter=_clone(loop.iter), ifs=[_clone(x) for x in filters], is_async=0)]
    for st in loop.body:
        sub = _SubstNames(temps)
        if isinstance(st, ast.If) and not st.orelse and len(st.body) == 1 and isinstance(st.body[0], ast.Continue) and not seen_fill \
                and not any(_mentions(st.test, a) for a in inits):
            filters.append(t.cast(ast.expr, sub.visit(_not(_clone(st.test)))))
            continue
        if isinstance(st, (ast.Assign, ast.AnnAssign)):
            tg = st.targets[0] if isinstance(st, ast.Assign) and len(st.targets) == 1 else (st.target if isinstance(st, ast.AnnAssign) else None)
            if isinstance(tg, ast.Name) and st.value is not None and tg.id not in inits and tg.id not in temps \
                    and not any(_mentions(st.value, a) for a in inits) \
                    and not any(isinstance(x, (ast.NamedExpr, ast.Yield, ast.YieldFrom, ast.Await)) for x in ast.walk(st.value)):
                temps[tg.id] = t.cast(ast.expr, sub.visit(_clone(st.value)))
                continue
            if isinstance(st, ast.Assign) and isinstance(tg, ast.Subscript) and isinstance(tg.value, ast.Name) and inits.get(tg.value.id) == 'dict' \
                    and tg.value.id not in results and not any(_mentions(x, a) for a in inits for x in (tg.slice, st.value)):
                results[tg.value.id] = ast.DictComp(key=t.cast(ast.expr, sub.visit(_clone(tg.slice))), value=t.cast(ast.expr, sub.visit(_clone(st.value))),
                                                    generators=gens())
                seen_fill = True
                continue
            return None
        if isinstance(st, ast.Expr) and isinstance(st.value, ast.Call) and isinstance(st.value.func, ast.Attribute) \
                and isinstance(st.value.func.value, ast.Name) and len(st.value.args) == 1 and not st.value.keywords:
            a_, meth, arg = st.value.func.value.id, st.value.func.attr, st.value.args[0]
            if a_ in inits and a_ not in results and not any(_mentions(arg, b) for b in inits):
                elt = t.cast(ast.expr, sub.visit(_clone(arg)))
                if meth == 'append' and inits[a_] == 'list':
                    results[a_] = ast.ListComp(elt=elt, generators=gens())
                    seen_fill = True
                    continue
                if meth == 'add' and inits[a_] == 'set':
                    results[a_] = ast.SetComp(elt=elt, generators=gens())
                    seen_fill = True
                    continue
            return None
        if isinstance(st, ast.If) and not st.orelse and len(st.body) == 1 and isinstance(st.body[0], ast.Assign) and len(st.body[0].targets) == 1 \
                and isinstance(st.body[0].targets[0], ast.Name) and isinstance(st.body[0].value, ast.Constant) \
                and not any(_mentions(st.test, a) for a in inits):
            fl = st.body[0].targets[0].id
            kind = inits.get(fl)
            if kind in ('flagTrue', 'flagFalse') and fl not in results and st.body[0].value.value is (kind == 'flagFalse'):
                every = ast.Call(func=ast.Name(id='all', ctx=ast.Load()),
                                 args=[ast.GeneratorExp(elt=t.cast(ast.expr, sub.visit(_not(_clone(st.test)))), generators=gens())], keywords=[])
                results[fl] = every if kind == 'flagTrue' else ast.UnaryOp(op=ast.Not(), operand=every)
                seen_fill = True
                continue
            return None
        return None
    if not results:
        return None
    out: t.List[ast.stmt] = []
    for nm, val in results.items():
        new = ast.Assign(targets=[ast.Name(id=nm, ctx=ast.Store())], value=val)
        for y in ast.walk(new):
            ast.copy_location(y, loop)
        out.append(new)
    return out


def loops_to_comprehensions(fn: ast.FunctionDef) -> int:
    """Rewrite, in the analysed copy of the program, the accumulate idiom

        acc = []                       acc = [E for T in ITER if C]
        for T in ITER:          ->
            if not C: continue
            acc.append(E)

    (lists, sets and dicts; guards as ``continue`` or nested ``if``; single-use temporaries inlined).  The loop must be reached from
    the initialisation through ``if`` arms only (no enclosing loop, ``try`` or ``with``) and nothing in between may mention ``acc``,
    so ``acc`` is still empty when the loop starts.  The rules that read collection builders (which fields are listed, filtered and
    how they are labelled) then see one form, whichever way the code is written.  Returns the number of loops rewritten."""
    count = 0

    def rewrite(stmts: t.List[ast.stmt], start: int, acc: str, kind: str) -> None:
        """Rewrite the first statement after ``start`` that mentions ``acc`` if it is a suitable loop (descending through if-arms)."""
        nonlocal count
        for j in range(start, len(stmts)):
            s2 = stmts[j]
            if not _mentions(s2, acc):
                continue
            if isinstance(s2, ast.For):
                comp = _loop_as_comprehension(s2, acc, kind)
                if comp is not None:
                    new = ast.Assign(targets=[ast.Name(id=acc, ctx=ast.Store())], value=comp)
                    for y in ast.walk(new):
                        ast.copy_location(y, s2)
                    stmts[j] = new
                    count += 1
            elif isinstance(s2, ast.If) and not _mentions(s2.test, acc):
                rewrite(s2.body, 0, acc, kind)
                rewrite(s2.orelse, 0, acc, kind)
            return      # whatever follows may see a filled accumulator

    def multi(block: t.List[ast.stmt]) -> None:
        """Loops of this block that fill several accumulators / flags initialised earlier in the same block."""
        nonlocal count
        j = 0
        while j < len(block):
            st = block[j]
            if isinstance(st, ast.For):
                inits: t.Dict[str, str] = {}
                for i in range(j):
                    ini = _empty_init(block[i]) or _flag_init(block[i])
                    if ini is not None and _mentions(st, ini[0]) and not any(_mentions(block[k], ini[0]) for k in range(i + 1, j)):
                        inits[ini[0]] = ini[1]
                if len(inits) >= 2 or any(k.startswith('flag') for k in inits.values()):
                    new = _split_loop(st, inits)
                    # every accumulator the loop touches must have been accounted for
                    if new is not None and len(new) == len(inits):
                        block[j:j + 1] = new
                        count += 1
                        j += len(new)
                        continue
            j += 1

    def scan(block: t.List[ast.stmt]) -> None:
        multi(block)
        for i, st in enumerate(block):
            init = _empty_init(st)
            if init is not None:
                rewrite(block, i + 1, init[0], init[1])
        for st in block:
            if isinstance(st, (ast.FunctionDef, ast.AsyncFunctionDef, ast.ClassDef)):
                continue
            for fld in ('body', 'orelse', 'finalbody'):
                sub = getattr(st, fld, None)
                if isinstance(sub, list) and sub and isinstance(sub[0], ast.stmt):
                    scan(sub)
            for h in getattr(st, 'handlers', []) or []:
                scan(h.body)
    scan(fn.body)
    return count


# ---------------------------------------------------------------------------- early-return predicates -> one Boolean expression


def _is_pure_bool(e: ast.AST) -> bool:
    if isinstance(e, ast.Constant):
        return isinstance(e.value, bool)
    if isinstance(e, ast.Compare):
        return all(_is_pure_operand(x) for x in [e.left, *e.comparators])
    if isinstance(e, ast.BoolOp):
        return all(_is_pure_bool(v) for v in e.values)
    if isinstance(e, ast.UnaryOp) and isinstance(e.op, ast.Not):
        return _is_pure_bool(e.operand)
    if isinstance(e, ast.Call) and isinstance(e.func, ast.Name) and e.func.id in ('isinstance', 'issubclass', 'hasattr', 'callable') and not e.keywords:
        return all(_is_pure_operand(a) for a in e.args)
    return False


def _is_pure_operand(e: ast.AST) -> bool:
    if isinstance(e, (ast.Name, ast.Constant)):
        return True
    if isinstance(e, ast.Attribute):
        return _is_pure_operand(e.value)
    if isinstance(e, ast.Tuple):
        return all(_is_pure_operand(x) for x in e.elts)
    if isinstance(e, ast.Call) and isinstance(e.func, ast.Name) and e.func.id in ('type', 'len') and len(e.args) == 1 and not e.keywords:
        return _is_pure_operand(e.args[0])
    return False


def merge_boolean_returns(fn: ast.FunctionDef) -> int:
    """``if A: return True`` / ``if B: return False`` / ``return C``  ->  ``return A or (not B and C)``.

    Only for predicates whose every test and result is a side-effect-free Boolean expression over names, attributes and constants
    (``Field.has_default``): the early-return chain and the one-line form are the same function, and the rules that compare
    conditions see the same atoms either way.  Returns 1 if the body was rewritten."""
    body = [s for s in fn.body if not (isinstance(s, ast.Expr) and isinstance(s.value, ast.Constant))]
    if len(body) < 2 or not isinstance(body[-1], ast.Return) or body[-1].value is None or not _is_pure_bool(body[-1].value):
        return 0
    steps: t.List[t.Tuple[ast.expr, ast.expr]] = []
    for st in body[:-1]:
        if not (isinstance(st, ast.If) and not st.orelse and len(st.body) == 1 and isinstance(st.body[0], ast.Return)
                and st.body[0].value is not None and _is_pure_bool(st.test) and _is_pure_bool(st.body[0].value)):
            return 0
        steps.append((st.test, st.body[0].value))
    result: ast.expr = _clone(body[-1].value)
    for (c, e) in reversed(steps):
        if isinstance(e, ast.Constant) and e.value is True:
            new: ast.expr = ast.BoolOp(op=ast.Or(), values=[_clone(c), result])
        elif isinstance(e, ast.Constant) and e.value is False:
            new = ast.BoolOp(op=ast.And(), values=[_not(_clone(c)), result])
        else:
            new = ast.BoolOp(op=ast.Or(), values=[ast.BoolOp(op=ast.And(), values=[_clone(c), _clone(e)]),
                                                  ast.BoolOp(op=ast.And(), values=[_not(_clone(c)), result])])
        result = new
    # flatten nested `or` / `and` of the same kind (a or (b or c))
    def flat(x: ast.expr) -> ast.expr:
        if isinstance(x, ast.BoolOp):
            vals: t.List[ast.expr] = []
            for v in x.values:
                v = flat(v)
                if isinstance(v, ast.BoolOp) and type(v.op) is type(x.op):
                    vals.extend(v.values)
                else:
                    vals.append(v)
            x.values = vals
        return x
    ret = ast.Return(value=flat(result))
    for y in ast.walk(ret):
        ast.copy_location(y, body[-1])
    keep = [s for s in fn.body if isinstance(s, ast.Expr) and isinstance(s.value, ast.Constant)][:1]
    fn.body = keep + [ret]
    return 1


# ---------------------------------------------------------------------------- nullary import helpers


def _import_only(body: t.Sequence[ast.stmt]) -> bool:
    for st in body:
        if isinstance(st, (ast.Import, ast.ImportFrom, ast.Pass)):
            continue
        if isinstance(st, ast.Try) and _import_only(st.body) and all(_import_only(h.body) for h in st.handlers) \
                and _import_only(st.orelse) and not st.finalbody:
            continue
        return False
    return True


def inline_import_helpers(fn: ast.FunctionDef, lookup: t.Callable[[ast.Call], t.Optional[ast.FunctionDef]]) -> int:
    """``yaml, Loader = _yaml_loader()`` where the helper takes no argument and consists of (guarded) imports and a final
    ``return <names>``: replace the statement by the helper's imports (and ``target = name`` where the names differ), so that the
    caller reads as if it imported the modules itself.  Returns the number of statements replaced."""
    count = 0

    def scan(block: t.List[ast.stmt]) -> None:
        nonlocal count
        i = 0
        while i < len(block):
            st = block[i]
            if isinstance(st, ast.Assign) and len(st.targets) == 1 and isinstance(st.value, ast.Call) and not st.value.args and not st.value.keywords:
                g = lookup(st.value)
                if g is not None and not (g.args.args or g.args.posonlyargs or g.args.kwonlyargs or g.args.vararg or g.args.kwarg):
                    body = [s for s in g.body if not (isinstance(s, ast.Expr) and isinstance(s.value, ast.Constant))]
                    if body and isinstance(body[-1], ast.Return) and body[-1].value is not None and _import_only(body[:-1]):
                        rv = body[-1].value
                        rnames = [rv] if isinstance(rv, ast.Name) else (list(rv.elts) if isinstance(rv, ast.Tuple) else None)
                        tg = st.targets[0]
                        tnames = [tg] if isinstance(tg, ast.Name) else (list(tg.elts) if isinstance(tg, (ast.Tuple, ast.List)) else None)
                        if rnames and tnames and len(rnames) == len(tnames) and all(isinstance(x, ast.Name) for x in rnames + tnames):
                            new: t.List[ast.stmt] = [_clone(s) for s in body[:-1]]
                            for a, b in zip(tnames, rnames):
                                if a.id != b.id:       # type: ignore[union-attr]
                                    new.append(ast.Assign(targets=[ast.Name(id=a.id, ctx=ast.Store())],     # type: ignore[union-attr]
                                                          value=ast.Name(id=b.id, ctx=ast.Load())))           # type: ignore[union-attr]
                            for s2 in new:
                                for y in ast.walk(s2):
                                    ast.copy_location(y, st)
                            block[i:i + 1] = new
                            count += 1
                            i += len(new)
                            continue
            for fld in ('body', 'orelse', 'finalbody'):
                sub = getattr(st, fld, None)
                if isinstance(sub, list) and sub and isinstance(sub[0], ast.stmt) and not isinstance(st, (ast.FunctionDef, ast.AsyncFunctionDef, ast.ClassDef)):
                    scan(sub)
            for h in getattr(st, 'handlers', []) or []:
                scan(h.body)
            i += 1
    scan(fn.body)
    return count


# ---------------------------------------------------------------------------- `**opts` of a literal dictionary


def spread_kwargs_dicts(fn: ast.FunctionDef) -> int:
    """``opts = {'indent': indent, 'custom': custom}`` ... ``f(x, **opts)``  ->  ``f(x, indent=indent, custom=custom)``.

    Only when ``opts`` is bound exactly once, to a dictionary display / ``dict(k=v)`` call with constant string keys whose values are
    names, attributes or constants (so that evaluating them at the call instead changes nothing), is never stored into or passed
    anywhere except as ``**opts``.  Forwarding rules (which option reaches which callee under which name) then read explicit keywords."""
    stores: t.Dict[str, t.List[ast.AST]] = {}
    for st in ast.walk(fn):
        if isinstance(st, ast.Assign):
            for tg in st.targets:
                for nm in ast.walk(tg):
                    if isinstance(nm, ast.Name) and isinstance(nm.ctx, ast.Store):
                        stores.setdefault(nm.id, []).append(st)
        elif isinstance(st, (ast.AnnAssign, ast.AugAssign, ast.NamedExpr)) and isinstance(st.target, ast.Name):
            stores.setdefault(st.target.id, []).append(st)
        elif isinstance(st, (ast.For, ast.comprehension)):
            for nm in ast.walk(st.target):
                if isinstance(nm, ast.Name):
                    stores.setdefault(nm.id, []).append(st)
    params = {a.arg for a in fn.args.args + fn.args.kwonlyargs + fn.args.posonlyargs}
    cands: t.Dict[str, t.List[t.Tuple[str, ast.expr]]] = {}

    def pure(e: ast.AST) -> bool:
        if isinstance(e, (ast.Name, ast.Constant)):
            return True
        return isinstance(e, ast.Attribute) and pure(e.value)
    for nm, sts in stores.items():
        if len(sts) != 1 or nm in params:
            continue
        st = sts[0]
        val = getattr(st, 'value', None)
        if not isinstance(st, (ast.Assign, ast.AnnAssign)) or val is None:
            continue
        if isinstance(st, ast.Assign) and not (len(st.targets) == 1 and isinstance(st.targets[0], ast.Name)):
            continue
        items: t.List[t.Tuple[str, ast.expr]] = []
        if isinstance(val, ast.Dict) and val.keys and all(isinstance(k, ast.Constant) and isinstance(k.value, str) for k in val.keys):
            items = [(k.value, v) for k, v in zip(val.keys, val.values)]       # type: ignore[union-attr]
        elif isinstance(val, ast.Call) and isinstance(val.func, ast.Name) and val.func.id == 'dict' and not val.args and val.keywords \
                and all(k.arg for k in val.keywords):
            items = [(t.cast(str, k.arg), k.value) for k in val.keywords]
        if not items or not all(pure(v) for _k, v in items):
            continue
        # the values' names must not be rebound anywhere in the function (params / single-store locals)
        ok = True
        for _k, v in items:
            for x in ast.walk(v):
                if isinstance(x, ast.Name) and x.id not in params and len(stores.get(x.id, [])) > 1:
                    ok = False
                if isinstance(x, ast.Name) and x.id in params and stores.get(x.id):
                    ok = False
        if ok:
            cands[nm] = items
    if not cands:
        return 0
    # every load of the name must be a `**name` argument
    parent: t.Dict[int, ast.AST] = {}
    for p in ast.walk(fn):
        for ch in ast.iter_child_nodes(p):
            parent[id(ch)] = p
    for x in ast.walk(fn):
        if isinstance(x, ast.Name) and isinstance(x.ctx, ast.Load) and x.id in cands:
            par = parent.get(id(x))
            if not (isinstance(par, ast.keyword) and par.arg is None and par.value is x):
                cands.pop(x.id, None)
    n = 0
    for c in ast.walk(fn):
        if isinstance(c, ast.Call):
            new_kw: t.List[ast.keyword] = []
            changed = False
            for k in c.keywords:
                if k.arg is None and isinstance(k.value, ast.Name) and k.value.id in cands:
                    for (key, v) in cands[k.value.id]:
                        kw = ast.keyword(arg=key, value=_clone(v))
                        for y in ast.walk(kw):
                            ast.copy_location(y, k.value)
                        new_kw.append(kw)
                    changed = True
                    n += 1
                else:
                    new_kw.append(k)
            if changed:
                c.keywords = new_kw
    return n
