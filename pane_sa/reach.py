"""Reaching conditions of CFG nodes as propositional formulas over branch literals, and implication queries.

Dominance answers "is this test on every path?"; it is blind to *correlated* tests (``if a or b: raise`` followed by ``if a: X else: Y``
reaches Y only under ``b``).  The reaching condition of a node is the disjunction over its incoming edges (back edges cut) of the
predecessor's condition and the edge's literal; ``implied(n, literal, truth)`` holds when every assignment satisfying the reaching
condition of ``n`` gives the literal that truth value.  Exception edges and loop edges carry no condition, which only weakens the
reaching condition (fewer implications): the query is conservative.
"""
from __future__ import annotations

import typing as t

from .cfg import CFG, Node
from .norm import Normalizer
from .outcomes import FALSE, TRUE, f_and, f_not, f_or, truth_table, var, variables


class Reach:
    def __init__(self, cfg: CFG, nz: Normalizer):
        self.cfg, self.nz = cfg, nz
        self.lit: t.Dict[int, t.Tuple[str, bool]] = {}
        live = cfg.reachable()
        nodes = [n for n in cfg.nodes if n.id in live]
        # back edges by depth-first search
        back: t.Set[t.Tuple[int, int]] = set()
        state: t.Dict[int, int] = {}
        order: t.List[Node] = []
        stack: t.List[t.Tuple[Node, int]] = [(cfg.entry, 0)]
        state[cfg.entry.id] = 1
        while stack:
            n, i = stack.pop()
            succ = [m for (_lb, m) in n.succ if m.id in live]
            if i < len(succ):
                stack.append((n, i + 1))
                m = succ[i]
                st = state.get(m.id, 0)
                if st == 0:
                    state[m.id] = 1
                    stack.append((m, 0))
                elif st == 1:
                    back.add((n.id, m.id))
            else:
                state[n.id] = 2
                order.append(n)
        order.reverse()
        self.reach: t.Dict[int, t.Any] = {}
        for n in order:
            if n is cfg.entry:
                self.reach[n.id] = TRUE
                continue
            parts = []
            for (lb, p) in n.pred:
                if p.id not in self.reach or (p.id, n.id) in back:
                    continue
                parts.append(f_and(self.reach[p.id], self._edge(p, lb)))
            self.reach[n.id] = f_or(*parts) if parts else TRUE
        _ = nodes

    def _edge(self, p: Node, lb: str) -> t.Any:
        if p.kind == 'cond' and p.ast is not None and lb in ('T', 'F'):
            if p.id not in self.lit:
                self.lit[p.id] = self.nz.literal(p.ast, p)
            text, pos = self.lit[p.id]
            v = var(text)
            holds = v if pos else f_not(v)
            return holds if lb == 'T' else f_not(holds)
        return TRUE

    def implied(self, n: Node, text: str, truth: bool) -> bool:
        f = self.reach.get(n.id)
        if f is None or f == TRUE:
            return False
        if f == FALSE:
            return True
        g = f_and(f, var(text) if not truth else f_not(var(text)))
        vs = sorted(variables(g))
        if text not in vs or len(vs) > 16:
            return False
        return truth_table(g, vs) == 0
