"""Registrations of the remaining properties (imported by properties.py)."""
from __future__ import annotations

from .rules import rename
from .rules import (agreement, classes_rules, conditions, construction, dispatch, errors_rules, escape, extra, forwarding, gates,
                    memo, mutation, pairs, purity, unions)


def _tagged_pairs(m):  # noqa: ANN001
    return pairs.rule_c03_r1_for(m, ['TaggedUnionConverter'])


def _tagged_escape(m):  # noqa: ANN001
    return escape.rule_c04_r1_for(m, ['TaggedUnionConverter'])


def _cond_escape(m):  # noqa: ANN001
    return escape.rule_c04_r1_for(m, ['ConditionalConverter'])


def _pane_pairs(m):  # noqa: ANN001
    return pairs.rule_c03_r1_for(m, ['PaneConverter'])


def register(_reg, _mt, STD):  # noqa: ANN001
    _reg('C01', [dispatch.rule_c01_r1, purity.rule_c01_r2, purity.rule_c01_r3, construction.rule_c14_r1, classes_rules.rule_c15_r4, pairs.rule_c03_r1, extra.rule_no_swallowed_rejection,
                 escape.rule_c04_r1, unions.rule_c11_r1, extra.rule_whole_value_delegation, gates.rule_c02_r6, memo.rule_c10_r1, extra.rule_keycache_keepalive],
         "Decides three structural necessary conditions of C01, not membership itself: (R1) make_converter, an ordered decision list, is "
         "interpreted abstractly over a catalogue of 67 type kinds (each described by its position in the stdlib class lattice and its "
         "argument shape) and the first admitting arm must be the documented one (exhaustive over kinds; nesting follows by induction since "
         "every arm recurses through make_converter); (R2) in every composite try_convert the accepted value depends on the raw input only "
         "through sub-converter results (deep, typed image); (R3) the passes keep no state (verdict and value depend on type and value only); "
         "plus the default-factory call rule shared with C14. Not decided: that each gate accepts exactly the documented members.",
         exhaustive=True)
    _mt('C01',
        "Static, exhaustive-over-kinds decision-list analysis of make_converter (67 type kinds x all arms; abstract interpretation over the "
        "stdlib class lattice, no repository code executed), converted-flow provenance analysis of every composite try_convert, and a purity "
        "check of all passes. These are necessary conditions of C01 that hold for every type at every nesting depth by structural induction; "
        "exact membership per gate is not decided.",
        "abstract interpretation of the dispatch decision list over a kind catalogue; provenance dataflow; purity lint", "DESIGN.md section 3",
        STD + " Stdlib lattice facts (issubclass, isabstract) are read from the interpreter's own stdlib classes, as a type checker consults typeshed.")

    _reg('C05', [agreement.rule_c05_r1, agreement.rule_c05_r2, agreement.rule_c05_r3, agreement.rule_c05_r4, agreement.rule_c05_r5,
                 agreement.rule_c05_r6, purity.rule_c01_r3, extra.rule_no_ordering_refs, extra.rule_hashable_writers, dispatch.rule_c01_r1, agreement.rule_c05_r7, unions.rule_c12_r6, unions.rule_c11_r1, purity.rule_c01_r2],
         "Decides writer/reader agreement conditions without which the round trip cannot hold (value equality itself is not decided): what a "
         "scalar converter writes is a kind it reads and interchange scalars map to themselves; every constructing converter overrides "
         "into_data; into_data recurses through the same sub-converters as try_convert; for all 64 naming configurations of a field the "
         "library-derived output name is among the accepted input names; tuple writer and reader select the same fields and every writer "
         "honours exclude; fields and their converters are zipped in lockstep.")
    _mt('C05',
        "Static writer/reader agreement rules: scalar table cells, into_data coverage and recursion mirror, exhaustive evaluation of the "
        "field-naming decision function over its 64-configuration option cube (by specialising its AST per configuration), layout filter "
        "agreement and lockstep zipping of parallel arrays. Necessary conditions only; value-level round-trip equality is not decided.",
        "table agreement; decision-table extraction by AST specialisation; sibling agreement", "DESIGN.md section 7", STD)

    _reg('C06', [agreement.rule_c06_r1, agreement.rule_c06_r2, extra.rule_no_ordering_refs, extra.rule_hashable_writers, agreement.rule_c05_r4,
                 construction.rule_c14_r2, memo.rule_c10_r2_keyfn, conditions.rule_c13_r1, classes_rules.rule_c15_r2, agreement.rule_c05_r7, memo.rule_c10_r1, extra.rule_keycache_keepalive, unions.rule_c11_r1, purity.rule_c01_r2, extra.rule_substitution_early_return],
         "Decides necessary conditions of the fixed-point property: convert() is from_data(into_data(v), T) with handlers forwarded to both; "
         "every scalar converter, the datetime and the pattern converter accept their own target type and their own serialised form; "
         "serialisation never orders or compares members (so it is total on valid typed values); the generated constructor converts every "
         "supplied argument; the converter cache is not keyed by type equality. Equality of the result with x is not decided.")
    _mt('C06',
        "Static necessary conditions of the fixed-point property: normal-form check of convert(), own-output acceptance of every scalar / "
        "datetime / pattern converter, totality of serialisation (no ordering of members), constructor converts every argument, cache not "
        "keyed by type equality. Equality of convert(x, T) with x is value-level and not decided.",
        "normal-form comparison; table checks; control dependence of the conversion call", "DESIGN.md section 8", STD)

    _reg('C07', [errors_rules.rule_c07_r1, errors_rules.rule_c07_r3, errors_rules.rule_c07_r4, errors_rules.rule_c07_r5, pairs.rule_c03_r1,
                 errors_rules.rule_render_pure, errors_rules.rule_children_keep_order],
         "Decides the structural clauses of C07 over the seven composite diagnostic passes: children of a product node are keyed by the "
         "loop's own key / index and hold the tree reported by that element's own converter (unwrapped); a union node gets exactly one child "
         "per failing member in declaration order; 'extra' collects exactly unknown keys and 'missing' exactly absent required fields; every "
         "leaf's 'actual' is a projection of the input, never a converted value; and the diagnostic pass agrees with the fast pass (C03-R1) "
         "so children are exactly the rejected elements. The text of 'expected' is not decided.")
    _mt('C07',
        "Static pairing / provenance rules over the seven composite diagnostic passes plus pair agreement: keys of children, provenance of "
        "each child and of each leaf's 'actual', path-count analysis of the union member loop (exactly one child per failing member), "
        "dominance conditions of 'extra' / 'missing' fills.",
        "provenance dataflow on accumulator fills; path counting in the CFG; sibling agreement", "DESIGN.md section 9", STD)

    _reg('C08', [errors_rules.rule_c08_r1, errors_rules.rule_c08_r2, errors_rules.rule_c08_r3, errors_rules.rule_c08_r4,
                 errors_rules.rule_c08_r5, errors_rules.rule_c08_r6, extra.rule_no_truthiness_default_on_actual, pairs.rule_c03_r1,
                 errors_rules.rule_render_pure, errors_rules.rule_cause_rendered, conditions.rule_c13_r2],
         "Decides structural clauses of C08: every field of every error node is used by its renderer; set-valued fields are rendered "
         "through sorted() (determinism across hash seeds); handlers for foreign exceptions attach the exception to the node; the "
         "inside_sum protocol is respected so the DuplicateKeyError assertion cannot trip; every print goes to the file parameter and "
         "str() routes through it; a product node is fused with its child only when it has no missing / extra fields of its own; the "
         "diagnostic pass detects what the fast pass rejects (duplicates, missing, extra), so the message can name them. "
         "Not decided: that formatting arbitrary user values cannot raise.")
    _mt('C08',
        "Static completeness and discipline rules on the renderers: field-use completeness per node class, deterministic iteration, cause "
        "plumbing in 13 handlers, inside_sum protocol, file= on every print, dominance of the fusing step by emptiness of missing / extra.",
        "def-use completeness lint; CFG dominance; who-constructs-where", "DESIGN.md section 10", STD)

    _reg('C10', [memo.rule_c10_r1, memo.rule_c10_r2, memo.rule_c10_r3, memo.rule_c10_r4, purity.rule_c10_r5, memo.rule_c10_r6,
                 extra.rule_tables_immutable, extra.rule_keycache_shared_state, extra.rule_keycache_keepalive, extra.rule_no_one_shot_state, extra.rule_no_shared_class_state, extra.rule_no_module_state, construction.rule_c14_r1],
         "Histories and schedules are not enumerated; the property is reduced to ownership and keying rules visible in the source: a cache "
         "keyed by id() of an argument keeps that argument alive for the life of the entry; no memo is keyed by equality of type arguments; "
         "the key covers every parameter and takes the handler set whole; the global handler list has a single writer that runs at import "
         "time; no conversion pass writes to the shared converter object; LRU bookkeeping happens under the lock with user code outside it. "
         "Actual interleavings and GC timing are not explored.")
    _mt('C10',
        "Static ownership / keying / lock-discipline rules that remove the possibility of history dependence rather than exploring "
        "histories: keep-alive of id()-keyed entries (dominance between the cache store and the reference store), by-value type keys "
        "forbidden, key completeness, single writer of global state, immutable converters, lock coverage of LRU bookkeeping.",
        "ownership and who-may-write analysis; key-function normal forms; lock-region coverage", "DESIGN.md section 12",
        STD + " Thread interleavings and GC timing are not explored (other technique families).")

    _reg('C11', [unions.rule_c11_r1, unions.rule_c11_r2, unions.rule_c11_r3, memo.rule_c10_r2, purity.rule_c01_r3, escape.rule_c04_r1, memo.rule_c10_r1, extra.rule_keycache_keepalive],
         "Decides the structural clauses of C11: from typing.get_args to the member loop only order-preserving, one-to-one constructs occur; "
         "conversion, diagnosis and serialisation iterate the members in order and the first success returns inside the loop; every member "
         "is offered the original input; no memo keyed by type equality and no state on the converter can reorder members between calls. "
         "Which members overlap for which values is not decided.")
    _mt('C11',
        "Static order-preservation and first-success rules: normal form of the member pipeline, loop order and in-loop return dominance in "
        "all three member loops, provenance of the value offered to each member, plus the keying / purity rules that keep member order "
        "independent of history.",
        "normal-form comparison; CFG dominance in the member loops; provenance dataflow", "DESIGN.md section 13", STD)

    _reg('C12', [unions.rule_c12_r1, unions.rule_c12_r2, unions.rule_c12_r3, unions.rule_c12_r5, escape.rule_c04_r2, _tagged_pairs, _tagged_escape, extra.rule_annotation_flush_args, unions.rule_c12_r6, unions.rule_c12_r7],
         "Decides the structural clauses of C12: for each of the three layouts the writer's normal form (keys and values) equals what the two "
         "readers extract (tag and body), including the shape tests; exactly one variant is consulted, selected through the tag map, with no "
         "fallback loop; the tag-map store is dominated by the uniqueness test; Tagged refuses non-unions and passes the flattened members in "
         "order; an ill-formed tagged union is a TypeError; fast and diagnostic pass of the tagged converter agree (absent / unknown / "
         "ill-kinded tags are rejections in both).")
    _mt('C12',
        "Static three-way agreement of writer and readers per tagged layout by comparing normal forms of written keys / values with extracted "
        "tag / body, single tag-map-selected delegation, dominance of the uniqueness test, and pair agreement restricted to the tagged "
        "converter.",
        "sibling agreement on normal forms; CFG dominance", "DESIGN.md section 14", STD)

    _reg('C13', [conditions.rule_c13_r1, conditions.rule_c13_r2, conditions.rule_c13_r3, conditions.rule_c13_r4, conditions.rule_c13_r5,
                 extra.rule_annotation_flush_args, _cond_escape, classes_rules.rule_c17_r9],
         "Decides the structural clauses of C13: the predicate is applied to the converted value, under an Exception handler, and the accepted "
         "value is that value; serialisation ignores conditions; & | ~ all any are the Boolean connectives over every operand; the stock "
         "conditions, being one-expression lambdas, are compared operator by operator (boundaries inclusive) with the documented table and "
         "the pane.types aliases pair the right base type with the right condition; no buffered condition is dropped by the annotation "
         "processor; no predicate closure captures a loop variable. Arithmetic of user predicates and numpy broadcasting are not decided.")
    _mt('C13',
        "Static discipline and operator-table rules: provenance of the predicate's argument, handler coverage, combinator normal forms, "
        "syntactic operator table of the stock predicates (their syntax is their semantics) with guard dominance for optional bounds, "
        "must-pass-through of the condition flush, and a late-binding closure lint.",
        "provenance dataflow; operator-table comparison of lambda normal forms; must-pass-through on the CFG", "DESIGN.md section 15", STD)

    _reg('C14', [construction.rule_c14_r1, construction.rule_c14_r2, construction.rule_c14_r3, construction.rule_c14_r4, escape.rule_c04_r4,
                 extra.rule_unchecked_dict_complete, classes_rules.rule_c15_r4, construction.rule_c14_r7, construction.rule_c14_r8],
         "Decides the structural clauses of C14: wherever a default factory's product is stored it is called, inside the per-instance "
         "function; the generated constructor converts every bound argument to its field type under no condition other than the checked "
         "flag; the set-field record is filled only for supplied fields, is computed before defaults on the mapping path, is applied when "
         "given (is not None) and copied; __post_init__ runs on every exit; hook failures on data paths are guarded. Value equality of the "
         "construction paths is not decided.")
    _mt('C14',
        "Static sibling-agreement and dominance rules on the three construction paths: default-factory call discipline, control dependence "
        "of the per-argument conversion, dominance / ordering of the set-field record computation, is-not-None application of the record, "
        "must-pass-through of the __post_init__ block on every exit.",
        "control dependence; dominance / must-pass-through on the CFG; def-use discipline", "DESIGN.md section 16", STD)

    _reg('C15', [classes_rules.rule_c15_r1, classes_rules.rule_c15_r2, classes_rules.rule_c15_r3, agreement.rule_c05_r4, agreement.rule_c05_r5,
                 agreement.rule_c05_r6, classes_rules.rule_c17_r1, gates.rule_c02_r2, classes_rules.rule_c15_r4, _pane_pairs],
         "Decides the structural clauses of C15: the name map binds exactly the Python name and input names of init fields to the field index; "
         "every naming configuration derives consistent input / output names; every rename style has a joiner and every layout is handled; "
         "positional bounds count the positional init fields after the stable keyword-only partition; the decision table of the mapping and "
         "sequence paths (unknown key, allow_extra, duplicate, missing, layout enabled, length bounds, real sequence) appears identically in "
         "both passes (pair agreement) behind text-excluding kind gates; class options are inherited unless overridden.")
    _mt('C15',
        "Static table / decision-function rules shared with C05, C03 and C02, instantiated on the dataclass converter: name-map construction, "
        "64-configuration naming table, style and layout exhaustiveness, positional-bound counting conditions, stable partition, and "
        "pair agreement of the whole mapping / sequence decision table.",
        "decision-table extraction; sibling agreement; CFG dominance", "DESIGN.md section 17", STD)

    _reg('C16', [classes_rules.rule_c16_r1, classes_rules.rule_c16_r2, classes_rules.rule_c16_r3, classes_rules.rule_c16_r4,
                 classes_rules.rule_c16_r5, extra.rule_eq_own_origin, construction.rule_c14_r3],
         "Reflexivity, symmetry, transitivity and trichotomy over instances are value-level and not decided. Decided: the hash rule table "
         "equals the standard library's dataclass table cell by cell (exhaustive over the 16-cell option cube) and is indexed in the right "
         "order; every class option is accepted and forwarded; eq / order / hash / repr are computed from exactly the fields flagged for "
         "them (the hash from nothing else), with the right operator per rich comparison; frozen assignment is refused before the store and "
         "deletion always; copies are built from every field and own a copy of the record; replace goes through the checked constructor.",
         exhaustive=True)
    _mt('C16',
        "Static table-equality and normal-form rules: the 16-cell hash rule table is compared with the one parsed (by ast) from the "
        "interpreter's own dataclasses.py; option plumbing completeness; normal forms of the generated eq / order / hash / repr closures and "
        "the four rich-comparison operators; frozen / delete discipline; copy / replace construction. Algebraic laws over instances are not "
        "decided.",
        "table equality against the stdlib source; normal-form comparison of generated closures", "DESIGN.md section 18", STD)

    _reg('C17', [classes_rules.rule_c17_r1, classes_rules.rule_c17_r2, classes_rules.rule_c17_r3, classes_rules.rule_c17_r4,
                 classes_rules.rule_c15_r3, extra.rule_substitution_early_return, classes_rules.rule_c17_r6, forwarding.rule_spec_substitution_keeps_settings, classes_rules.rule_c17_r7, classes_rules.rule_c17_r8, classes_rules.rule_c17_r9, classes_rules.rule_c15_r4],
         "Most of C17 quantifies over class-hierarchy programs evaluated at class-creation time from runtime typing objects and is not "
         "statically decidable. Decided clauses: every option reaches the option record as None when unspecified (inherit unless overridden); "
         "type-variable substitution recurses into each form of the type grammar; field specs are merged over reversed(MRO) by in-place update "
         "and keyword-only fields are moved by a stable partition; subscripting zips the arguments with the free parameters of the class being "
         "subscripted. Not decided: __parameters__ bookkeeping for re-parameterised partially bound generics, signature strings.")
    _mt('C17',
        "Thin by nature (stated): static rules on option inheritance (None-when-unspecified dataflow for every forwarded option), coverage "
        "of the type grammar by the substitution function, order-preserving in-place merge of field specs, and the binding of subscript "
        "arguments to the subscripted class's own parameters.",
        "dataflow of option defaults; form-coverage check; write discipline on the merged spec table", "DESIGN.md section 19", STD)

    _reg('C18', [dispatch.rule_c18_r1_order, forwarding.rule_c18_r1b, forwarding.rule_c18_r2, forwarding.rule_c18_r3, forwarding.rule_c18_r4,
                 classes_rules.rule_c17_r1, memo.rule_c10_r3, extra.rule_into_data_keeps_handlers, forwarding.rule_spec_substitution_keeps_settings, forwarding.rule_union_writer_keeps_handlers, extra.rule_no_module_state],
         "Decides the structural clauses of C18: on the fall-through path of an ordinary class the dispatch landmarks occur in the documented "
         "order (call-level handlers, HasConverter, scalar tables, registered global handlers, structural arms); handler sets are merged "
         "call-level first, own class before enclosing, and a field's own converter wins; handlers are forwarded at every nested converter "
         "construction and custom= at every entry point, in both directions; both handler loops defer on NotImplemented / "
         "NotImplementedError and mapping handlers match the exact bare type; class handlers are inherited; the converter cache keys the "
         "handler set whole. Behaviour of user handlers is not decided.")
    _mt('C18',
        "Static precedence and reach rules: landmark order on the abstractly interpreted fall-through path of make_converter, normal form of "
        "the per-class handler merge, forwarding completeness of handlers (41 construction sites) and custom= (19 entry-point calls), "
        "sibling agreement of the two handler loops, whole-by-value keying of the handler set.",
        "abstract interpretation (landmark order); forwarding-completeness lint over resolved callees; sibling agreement", "DESIGN.md section 20", STD)

    _reg('C19', [forwarding.rule_c19_r1, forwarding.rule_c19_r2, forwarding.rule_c19_r3, extra.rule_dump_options_closed,
                 forwarding.rule_io_passes_documents_through, forwarding.rule_stream_untouched],
         "Text-level round trip through the JSON / YAML libraries is not decidable statically. Decided: every open_file call is a with-context; "
         "paths are opened with the utf-8 default and closed, caller streams are wrapped in nullcontext, a caller's text stream is never "
         "re-wrapped (which would close its buffer) and nothing is closed explicitly; every formatting option, the type and the handlers are "
         "forwarded under the same name through both layers; safe loader pairs with safe dumper; from_yaml_all keeps every document and "
         "converts List[ty].")
    _mt('C19',
        "Static ownership and forwarding rules: with-context use of open_file, branch conditions and returned context managers of open_file, "
        "no re-wrapping of a caller's text stream, option forwarding completeness through both layers, loader / dumper pairing, unfiltered "
        "document list. The text-level round trip through json / yaml is not decided.",
        "resource-ownership lint; CFG dominance in open_file; forwarding completeness", "DESIGN.md section 21", STD)

    _reg('C20', [rename.rule_c20_r1, rename.rule_c20_r2, rename.rule_c20_r3, rename.rule_c20_r4, rename.rule_c20_r5, classes_rules.rule_c15_r1],
         "Canonical spelling, injectivity, idempotence and snake-reversibility over ALL identifiers are statements about the algebra of "
         "str.lower / upper / title / isupper / istitle and two regular expressions; no static argument in reach decides them and this check "
         "does not claim them. Decided are the structural clauses, each a necessary condition of the property: (R1) rename_field returns "
         "JOINER[style](SPLIT(field)) for every style and the unchanged name only when no style is given, and the style table is exactly "
         "the documented style set; (R2) every joiner, evaluated over a symbolic word list (first word / any later word), is the canonical "
         "form stated in the property (separator, case of first word, case of later words); (R3) writer / reader agreement: every separator "
         "a joiner writes is split on, the separator pattern is one unrepeated non-alphanumeric character class (a doubled separator "
         "leaves an empty word), the case-boundary pattern covers exactly A-Z and is captured; (R4) an empty word raises ValueError before "
         "any word list is returned and rename_field does not catch it; (C15-R1) one renaming implementation. Not decided: the case-"
         "splitting heuristic of split_case (isupper / islower / istitle, pairing of the re.split result), i.e. whether the words "
         "recovered from camelCase / PascalCase input are the original ones.",
         assumptions=["on the property's words (alphabetic, at least two letters) str.capitalize == str.title and str.casefold == str.lower"],
         trusted=["the interpreter's own regular-expression parser (re._parser) for the structure of pattern constants"])
    _mt('C20',
        "Static structural rules on the renaming code: must-pass-through of rename_field (joiner applied to the split words for every style), "
        "symbolic evaluation of each style's joiner over a word list (first / later word) compared with the canonical spelling table of "
        "the property, writer/reader agreement of separators and of the capital-letter class via the parsed pattern constants, CFG "
        "dominance of every normal exit of the splitter by the passing edge of the empty-word test whose failing edge raises ValueError. "
        "The for-all algebra over identifiers (idempotence, injectivity, reversibility through the case-splitting heuristic) is NOT decided.",
        "symbolic evaluation of the joiner table; regex-AST agreement; CFG edge dominance", "DESIGN.md sections 22 and 33", STD)

    # ---- rules added after the fifth round of seeded changes (rules/round5.py); shared between the properties they are necessary for
    from .rules import round5
    from . import properties as _props

    def _extend(pid, rules):  # noqa: ANN001
        have = _props.PROPERTIES[pid]['rules']
        for rule in rules:
            if rule not in have:
                have.append(rule)

    _extend('C01', [round5.rule_annotation_scopes, round5.rule_classifier_domains, round5.rule_literal_same_kind])
    _extend('C02', [round5.rule_classifier_domains, round5.rule_eq_after_kind, round5.rule_literal_same_kind, construction.rule_c14_r2, purity.rule_c01_r3])
    _extend('C03', [round5.rule_record_before_hook, round5.rule_eq_after_kind, gates.rule_c09_r3, construction.rule_c14_r3, round5.rule_rejections_are_visible])
    _extend('C04', [gates.rule_c02_r1, round5.rule_eq_after_kind, round5.rule_descriptions_join_strings, round5.rule_handler_sets_are_tuples,
                    round5.rule_parallel_converters_unfiltered])
    _extend('C05', [round5.rule_parallel_converters_unfiltered, round5.rule_runtime_type_of_same_value, round5.rule_value_or_list_writer,
                    round5.rule_runtime_writer_only_for_any, forwarding.rule_c19_r2])
    _extend('C06', [round5.rule_runtime_type_of_same_value, dispatch.rule_c01_r1])
    _extend('C07', [forwarding.rule_io_passes_documents_through, classes_rules.rule_c15_r2, errors_rules.rule_inner_tree_passed_through, errors_rules.rule_children_not_overwritten])
    _extend('C08', [round5.rule_descriptions_join_strings, errors_rules.rule_c07_r5, errors_rules.rule_children_all_rendered, errors_rules.rule_children_not_overwritten])
    _extend('C10', [round5.rule_handler_sets_are_tuples, round5.rule_annotation_identity, round5.rule_keycache_forwards_everything])
    _extend('C11', [round5.rule_runtime_writer_only_for_any, agreement.rule_c06_r1])
    _extend('C12', [round5.rule_classifier_domains, forwarding.rule_c19_r2, errors_rules.rule_inner_tree_passed_through])
    _extend('C13', [round5.rule_annotation_identity, round5.rule_predicates_not_memoised])
    _extend('C14', [round5.rule_record_before_hook, _pane_pairs, agreement.rule_c06_r1, classes_rules.rule_c15_r3])
    _extend('C15', [round5.rule_parallel_converters_unfiltered, round5.rule_string_alias_is_one_name, rename.rule_c20_r3, rename.rule_c20_r4, round5.rule_layout_dispatch, round5.rule_style_guard_agrees])
    _extend('C16', [round5.rule_one_field_list, round5.rule_explicit_hash_before_eq])
    _extend('C17', [round5.rule_annotation_scopes, round5.rule_parameter_order, forwarding.rule_spec_substitution_keeps_settings, round5.rule_declarations_removed, round5.rule_layout_dispatch])
    _extend('C18', [round5.rule_handler_sets_are_tuples, round5.rule_keycache_forwards_everything, classes_rules.rule_c17_r1, round5.rule_field_settings_copied, round5.rule_any_keeps_handlers, agreement.rule_c05_r3])
    _extend('C19', [round5.rule_io_siblings_agree])
    _extend('C01', [conditions.rule_c13_r3, round5.rule_from_data_always_converts, classes_rules.rule_c15_r2])
    _extend('C02', [forwarding.rule_c18_r3, round5.rule_from_data_always_converts])
    _extend('C04', [errors_rules.rule_c08_r2])
    _extend('C06', [pairs.rule_c03_r1, forwarding.rule_union_writer_keeps_handlers])
    _extend('C07', [unions.rule_c11_r1])
    _extend('C08', [errors_rules.rule_c07_r1])
    _extend('C10', [round5.rule_annotation_scopes])
    _extend('C11', [mutation.rule_c09_r2, memo.rule_c10_r3, round5.rule_union_writer_selection])
    _extend('C13', [forwarding.rule_c18_r2])
    _extend('C16', [round5.rule_record_before_hook])
    _extend('C19', [agreement.rule_c05_r4])
    _extend('C05', [round5.rule_supplied_values_converted])
    _extend('C15', [round5.rule_supplied_values_converted])
    _extend('C08', [round5.rule_cause_not_truncated])
    _extend('C09', [round5.rule_no_namespace_adoption])
    _extend('C10', [round5.rule_no_state_on_class_via_instance])
    _extend('C12', [round5.rule_tag_tables_aligned])
    _extend('C11', [round5.rule_declared_type_reaches_converter])
    _extend('C11', [round5.rule_no_value_keyed_memo])
    _extend('C10', [round5.rule_no_value_keyed_memo])
    _extend('C13', [round5.rule_condition_makers_total])
    _extend('C13', [round5.rule_predicate_exception_carried])
    _extend('C14', [round5.rule_init_stores_raw])
    _extend('C17', [dispatch.rule_c01_r1])
    _extend('C17', [round5.rule_options_replaced_independently])
    _extend('C18', [round5.rule_handlers_see_dispatch_subject])
    _extend('C19', [round5.rule_format_options_only_forwarded])
    _extend('C20', [rename.rule_c20_r9])
    _extend('C17', [round5.rule_given_option_reaches_record])
    _extend('C20', [round5.rule_given_option_reaches_record])
    _extend('C19', [round5.rule_io_not_memoised])
    _extend('C04', [round5.rule_error_nodes_not_compared])
    # round 7: rules that are necessary conditions of a sibling property as well
    _extend('C01', [extra.rule_substitution_early_return])
    _extend('C02', [classes_rules.rule_c16_r5])
    _extend('C03', [errors_rules.rule_c07_r4])
    _extend('C05', [extra.rule_whole_value_delegation])
    _extend('C06', [round5.rule_value_or_list_writer, forwarding.rule_c18_r3])
    _extend('C12', [round5.rule_runtime_writer_only_for_any])
    _extend('C15', [rename.rule_c20_r1])
    _extend('C16', [round5.rule_field_settings_copied])
    _extend('C14', [round5.rule_field_keyword_receivers])
    _extend('C03', [round5.rule_field_keyword_receivers])
    _extend('C04', [round5.rule_callable_name_has_fallback])
    _extend('C13', [round5.rule_callable_name_has_fallback])
    _extend('C16', [round5.rule_record_holds_fields])
    _extend('C12', [round5.rule_internal_layout_writes_tag_key])
    _extend('C05', [round5.rule_internal_layout_writes_tag_key])
    _extend('C14', [round5.rule_constructor_uses_field_converters])
    _extend('C18', [round5.rule_constructor_uses_field_converters])
    _extend('C17', [round5.rule_bindings_scoped_to_base, round5.rule_parameters_from_all_bases])
    _extend('C01', [round5.rule_annotation_identity])
    # round 8
    for pid_ in ('C01', 'C03', 'C05', 'C19'):
        _extend(pid_, [round5.rule_conversion_result_used])
    for pid_ in ('C08', 'C04'):
        _extend(pid_, [round5.rule_no_printf_exception_args, round5.rule_errors_render_lazily])
    for pid_ in ('C10', 'C19'):
        _extend(pid_, [round5.rule_no_third_party_state])
    for pid_ in ('C14', 'C09'):
        _extend(pid_, [round5.rule_no_instance_dict_writes])
    for pid_ in ('C13', 'C12'):
        _extend(pid_, [round5.rule_tagged_variants_unchanged])
    for pid_ in ('C11', 'C13'):
        _extend(pid_, [round5.rule_condition_wraps_inner_as_given])
    for pid_ in ('C15', 'C14'):
        _extend(pid_, [round5.rule_field_forwards_arguments])
    _extend('C02', [round5.rule_field_settings_copied])
    for pid_ in ('C05', 'C19'):
        _extend(pid_, [round5.rule_scalar_rows_write_interchange])
    _extend('C13', [round5.rule_broadcast_fallback])
    _extend('C16', [round5.rule_explicit_hash_predicate, round5.rule_generated_methods_gated_on_own_namespace])
    _extend('C17', [round5.rule_declaring_class_is_last])
    for pid_ in ('C20', 'C15'):
        _extend(pid_, [round5.rule_make_field_gets_class_styles])
    for pid_ in ('C12', 'C04', 'C08'):
        _extend(pid_, [round5.rule_declared_values_not_sorted_raw])
    _extend('C08', [round5.rule_list_phrase_keeps_every_word])
    for pid_ in ('C10', 'C01', 'C19'):
        _extend(pid_, [round5.rule_converter_cache_keyed_by_identity])
    _extend('C11', [dispatch.rule_c18_r1_order])
    _extend('C17', [round5.rule_specialisation_cache_holds_class])
    # round 8: rules that are necessary conditions of a sibling property as well
    for pid_ in ('C01', 'C03', 'C04'):
        _extend(pid_, [construction.rule_c14_r2])           # the from-dict path is recognised by `is not None`
    for pid_ in ('C02', 'C07', 'C12'):
        _extend(pid_, [extra.rule_keycache_keepalive])                   # cache entries keep their arguments alive
    _extend('C02', [classes_rules.rule_c17_r7])
    _extend('C03', [gates.rule_c02_r1])
    for pid_ in ('C05', 'C14'):
        _extend(pid_, [classes_rules.rule_c15_r2, classes_rules.rule_c15_r4])
    _extend('C06', [unions.rule_c12_r1, round5.rule_supplied_values_converted])
    _extend('C11', [round5.rule_supplied_values_converted])
    _extend('C07', [round5.rule_one_field_list])
    _extend('C09', [classes_rules.rule_c16_r5])
    _extend('C20', [agreement.rule_c05_r4])
    _extend('C08', [round5.rule_callable_name_has_fallback])
    _extend('C14', [round5.rule_non_init_factories_run])
    _extend('C16', [round5.rule_specialisations_inherit_dunders, round5.rule_eq_reads_root_origin])
    _extend('C17', [round5.rule_none_argument_is_nonetype])
    for pid_ in ('C04', 'C13', 'C18'):
        _extend(pid_, [round5.rule_numpy_free_twin])
    # round 9
    for pid_ in ('C10', 'C08'):
        _extend(pid_, [round5.rule_no_mutable_defaults])
    _extend('C08', [round5.rule_text_not_from_sets])
    _extend('C10', [round5.rule_locks_released_on_all_paths])
    for pid_ in ('C15', 'C14'):
        _extend(pid_, [round5.rule_in_names_is_a_tuple])
    _extend('C18', [round5.rule_no_handlers_means_none, round5.rule_enum_writer_converts_value])
    _extend('C05', [round5.rule_enum_writer_converts_value])
    _extend('C19', [round5.rule_lazy_documents_read_inside_with])
    for pid_ in ('C17', 'C01', 'C14'):
        _extend(pid_, [round5.rule_default_lookup_through_mro])
    for pid_ in ('C17', 'C02'):
        _extend(pid_, [round5.rule_spec_substitution_unconditional])
    for pid_ in ('C05', 'C14', 'C06'):
        _extend(pid_, [round5.rule_top_level_scalar_bypass])
    _extend('C11', [round5.rule_value_or_list_records_member])
    _extend('C02', [round5.rule_array_element_type_as_declared])
    # round 9: rules that are necessary conditions of a sibling property as well
    _extend('C03', [purity.rule_c01_r2])
    _extend('C04', [round5.rule_no_instance_dict_writes])
    for pid_ in ('C05',):
        _extend(pid_, [extra.rule_keycache_keepalive])
    _extend('C06', [escape.rule_c04_r1, classes_rules.rule_c17_r7])
    _extend('C07', [round5.rule_converter_cache_keyed_by_identity])
    _extend('C09', [unions.rule_c12_r1, conditions.rule_c13_r3])
    _extend('C10', [conditions.rule_c13_r2])
    _extend('C11', [round5.rule_eq_after_kind, agreement.rule_c05_r7])
    _extend('C13', [construction.rule_c14_r2])
    _extend('C17', [unions.rule_c11_r1])
    _extend('C18', [classes_rules.rule_c15_r4])
    _extend('C19', [agreement.rule_c05_r7])
    _extend('C20', [classes_rules.rule_c17_r1])
    _extend('C10', [unions.rule_c12_r5])
    _extend('C15', [classes_rules.rule_c17_r6])
    _extend('C20', [rename.rule_c20_r6, rename.rule_c20_r7, round5.rule_style_guard_agrees])
    # round 10: rules that are necessary conditions of a sibling property as well
    for pid_ in ('C01', 'C05'):
        _extend(pid_, [round5.rule_value_or_list_records_member])      # which member matched is recorded, not re-derived from the value
    _extend('C01', [gates.rule_c02_r2])
    _extend('C09', [gates.rule_c02_r2])
    for pid_ in ('C04', 'C08', 'C13'):
        _extend(pid_, [forwarding.rule_c19_r2])
    for pid_ in ('C04', 'C08', 'C11'):
        _extend(pid_, [forwarding.rule_c19_r3])
    for pid_ in ('C11', 'C12', 'C15'):
        _extend(pid_, [forwarding.rule_io_passes_documents_through])
    _extend('C05', [extra.rule_dump_options_closed, round5.rule_format_options_only_forwarded])
    _extend('C07', [forwarding.rule_c18_r2])
    _extend('C11', [round5.rule_conversion_result_used, gates.rule_c09_r3])
    _extend('C12', [forwarding.rule_c18_r3])
    _extend('C13', [extra.rule_keycache_keepalive])
    _extend('C14', [round5.rule_converter_cache_keyed_by_identity, classes_rules.rule_c16_r5])
    for pid_ in ('C17', 'C18'):
        _extend(pid_, [construction.rule_c14_r2])
    _extend('C17', [round5.rule_field_settings_copied])
    _extend('C18', [round5.rule_array_element_type_as_declared])
    _extend('C19', [round5.rule_value_or_list_writer])
    _extend('C20', [round5.rule_in_names_is_a_tuple])
    # round 10: new rules
    from .rules import round10
    for pid_ in ('C01', 'C06'):
        _extend(pid_, [round10.rule_array_constructor_infers_dtype])
    for pid_ in ('C03', 'C04', 'C08', 'C10'):
        _extend(pid_, [round10.rule_error_nodes_are_plain_records])
    for pid_ in ('C14', 'C03'):
        _extend(pid_, [round10.rule_init_binds_given_keywords])
    _extend('C04', [round10.rule_dtype_catchall_by_identity])
    for pid_ in ('C19', 'C05'):
        _extend(pid_, [round10.rule_dtype_rows_accept_zero])
    for pid_ in ('C05', 'C02'):
        _extend(pid_, [round10.rule_type_union_keeps_members])
    _extend('C08', [round10.rule_renderers_do_not_compare_values])
    for pid_ in ('C12', 'C13', 'C17'):
        _extend(pid_, [round10.rule_type_hints_keep_extras])
    for pid_ in ('C15', 'C02', 'C05'):
        _extend(pid_, [round10.rule_no_container_registration])
    _extend('C16', [round10.rule_own_dataclasses_use_generated_comparisons])
    for pid_ in ('C17', 'C18'):
        _extend(pid_, [round10.rule_substitution_resubscripts])
    for pid_ in ('C20', 'C15'):
        _extend(pid_, [round10.rule_names_compared_exactly])
    _extend('C15', [unions.rule_c11_r2])
    _extend('C08', [round10.rule_unexpected_keys_only_formatted])
    for pid_ in ('C05', 'C16', 'C19'):
        _extend(pid_, [round10.rule_filled_fields_accepted_back])
    _extend('C06', [round10.rule_path_built_by_its_class])
