"""./check <ID> [--tier quick|thorough] [--repo PATH] [--replay FILE]

Exit codes: 0 property held on everything analysed (known findings are reported as KNOWN-FINDING lines);
            1 + ``VIOLATION property=<id> replay=<path>`` for a finding not listed in known_findings.json;
            2 + ``ANALYSIS-ERROR`` when an anchor vanished, an instance floor was missed or the checker failed.
"""
from __future__ import annotations

import argparse
import json
import os
import sys
import time
import traceback
import typing as t

from . import report
from .model import AnalysisError, Model
from .report import RuleResult


def run_property(prop: str, tier: str, repo: str, replay: t.Optional[str] = None, quiet: bool = False,
                 write: bool = True, overrides: t.Optional[t.Dict[str, str]] = None) -> int:
    from .properties import PROPERTIES
    t0 = time.time()
    seed = int(os.environ.get('VERIF_SEED', '0') or 0)
    out = (lambda *a: None) if quiet else (lambda *a: print(*a, flush=True))
    if prop not in PROPERTIES:
        out(f"ANALYSIS-ERROR property={prop} unknown or not claimed (see MANIFEST.json not_applicable)")
        return 2
    spec = PROPERTIES[prop]
    try:
        model = Model(repo, overrides)
        results: t.List[RuleResult] = []
        only: t.Optional[t.Set[str]] = None
        if replay:
            with open(replay, encoding='utf-8') as f:
                only = {x['rule'] for x in json.load(f).get('findings', [])}
        rule_errors: t.List[str] = []
        for rule in spec['rules']:
            try:
                rr = rule(model)
            except AnalysisError as e:
                # an undecided rule never hides a violation found by another rule of the same property
                rule_errors.append(f"{getattr(rule, '__name__', 'rule')}: {e}")
                continue
            if only is not None and rr.rule not in only:
                continue
            results.append(rr)
        extra: t.Dict[str, t.Any] = {}
        if tier == 'thorough' and not replay:
            from .selftest import run_selftest
            extra['selftest'] = run_selftest(prop, repo, out)
    except AnalysisError as e:
        out(f"ANALYSIS-ERROR property={prop} {e}")
        return 2
    except Exception as e:  # checker bug: never reported as a violation
        out(f"ANALYSIS-ERROR property={prop} internal error {type(e).__name__}: {e}")
        if not quiet:
            traceback.print_exc()
        return 2

    known = report.load_known()
    known_keys = {k['key']: k for k in known.get('known', []) if k.get('property') == prop}
    violations = []
    known_hits = []
    floor_errors = []
    for rr in results:
        out(f"[{rr.rule}] {rr.title}: instances={rr.instances} obligations={rr.obligations} "
            f"discharged={rr.discharged} findings={len(rr.findings)}")
        for nt in rr.notes:
            out(f"    note: {nt}")
        if rr.instances < rr.floor:
            floor_errors.append(f"{rr.rule}: matched {rr.instances} instances, below the confirmed floor {rr.floor}")
        for f in rr.findings:
            if f.key in known_keys:
                known_hits.append(f.key)
                out(f"KNOWN-FINDING: property={prop} {known_keys[f.key].get('what', f.message)} [{f.key}] at {f.loc}")
            else:
                violations.append(f)
                out(f"  FINDING {f}")
    rc = 0
    replay_path = ''
    floor_errors = rule_errors + floor_errors
    if violations:
        for fe in floor_errors:
            out(f"    undecided: {fe}")
        rc = 1
        if write:
            os.makedirs(os.path.join(report.EVIDENCE_DIR, 'replay'), exist_ok=True)
            replay_path = os.path.join(report.EVIDENCE_DIR, 'replay', f'{prop}.json')
            with open(replay_path, 'w', encoding='utf-8') as f:
                json.dump({'property': prop, 'repo': repo, 'findings': [v.to_json() for v in violations]}, f, indent=1)
        out(f"VIOLATION property={prop} replay={replay_path or '-'}")
    elif floor_errors:
        for fe in floor_errors:
            out(f"ANALYSIS-ERROR property={prop} {fe}")
        rc = 2
    if tier == 'thorough' and rc == 0 and os.environ.get('VERIF_SELFTEST_STRICT') == '1':
        st = extra.get('selftest', {})
        if st.get('missed') or st.get('false_alarms'):
            out(f"ANALYSIS-ERROR property={prop} self-test: missed={st.get('missed')} false_alarms={st.get('false_alarms')}")
            rc = 2
    if write and not replay:
        meta = dict(spec['meta'])
        meta['checker_cmd'] = f"./check {prop} --tier {tier}"
        path = report.write_evidence(prop, tier, seed, results, meta, time.time() - t0, len(violations), known_hits, extra)
        out(f"evidence: {path}")
    if rc == 0:
        out(f"OK property={prop} tier={tier} rules={len(results)} obligations={sum(r.obligations for r in results)}")
    return rc


def main(argv: t.Optional[t.Sequence[str]] = None) -> int:
    ap = argparse.ArgumentParser(prog='check')
    ap.add_argument('property')
    ap.add_argument('--tier', default=os.environ.get('VERIF_TIER') or 'quick', choices=['quick', 'thorough'])
    ap.add_argument('--repo', default=os.environ.get('PANE_SA_REPO', '/repo'))
    ap.add_argument('--replay', default=None)
    ap.add_argument('--no-write', action='store_true')
    a = ap.parse_args(argv)
    if a.property == 'all':
        from .properties import PROPERTIES
        rc = 0
        for p in sorted(PROPERTIES):
            rc = max(rc, run_property(p, a.tier, a.repo, write=not a.no_write))
        return rc
    return run_property(a.property, a.tier, a.repo, a.replay, write=not a.no_write)


if __name__ == '__main__':
    try:
        sys.exit(main())
    except SystemExit:
        raise
    except BaseException as e:  # pragma: no cover
        print(f"ANALYSIS-ERROR internal {type(e).__name__}: {e}")
        sys.exit(2)
