"""C07 (error trees localise failures) and C08 (rendering is total, deterministic and complete) — DESIGN §9, §10."""
from __future__ import annotations

import ast
import re
import typing as t

from ..cfg import CFG, Node, cfg_of, handler_classes, node_exprs, walk_no_nested
from ..family import CONVERT_ERROR, CONVERTER, PI, conversion_zone, family, find_subcalls, is_subconv_form, subconv_attrs, walk_with_bindings
from ..model import AnalysisError, ClassInfo, FuncInfo, Model, unparse
from ..norm import Normalizer
from ..report import RuleResult
from .pairs import Accumulators, error_node_classes

ERRMOD = 'pane.errors'


def error_fields(model: Model, cls_q: str) -> t.List[str]:
    ci = model.cls(cls_q)
    return [st.target.id for st in ci.node.body if isinstance(st, ast.AnnAssign) and isinstance(st.target, ast.Name)]


def ctor_arg(model: Model, call: ast.Call, cls_q: str, field: str) -> t.Optional[ast.expr]:
    fields = error_fields(model, cls_q)
    if field not in fields:
        return None
    i = fields.index(field)
    if len(call.args) > i and not any(isinstance(a, ast.Starred) for a in call.args[:i + 1]):
        return call.args[i]
    for k in call.keywords:
        if k.arg == field:
            return k.value
    return None


def collect_functions(model: Model, cls: ClassInfo) -> t.List[FuncInfo]:
    from ..family import helper_closure
    return [f for f in helper_closure(model, cls, 'collect_errors')
            if f.cls is not None and f.cls.qualname != CONVERTER and isinstance(f.node, ast.FunctionDef)
            and not f.name.startswith('expected') and f.name not in ('tag_expected', 'obj_expected', 'into_data')]


def error_ctor_calls(model: Model, f: FuncInfo) -> t.List[t.Tuple[Node, ast.Call, str]]:
    errs = error_node_classes(model)
    cfg = cfg_of(model, f)
    out = []
    for n in cfg.live_nodes():
        for root in node_exprs(n):
            for sub in walk_no_nested(root):
                if isinstance(sub, ast.Call):
                    q = model.resolve(sub.func, f.module, f)
                    if q in errs:
                        out.append((n, sub, q))
    return out


# ---------------------------------------------------------------------------- C07


KEY_FORMS = re.compile(r'^(KEY\(VAL\)|INDEX\((?:.*[(, ])?VAL(?:[), ].*)?\))$')      # a key of the input, or a position *in the input*


def rule_c07_r1(model: Model) -> RuleResult:
    r = RuleResult('C07-R1', 'children of a product error node are keyed by the offending key / position and hold that element\'s own tree', floor=7)
    for cls in family(model):
        attrs = subconv_attrs(model, cls)
        for f in collect_functions(model, cls):
            cfg = cfg_of(model, f)
            acc = Accumulators(model, f, cfg)
            nz = Normalizer(model, f, cfg)
            # accumulators handed to ProductErrorNode as children
            child_accs: t.Set[str] = set()
            for (n, call, q) in error_ctor_calls(model, f):
                if q == f'{ERRMOD}.ProductErrorNode':
                    a = ctor_arg(model, call, q, 'children')
                    if isinstance(a, ast.Name) and a.id in acc.names:
                        child_accs.add(a.id)
            for nm in sorted(child_accs):
                for (fn, st, key, val) in acc.fills.get(nm, []):
                    r.instances += 1
                    r.analysed.add(f.qualname)
                    kform = nz.expr(key, fn) if key is not None else '#'
                    vform = nz.expr(val, fn) if val is not None else '?'
                    r.sample({'function': f.qualname, 'key': kform, 'child': vform[:100]})
                    if not KEY_FORMS.match(kform):
                        r.fail(f.qualname, f"{nm}[{kform}] = ...", f.loc(st),
                               "the child is not keyed by the key / position of the offending element in the input")
                        continue
                    # the child must be the element's own tree
                    elem_ok = None
                    if vform == 'EXC.tree':
                        # handler of `except ConvertError as e` around <subconv>.convert(elem)
                        elem_ok = False
                        for tr in fn.tries[::-1] if fn.tries else []:
                            pass
                        hs = [h for h in fn.handler_of]
                        for h in hs[::-1]:
                            hc = handler_classes(model, f, h)
                            if hc and CONVERT_ERROR in hc:
                                tr = getattr(h, '_parent', None)
                                if isinstance(tr, ast.Try):
                                    for s2 in tr.body:
                                        for c in ast.walk(s2):
                                            if isinstance(c, ast.Call) and isinstance(c.func, ast.Attribute) and c.func.attr == 'convert' and c.args:
                                                n2 = cfg.node_of(c)
                                                if n2 is not None and is_subconv_form(nz.expr(c.func.value, n2), attrs):
                                                    elem_ok = _elem_matches(kform, nz.expr(c.args[0], n2))
                    elif '.collect_errors(' in vform or '_collect_errors(' in vform:
                        m = re.search(r'collect_errors\((.*)\)$', vform)
                        arg = m.group(1) if m else ''
                        elem_ok = _elem_matches(kform, arg)
                    elif vform.startswith('pane.errors.DuplicateKeyError('):
                        elem_ok = True
                    if elem_ok is None:
                        r.fail(f.qualname, f"{nm}[{kform}] = {vform[:80]}", f.loc(st),
                               "the child is not the error tree reported by the element's own converter (it is re-wrapped or built ad hoc)")
                    elif not elem_ok:
                        r.fail(f.qualname, f"{nm}[{kform}] = {vform[:80]}", f.loc(st),
                               "the child stored under this key is the tree of a different element")
                    else:
                        r.ok()
    return r


def _elem_matches(kform: str, arg: str) -> bool:
    if kform in ('KEY(VAL)', 'str(KEY(VAL))'):
        return arg in ('VALUE(VAL)', 'KEY(VAL)')
    if kform.startswith('INDEX('):
        return arg == 'ELEM(VAL)'
    return False


def rule_c07_r3(model: Model) -> RuleResult:
    r = RuleResult('C07-R3', 'a union error has exactly one child per failing member, in declaration order', floor=1)
    f = model.func('pane.converters.UnionConverter.collect_errors')
    cfg = cfg_of(model, f)
    nz = Normalizer(model, f, cfg)
    r.analysed.add(f.qualname)
    loops = [n for n in cfg.live_nodes() if n.kind == 'iter']
    member_loops = [n for n in loops if 'self.converters' in nz.expr(n.ast.iter, n)]   # type: ignore[attr-defined]
    if len(member_loops) != 1:
        raise AnalysisError(f"{f.loc()}: expected exactly one loop over self.converters in UnionConverter.collect_errors, found {len(member_loops)}")
    lp = member_loops[0]
    r.instances += 1
    it_src = unparse(lp.ast.iter)  # type: ignore[attr-defined]
    if re.search(r'\b(sorted|reversed|set|frozenset)\(', it_src) or nz.iter_elem(lp.ast.iter, (1,), lp, {}, 0) not in ('ELEM(self.converters)',) \
            and nz.iter_elem(lp.ast.iter, (), lp, {}, 0) != 'ELEM(self.converters)':  # type: ignore[attr-defined]
        r.fail(f.qualname, f"for ... in {it_src}", f.loc(lp.ast), "members are not visited in declaration order")
    else:
        r.ok()
    # every path through the body back to the loop head appends exactly once; early exits return None
    appends = set()
    for n in cfg.live_nodes():
        if lp.ast in n.loop_of:
            for root in node_exprs(n):
                for sub in walk_no_nested(root):
                    if isinstance(sub, ast.Call) and isinstance(sub.func, ast.Attribute) and sub.func.attr == 'append':
                        appends.add(n.id)
    counts: t.Set[int] = set()
    bad_exit: t.List[Node] = []

    def dfs(n: Node, cnt: int, seen: t.FrozenSet[int]) -> None:
        if n is lp:
            counts.add(cnt)
            return
        if n.id in seen:
            return
        if n.kind == 'return':
            v = n.ast.value if n.ast is not None else None
            if not (v is None or (isinstance(v, ast.Constant) and v.value is None)):
                bad_exit.append(n)
            return
        if n.kind in ('exit', 'raise_exit', 'raise'):
            if n.kind == 'raise':
                bad_exit.append(n)
            return
        c2 = cnt + (1 if n.id in appends else 0)
        for (lb, m) in n.succ:
            dfs(m, c2, seen | {n.id})
    for m in lp.edge('T'):
        dfs(m, 0, frozenset())
    r.instances += 1
    r.sample({'appends_per_iteration': sorted(counts)})
    if counts == {1}:
        r.ok()
    else:
        r.fail(f.qualname, f"appends per failing member: {sorted(counts)}", f.loc(lp.ast),
               "some path through the member loop records no child (or several) for a member that did not accept")
    if bad_exit:
        r.fail(f.qualname, 'early exit', f.loc(bad_exit[0].ast), "the member loop is left early with something other than `return None` (success)")
    else:
        r.ok()
    # the node returned after the loop is SumErrorNode(<that list>)
    rets = [n for n in cfg.live_nodes() if n.kind == 'return' and n.ast is not None and n.ast.value is not None
            and not (isinstance(n.ast.value, ast.Constant) and n.ast.value.value is None)]
    r.instances += 1
    if len(rets) == 1 and isinstance(rets[0].ast.value, ast.Call) and model.resolve(rets[0].ast.value.func, f.module, f) == f'{ERRMOD}.SumErrorNode':
        r.ok()
    else:
        r.fail(f.qualname, 'final return', f.loc(), "the union's diagnostic does not end in SumErrorNode(children)")
    return r


def rule_c07_r4(model: Model) -> RuleResult:
    r = RuleResult('C07-R4', "'extra' holds exactly the unknown keys and 'missing' exactly the absent required fields", floor=4)
    for cls in family(model):
        for f in collect_functions(model, cls):
            cfg = cfg_of(model, f)
            acc = Accumulators(model, f, cfg)
            base_nz = Normalizer(model, f, cfg)
            nz = Normalizer(model, f, cfg, name_hook=lambda nm, node: acc.descriptor(nm, base_nz) if nm in acc.names else None)
            for (n, call, q) in error_ctor_calls(model, f):
                if q != f'{ERRMOD}.ProductErrorNode':
                    continue
                for fld in ('extra', 'missing'):
                    a = ctor_arg(model, call, q, fld)
                    if a is None:
                        continue
                    r.instances += 1
                    r.analysed.add(f.qualname)
                    if isinstance(a, ast.Name) and a.id in acc.names:
                        fills = acc.fills.get(a.id, [])
                        if not fills:
                            r.fail(f.qualname, f"{fld} never filled", f.loc(call), f"'{fld}' is reported but never computed")
                            continue
                        allok = True
                        for (fn, st, key, val) in fills:
                            kform = nz.expr(key, fn) if key is not None else '#'
                            lits = _dominating_literals(cfg, nz, fn)
                            r.sample({'function': f.qualname, fld: kform, 'under': sorted(lits)[:6]})
                            if fld == 'extra':
                                good = kform == 'KEY(VAL)' and any(re.match(r'^not KEY\(VAL\) in self\.\w+$', x) for x in lits)
                                msg = "'extra' must collect exactly the keys of the input that name no field"
                            else:
                                good = kform.endswith('.name') and 'VAL' not in kform and any(re.match(r'^not .*\.name in ACC', x) or ' in ' in x and x.startswith('not ') for x in lits)
                                msg = "'missing' must collect exactly the required fields that no key of the input supplied"
                            if not good:
                                allok = False
                                r.fail(f.qualname, f"{fld}.add({kform}) under {sorted(lits)[:4]}", f.loc(st), msg)
                        if allok:
                            r.ok()
                    else:
                        form = nz.expr(a, n)
                        r.sample({'function': f.qualname, fld: form})
                        if fld == 'missing' and re.search(r'set\(self\.\w+\.keys\(\)\) Sub set\(VAL\.keys\(\)\)', form):
                            r.ok()
                        elif fld == 'missing' and re.match(r'^(SET|LIST)\(ELEM\(self\.fields\)\.name if ', form) \
                                and 'not ELEM(self.fields).name in ACC' in form and 'default' in form:
                            r.ok()      # comprehension over the field table: required, not seen, no default
                        elif fld == 'extra' and re.search(r'set\(VAL\.keys\(\)\) Sub set\(self\.\w+\.keys\(\)\)', form):
                            r.ok()
                        else:
                            r.fail(f.qualname, f"{fld} = {form[:100]}", f.loc(call), f"'{fld}' is not derived from the keys of the input and the field table")
    return r


def _dominating_literals(cfg: CFG, nz: Normalizer, n: Node) -> t.Set[str]:
    out: t.Set[str] = set()
    for a in cfg.nodes:
        if a.kind != 'cond':
            continue
        for lb in ('T', 'F'):
            if a.edge(lb) and cfg.edge_dominates(a, lb, n):
                text, pos = nz.literal(a.ast, a)
                out.add(('' if pos == (lb == 'T') else 'not ') + text)
    return out


RAW_ACTUAL = re.compile(r'^(VAL|PHI\((VAL|VAL\.pattern|KEY\(VAL\)|VALUE\(VAL\)|VAL\.pop\(self\.tag\)|VAL\[[^\]]*\]|LOOP\(\w+\))(\|(VAL|VAL\.pattern|KEY\(VAL\)|VALUE\(VAL\)|VAL\.pop\(self\.tag\)|VAL\[[^\]]*\]|LOOP\(\w+\)))*\)|KEY\(VAL\)|VALUE\(VAL\)|ELEM\(VAL\))$')


def rule_c07_r5(model: Model) -> RuleResult:
    r = RuleResult('C07-R5', 'every error leaf records the offending sub-value itself, not a converted value', floor=25)
    for cls in family(model):
        for f in collect_functions(model, cls):
            cfg = cfg_of(model, f)
            nz = Normalizer(model, f, cfg)
            for (n, call, q) in error_ctor_calls(model, f):
                a = ctor_arg(model, call, q, 'actual')
                if a is None:
                    continue
                r.instances += 1
                r.analysed.add(f.qualname)
                form = nz.expr(a, n)
                r.sample({'function': f.qualname, 'node': q.split('.')[-1], 'actual': form[:100]})
                if '.try_convert(' in form or '.convert(' in form or '_try_convert(' in form:
                    r.fail(f.qualname, f"{q.split('.')[-1]}(actual={form[:90]})", f.loc(call),
                           "the leaf shows a value produced by a sub-converter instead of the value received (input 7 reported as 7.0)")
                elif RAW_ACTUAL.match(form):
                    r.ok()
                else:
                    r.fail(f.qualname, f"{q.split('.')[-1]}(actual={form[:90]})", f.loc(call),
                           "the 'actual' of the leaf is not a projection of the input value")
    return r


# ---------------------------------------------------------------------------- C08


SET_ANN = re.compile(r'^(t\.)?(AbstractSet|Set|FrozenSet|MutableSet)\b')


def rule_c08_r1(model: Model) -> RuleResult:
    r = RuleResult('C08-R1', 'every field of every error node is used by its renderer; every node class has a renderer', floor=6)
    for q in sorted(error_node_classes(model)):
        if q == f'{ERRMOD}.ErrorNode':
            continue
        ci = model.cls(q)
        r.instances += 1
        pe = ci.methods.get('print_error')
        if pe is None:
            r.fail(q, 'no print_error', f"{ci.module.relpath}:{ci.node.lineno}", "error node class has no renderer of its own")
            continue
        r.analysed.add(pe.qualname)
        # attributes read by the renderer and by the methods of the class it calls on self (on self or on a node derived from it)
        closure = [pe]
        for g in closure:
            for c in ast.walk(g.node):
                if isinstance(c, ast.Call) and isinstance(c.func, ast.Attribute) and isinstance(c.func.value, ast.Name) \
                        and g.params and c.func.value.id == g.params[0]:
                    h = model.find_method(q, c.func.attr)
                    if h is not None and h not in closure and h.cls is not None and h.cls.qualname in error_node_classes(model):
                        closure.append(h)
                # private functions of the module the node itself is handed to (`_fuse(self)`, `_format(self.cause)`)
                if isinstance(c, ast.Call) and g.params and any(isinstance(x, ast.Name) and x.id == g.params[0] for a_ in c.args for x in ast.walk(a_)):
                    hq = model.resolve(c.func, g.module, g if isinstance(g.node, ast.FunctionDef) else None)
                    h2 = model.functions.get(hq or '')
                    if h2 is not None and h2 not in closure and h2.module is g.module and isinstance(h2.node, ast.FunctionDef):
                        closure.append(h2)
        used = {s.attr for g in closure for s in ast.walk(g.node) if isinstance(s, ast.Attribute) and isinstance(s.ctx, ast.Load)}
        fields = error_fields(model, q)
        miss = [x for x in fields if x not in used]
        r.sample({'node': ci.name, 'fields': fields, 'unused': miss})
        if miss:
            r.fail(q, f"print_error ignores {miss}", pe.loc(), f"the rendered message leaves out {', '.join(miss)}")
        else:
            r.ok()
    return r


def _total_sort_key(model: Model, f: FuncInfo, call: ast.Call) -> bool:
    """sorted(<set>, key=...) with a key that is injective on the names: none, str, repr, or a tuple ending in one of them."""
    kw = {k.arg: k.value for k in call.keywords if k.arg}
    if 'reverse' in kw and set(kw) == {'reverse'}:
        return True
    key = kw.get('key')
    if key is None:
        return True

    def total(e: ast.AST, param: t.Optional[str]) -> bool:
        if isinstance(e, ast.Name) and e.id in ('str', 'repr') and param is None:
            return True
        if param is not None:
            if isinstance(e, ast.Name) and e.id == param:
                return True
            if isinstance(e, ast.Call) and isinstance(e.func, ast.Name) and e.func.id in ('str', 'repr') and len(e.args) == 1 \
                    and isinstance(e.args[0], ast.Name) and e.args[0].id == param:
                return True
            if isinstance(e, ast.Tuple) and e.elts:
                return total(e.elts[-1], param)
        return False
    if total(key, None):
        return True
    if isinstance(key, ast.Lambda) and len(key.args.args) == 1:
        return total(key.body, key.args.args[0].arg)
    q = model.resolve(key, f.module, f)
    g = model.functions.get(q or '')
    if g is not None and isinstance(g.node, ast.FunctionDef) and len(g.params) == 1:
        rets = [x for x in ast.walk(g.node) if isinstance(x, ast.Return) and x.value is not None]
        return bool(rets) and all(total(x.value, g.params[0]) for x in rets)
    return False


def rule_c08_r2(model: Model) -> RuleResult:
    r = RuleResult('C08-R2', 'renderers iterate sets only through sorted(): the text does not depend on the hash seed', floor=2)
    for q in sorted(error_node_classes(model)):
        ci = model.cls(q)
        setfields = {nm for nm, ann in ci.attr_annotations.items() if SET_ANN.match(unparse(ann))}
        if not setfields:
            continue
        for f in ci.methods.values():
            for st in ast.walk(f.node):
                if isinstance(st, ast.For):
                    it = st.iter
                    direct = isinstance(it, ast.Attribute) and it.attr in setfields
                    if direct or (isinstance(it, ast.Call) and isinstance(it.func, ast.Name) and it.func.id == 'sorted' and it.args
                                  and isinstance(it.args[0], ast.Attribute) and it.args[0].attr in setfields):
                        r.instances += 1
                        r.analysed.add(f.qualname)
                        r.sample({'function': f.qualname, 'loop': unparse(it)})
                        if direct:
                            r.fail(f.qualname, f"for ... in {unparse(it)}", f.loc(st),
                                   "a set-valued field is rendered in iteration order: the message changes with PYTHONHASHSEED")
                        elif not _total_sort_key(model, f, it):
                            r.fail(f.qualname, f"for ... in {unparse(it)[:80]}", f.loc(st),
                                   "the sort key does not tell all names apart (e.g. it folds case): names with equal keys keep the set's "
                                   "iteration order, so the message changes with PYTHONHASHSEED")
                        else:
                            r.ok()
    return r


def rule_c08_r3(model: Model) -> RuleResult:
    r = RuleResult('C08-R3', 'a failure caused by an exception carries that exception into the error node', floor=10)
    for cls in family(model):
        for f in collect_functions(model, cls):
            cfg = cfg_of(model, f)
            nz = Normalizer(model, f, cfg)
            for n in cfg.live_nodes():
                if n.kind != 'handler':
                    continue
                hc = handler_classes(model, f, n.ast)  # type: ignore[arg-type]
                if not hc or all(c in (PI, CONVERT_ERROR) for c in hc):
                    continue
                if all(c in ('builtins.KeyError', 'builtins.TypeError', 'builtins.IndexError') for c in hc):
                    continue     # a table miss (unknown tag / enum value) is the failure itself, not an underlying cause
                h: ast.ExceptHandler = n.ast  # type: ignore[assignment]
                r.instances += 1
                r.analysed.add(f.qualname)
                errs = error_node_classes(model)
                # error-node constructions in the handler, directly or through a helper the normaliser inlines
                calls = [s for st in h.body for s in ast.walk(st) if isinstance(s, ast.Call)]
                ok = False
                for c in calls:
                    rn = cfg.node_of(c)
                    if rn is None:
                        continue
                    direct = model.resolve(c.func, f.module, f) in errs
                    form = nz.expr(c, rn)
                    if not direct and not any(form.startswith(e + '(') or ('(' + e + '(') in form or ('|' + e + '(') in form for e in errs):
                        continue
                    if 'traceback.TracebackException(type(EXC), EXC' in form or 'EXC.args' in form:
                        ok = True
                r.sample({'function': f.qualname, 'handler': [c.split('.')[-1] for c in hc], 'carries_cause': ok})
                if ok:
                    r.ok()
                else:
                    r.fail(f.qualname, f"except {[c.split('.')[-1] for c in hc]}", f.loc(h),
                           "the handler turns an exception into an error node without attaching the exception: the message loses the cause")
    # every `cause=` handed to a node is a TracebackException (the renderer calls .format() on it)
    return r


def render_closure(model: Model, f: FuncInfo) -> t.List[FuncInfo]:
    """A renderer together with the private methods of its class (called on self or on a node of the same class) and the private
    module-level functions it calls: a renderer split into helpers is judged as a whole."""
    out = [f]
    for g in out:
        for c in ast.walk(g.node):
            if not isinstance(c, ast.Call):
                continue
            h: t.Optional[FuncInfo] = None
            if isinstance(c.func, ast.Attribute) and c.func.attr.startswith('_') and not c.func.attr.startswith('__') and f.cls is not None:
                h = model.find_method(f.cls.qualname, c.func.attr)
            elif isinstance(c.func, ast.Name):
                h = model.functions.get(model.resolve(c.func, g.module, g) or '')
                if h is not None and (h.cls is not None or h.module is not f.module or not h.name.startswith('_')):
                    h = None
            if h is not None and h not in out and isinstance(h.node, ast.FunctionDef):
                out.append(h)
    return out


def rule_c08_r4(model: Model) -> RuleResult:
    r = RuleResult('C08-R4', 'inside_sum discipline: product nodes render children outside a sum; sums pass inside_sum=True', floor=3)
    pe = model.func(f'{ERRMOD}.ProductErrorNode.print_error')
    se = model.func(f'{ERRMOD}.SumErrorNode.print_error')
    de = model.func(f'{ERRMOD}.DuplicateKeyError.print_error')
    r.analysed.update([pe.qualname, se.qualname, de.qualname])
    for (f, want) in ((pe, False), (se, True)):
        calls = [c for g in render_closure(model, f) for c in ast.walk(g.node)
                 if isinstance(c, ast.Call) and isinstance(c.func, ast.Attribute) and c.func.attr == 'print_error']
        r.instances += 1
        if not calls:
            r.fail(f.qualname, 'no child rendering', f.loc(), "children are not rendered")
            continue
        good = True
        for c in calls:
            kw = {k.arg: k.value for k in c.keywords}
            v = kw.get('inside_sum')
            is_true = isinstance(v, ast.Constant) and v.value is True
            if want != is_true and not (not want and v is None):
                good = False
                r.fail(f.qualname, f"child.print_error(inside_sum={unparse(v) if v else 'default'})", f.loc(c),
                       "children are rendered with the wrong inside_sum flag (DuplicateKeyError asserts it is not inside a sum; "
                       "leaves inside a sum must omit the value)")
            if 'file' not in kw:
                good = False
                r.fail(f.qualname, 'child.print_error without file=', f.loc(c), "child output goes to stdout instead of the requested stream")
        if good:
            r.ok()
    # DuplicateKeyError is only ever built as a child of a product node
    errs = error_node_classes(model)
    for fn in model.all_functions():
        if not isinstance(fn.node, ast.FunctionDef):
            continue
        for c in ast.walk(fn.node):
            if isinstance(c, ast.Call) and model.resolve(c.func, fn.module, fn) == f'{ERRMOD}.DuplicateKeyError':
                if model.enclosing_function(c) is not fn:
                    continue
                r.instances += 1
                par = getattr(c, '_parent', None)
                if isinstance(par, ast.Assign) and len(par.targets) == 1 and isinstance(par.targets[0], ast.Subscript):
                    r.ok()
                else:
                    r.fail(fn.qualname, 'DuplicateKeyError outside children[...]', fn.loc(c),
                           "DuplicateKeyError can reach a sum node, whose renderer passes inside_sum=True and trips its assertion")
    return r


def rule_c08_r5(model: Model) -> RuleResult:
    r = RuleResult('C08-R5', 'str() routes to print_error(file=buffer); every renderer writes only to its file parameter', floor=15)
    m = model.module(ERRMOD)
    for q, f in model.functions.items():
        if not q.startswith(ERRMOD + '.') or not isinstance(f.node, ast.FunctionDef):
            continue
        for c in ast.walk(f.node):
            if isinstance(c, ast.Call) and isinstance(c.func, ast.Name) and c.func.id == 'print':
                if model.enclosing_function(c) is not f:
                    continue
                r.instances += 1
                r.analysed.add(f.qualname)
                kw = {k.arg: k.value for k in c.keywords}
                if isinstance(kw.get('file'), ast.Name) and kw['file'].id == 'file':
                    r.ok()
                else:
                    r.fail(f.qualname, unparse(c)[:60], f.loc(c), "a renderer prints to a stream other than its `file` parameter: str(error) misses this line")
    for q in (f'{ERRMOD}.ErrorNode.__str__',):
        f = model.func(q)
        r.instances += 1
        src = unparse(f.node)
        if re.search(r'print_error\(file=\w+\)', src) and 'getvalue()' in src:
            r.ok()
        else:
            r.fail(q, '__str__', f.loc(), "ErrorNode.__str__ no longer renders through print_error(file=buffer)")
    f = model.func(f'{ERRMOD}.ConvertError.__str__')
    r.instances += 1
    if 'self.tree' in unparse(f.node):
        r.ok()
    else:
        r.fail(f.qualname, '__str__', f.loc(), "str(ConvertError) no longer renders its tree")
    return r


def rule_c08_r6(model: Model) -> RuleResult:
    r = RuleResult('C08-R6', 'a product node is fused with its single child only when it has no missing / extra fields of its own', floor=1)
    f = model.func(f'{ERRMOD}.ProductErrorNode.print_error')
    cfg = cfg_of(model, f)
    nz = Normalizer(model, f, cfg)
    r.analysed.add(f.qualname)
    # the fusing step: a statement that rebuilds a ProductErrorNode from a child's children / missing / extra
    fuse = []
    for n in cfg.live_nodes():
        if n.kind == 'stmt' and isinstance(n.ast, ast.Assign):
            for c in ast.walk(n.ast.value):
                if isinstance(c, ast.Call) and model.resolve(c.func, f.module, f) == f'{ERRMOD}.ProductErrorNode' and n.loop_of:
                    fuse.append(n)
    if not fuse:
        r.note("no fusing step found (chains are rendered unfused): nothing to check")
        r.instances = 1
        r.ok()
        return r
    for n in fuse:
        r.instances += 1
        lits = set()
        for a in cfg.nodes:
            if a.kind != 'cond':
                continue
            for lb in ('T', 'F'):
                if a.edge(lb) and cfg.edge_dominates(a, lb, n):
                    text, pos = nz.literal(a.ast, a)
                    lits.add(('' if pos == (lb == 'T') else 'not ') + text)
        need = {'missing', 'extra'}
        have = {w for w in need if any(re.match(r'^not TRUTHY\(.*\.%s\)$' % w, x) for x in lits)}
        r.sample({'fuse_requires_empty': sorted(have)})
        if have == need:
            r.ok()
        else:
            r.fail(f.qualname, f"fuse step requires empty: {sorted(have)}", f.loc(n.ast),
                   f"the outer node is replaced by its child although it still has {' / '.join(sorted(need - have))} fields of its own: "
                   f"their 'Missing required field' / 'Unexpected field' lines vanish from the message")
    return r


_MUTATORS = {'append', 'extend', 'insert', 'remove', 'clear', 'pop', 'sort', 'reverse', 'update', 'setdefault', 'popitem', 'add', 'discard',
             '__setitem__', '__delitem__', 'difference_update', 'intersection_update', 'symmetric_difference_update'}


def rule_render_pure(model: Model, rule_id: str = 'C08-R8') -> RuleResult:
    """C07 / C08: rendering, comparing and printing an error tree never changes it."""
    r = RuleResult(rule_id, 'no method of an error node stores into the node it is called on (rendering leaves the tree unchanged)', floor=6)
    for q in sorted(error_node_classes(model)):
        ci = model.cls(q)
        for f in ci.methods.values():
            if f.name in ('__init__', '__post_init__', '__new__') or not isinstance(f.node, ast.FunctionDef) or not f.params:
                continue
            cfg = cfg_of(model, f)
            rd = cfg.reaching()
            me = f.params[0]
            r.instances += 1
            r.analysed.add(f.qualname)
            bad: t.List[t.Tuple[ast.AST, str]] = []

            def is_self(e: ast.AST, n: Node) -> bool:
                while isinstance(e, (ast.Attribute, ast.Subscript)):
                    e = e.value
                if not isinstance(e, ast.Name):
                    return False
                if e.id == me:
                    return any(d.kind == 'param' for d in rd.at(n, me))
                # an alias of the receiver: name = self
                defs = rd.at(n, e.id)
                return any(d.kind == 'assign' and isinstance(d.value, ast.Name) and d.value.id == me and not d.path
                           and any(d2.kind == 'param' for d2 in rd.at(d.node, me)) for d in defs)
            for n in cfg.live_nodes():
                st = n.ast
                if n.kind == 'stmt' and isinstance(st, (ast.Assign, ast.AugAssign, ast.AnnAssign, ast.Delete)):
                    tgts = st.targets if isinstance(st, (ast.Assign, ast.Delete)) else [st.target]
                    for tg in tgts:
                        for x in ([tg] if not isinstance(tg, (ast.Tuple, ast.List)) else tg.elts):
                            if isinstance(x, (ast.Attribute, ast.Subscript)) and is_self(x, n):
                                bad.append((st, f"store to {unparse(x)}"))
                for root in node_exprs(n):
                    for c in walk_no_nested(root):
                        if not isinstance(c, ast.Call):
                            continue
                        if isinstance(c.func, ast.Attribute) and c.func.attr in _MUTATORS and isinstance(c.func.value, (ast.Attribute, ast.Subscript)) \
                                and is_self(c.func.value, n):
                            bad.append((c, f"{unparse(c.func)}()"))
                        fn = unparse(c.func)
                        if fn in ('setattr', 'object.__setattr__', 'delattr', 'object.__delattr__') and c.args and is_self(c.args[0], n) \
                                and isinstance(c.args[0], ast.Name):
                            bad.append((c, f"{fn}({unparse(c.args[0])}, ...)"))
            if bad:
                for (node, what) in bad:
                    r.fail(f.qualname, what, f.loc(node),
                           "the error tree is rewritten by looking at it: after rendering, children / missing / extra no longer mirror the type")
            else:
                r.ok()
    return r


def rule_cause_rendered(model: Model, rule_id: str = 'C08-R9') -> RuleResult:
    """C08: when a failure has an underlying exception, its text is part of the message in every context."""
    r = RuleResult(rule_id, "a node's cause is rendered whenever it is present (no other condition: not the nesting, not inside_sum)", floor=2)
    for q in sorted(error_node_classes(model)):
        ci = model.cls(q)
        if 'cause' not in error_fields(model, q):
            continue
        pe = ci.methods.get('print_error')
        if pe is None:
            continue
        cfg = cfg_of(model, pe)
        nz = Normalizer(model, pe, cfg)
        me = pe.params[0]
        r.instances += 1
        r.analysed.add(pe.qualname)
        none_tests = (f'{me}.cause is None', f'None is {me}.cause')
        uses = []
        for n in cfg.live_nodes():
            if n.ast is None:
                continue
            if n.kind == 'cond' and nz.literal(n.ast, n)[0] in none_tests:
                continue
            roots = node_exprs(n)
            hit = False
            for root in roots:
                for x in walk_no_nested(root):
                    if isinstance(x, ast.Attribute) and x.attr == 'cause' and isinstance(x.value, ast.Name) and x.value.id == me:
                        hit = True
                    elif isinstance(x, ast.Name) and isinstance(x.ctx, ast.Load) and x.id != me:
                        try:
                            if nz.expr(x, n) == f'{nz.param_map.get(me, me)}.cause':
                                hit = True     # a local alias of the cause (`cause = self.cause`)
                        except AnalysisError:
                            pass
            if hit and not (n.kind == 'stmt' and isinstance(n.ast, (ast.Assign, ast.AnnAssign)) and isinstance(n.ast.value, ast.Attribute)
                            and n.ast.value.attr == 'cause'):
                uses.append(n)
        if not uses:
            r.fail(pe.qualname, 'cause never rendered', pe.loc(), "the underlying exception never appears in the message")
            continue
        bad = []
        for n in uses:
            for (cid, lb) in cfg.conditions_of(n):
                c = cfg.nodes[cid]
                if c.kind != 'cond' or c.ast is None:
                    continue
                text, pos = nz.literal(c.ast, c)
                if text in none_tests:
                    continue
                bad.append(('' if pos == (lb == 'T') else 'not ') + text)
        r.sample({'node': ci.name, 'cause rendered when also': sorted(set(bad))})
        if bad:
            r.fail(pe.qualname, f"cause rendered only when {sorted(set(bad))}", pe.loc(uses[0].ast),
                   "the underlying exception is left out of the message in some contexts (e.g. inside a union alternative), although the node carries it")
        else:
            r.ok()
    return r


def rule_children_keep_order(model: Model, rule_id: str = 'C07-R6') -> RuleResult:
    """C07: the children of a node stay in the order the diagnostic pass produced them (one per member / element, in declaration order)."""
    r = RuleResult(rule_id, "no method of an error node sorts, reverses or de-duplicates its children (child i stays the tree of member i)", floor=5)
    for q in sorted(error_node_classes(model)):
        ci = model.cls(q)
        for f in ci.methods.values():
            if not isinstance(f.node, ast.FunctionDef):
                continue
            r.instances += 1
            r.analysed.add(f.qualname)
            bad = []
            for c in ast.walk(f.node):
                if not isinstance(c, ast.Call):
                    continue
                name = c.func.id if isinstance(c.func, ast.Name) else (c.func.attr if isinstance(c.func, ast.Attribute) else '')
                if name in ('sorted', 'reversed', 'set', 'frozenset') and c.args and 'children' in unparse(c.args[0]):
                    bad.append((c, f"{name}({unparse(c.args[0])[:40]})"))
                if name in ('sort', 'reverse') and isinstance(c.func, ast.Attribute) and 'children' in unparse(c.func.value):
                    bad.append((c, f"{unparse(c.func)[:50]}()"))
            if bad:
                for (node, what) in bad:
                    r.fail(f.qualname, what, f.loc(node),
                           "the children of the node are reordered: a union's node no longer lists one child per member in declaration order, "
                           "so child i is not the tree of member i")
            else:
                r.ok()
    return r


def rule_children_all_rendered(model: Model, rule_id: str = 'C08-R10') -> RuleResult:
    """Every child of a composite node is rendered, unconditionally, and only a union node tells its direct children that they are
    printed inside a union (leaf renderers drop their "instead got" line there, and the duplicate-key renderer asserts it is not)."""
    r = RuleResult(rule_id, 'composite renderers print every child on every iteration; only SumErrorNode passes inside_sum=True', floor=2)
    for q in sorted(error_node_classes(model)):
        ci = model.cls(q)
        pe = ci.methods.get('print_error')
        if pe is None or not isinstance(pe.node, ast.FunctionDef):
            continue
        cfg = cfg_of(model, pe)
        is_sum = ci.name == 'SumErrorNode'
        for n in cfg.live_nodes():
            for root in node_exprs(n):
                for c in walk_no_nested(root):
                    if not (isinstance(c, ast.Call) and isinstance(c.func, ast.Attribute) and c.func.attr == 'print_error'):
                        continue
                    if isinstance(c.func.value, ast.Call) and unparse(c.func.value.func) == 'super':
                        continue
                    r.instances += 1
                    r.analysed.add(pe.qualname)
                    flag = c.args[1] if len(c.args) > 1 else next((k.value for k in c.keywords if k.arg == 'inside_sum'), None)
                    flag_s = unparse(flag) if flag is not None else None
                    r.sample({'renderer': ci.name, 'child call': unparse(c)[:70], 'inside_sum': flag_s})
                    if is_sum and flag_s != 'True':
                        r.fail(pe.qualname, f"inside_sum={flag_s}", pe.loc(c), "alternatives of a union are not rendered as alternatives")
                    elif not is_sum and flag_s not in (None, 'False'):
                        r.fail(pe.qualname, f"inside_sum={flag_s}", pe.loc(c),
                               "a product node hands the union flag down to its children: a duplicate-key child asserts it is not inside a "
                               "union (str(ConvertError) raises AssertionError) and leaves lose their 'instead got' line")
                    else:
                        r.ok()
                    # rendered on every iteration: no branch inside the enclosing loop(s) decides whether the child is printed
                    r.instances += 1
                    skipping = []
                    for (cid, _lb) in cfg.conditions_of(n):
                        cn = cfg.nodes[cid]
                        if cn.kind == 'cond' and any(lp in cn.loop_of for lp in n.loop_of):
                            skipping.append(unparse(cn.ast)[:60] if cn.ast is not None else '?')
                    if skipping:
                        r.fail(pe.qualname, f"child rendered only if {skipping[0]}", pe.loc(c),
                               "some children of the node are skipped by the renderer: their failing paths, expectations and missing / "
                               "unexpected fields never reach the message")
                    else:
                        r.ok()
    return r


def builds_error_leaf_from_parts(e: ast.AST, nm: ast.Name) -> bool:
    """``nm`` only occurs as ``nm.attr`` / in a test (the code reads a field of the inner node to build something else): not a rebuild."""
    par = getattr(nm, '_parent', None)
    return isinstance(par, ast.Attribute) and not isinstance(e, ast.Call)


def rule_inner_tree_passed_through(model: Model, rule_id: str = 'C07-R7') -> RuleResult:
    """A converter that wraps another one (a condition, a delegate, a delayed reference) reports the inner converter's failure as the
    inner converter's own tree: the node is handed on as it is, not rebuilt with another expectation or value."""
    r = RuleResult(rule_id, "a wrapper's diagnostic pass returns the inner converter's error tree unchanged", floor=2)
    zone = conversion_zone(model)
    for cls in family(model):
        for f in zone[cls.qualname]:
            if 'collect_errors' not in f.name or not isinstance(f.node, ast.FunctionDef):
                continue
            cfg = cfg_of(model, f)
            nz = Normalizer(model, f, cfg)
            rd = cfg.reaching()
            def origins(e: ast.AST, at: Node, depth: int = 0) -> t.List[t.Tuple[ast.AST, Node]]:
                if isinstance(e, ast.Name) and rd.is_local(e.id) and depth < 4:
                    defs = rd.at(at, e.id)
                    if defs and all(d.kind in ('assign', 'walrus') and d.value is not None and not d.path for d in defs):
                        return [o for d in defs for o in origins(d.value, d.node, depth + 1)]
                return [(e, at)]
            for n in cfg.live_nodes():
                if n.kind != 'return' or n.ast is None or n.ast.value is None:
                    continue
                for (e, at) in origins(n.ast.value, n):
                    inner_calls = [x for x in ast.walk(e) if isinstance(x, ast.Call) and isinstance(x.func, ast.Attribute) and x.func.attr == 'collect_errors']
                    if not inner_calls:
                        # built from a local that holds an inner tree (`replace(node, ...)`)?
                        for nm in ast.walk(e):
                            if isinstance(nm, ast.Name) and isinstance(nm.ctx, ast.Load) and rd.is_local(nm.id) and nm is not e:
                                for (o, _oat) in origins(nm, at):
                                    if isinstance(o, ast.Call) and isinstance(o.func, ast.Attribute) and o.func.attr == 'collect_errors' \
                                            and not builds_error_leaf_from_parts(e, nm):
                                        inner_calls = [o]
                    if not inner_calls:
                        continue
                    r.instances += 1
                    r.analysed.add(f.qualname)
                    form = nz.expr(e, at)
                    r.sample({'function': f.qualname, 'returns': form[:100]})
                    if e is inner_calls[0] or (isinstance(e, ast.Call) and unparse(e.func).endswith('cast') and len(e.args) == 2 and e.args[1] is inner_calls[0]):
                        r.ok()
                    else:
                        r.fail(f.qualname, f"returns {form[:100]}", f.loc(n.ast),
                               "the inner converter's error tree is rebuilt before it is reported (another expectation, another value): "
                               "what the inner type says about the failure (the tag it looked for, the offending sub-value) is lost")
    return r


def rule_children_not_overwritten(model: Model, rule_id: str = 'C07-R8') -> RuleResult:
    """Within one element (one loop iteration) of a diagnostic pass, two reports stored under the same key cannot both be stored: the
    later one would replace the earlier one, and a rejected part of the element disappears from the tree."""
    from .pairs import Accumulators
    r = RuleResult(rule_id, 'no child of an error node is overwritten by a second report for the same element', floor=2)
    zone = conversion_zone(model)
    for cls in family(model):
        for f in zone[cls.qualname]:
            if 'collect_errors' not in f.name or not isinstance(f.node, ast.FunctionDef):
                continue
            cfg = cfg_of(model, f)
            nz = Normalizer(model, f, cfg)
            acc = Accumulators(model, f, cfg)
            for name, fills in acc.fills.items():
                keyed = [(n, nz.expr(k, n)) for (n, _st, k, _v) in fills if k is not None and n.loop_of]
                for i, (n1, k1) in enumerate(keyed):
                    for (n2, k2) in keyed[i + 1:]:
                        if k1 != k2 or n1 is n2 or not (set(map(id, n1.loop_of)) & set(map(id, n2.loop_of))):
                            continue
                        r.instances += 1
                        r.analysed.add(f.qualname)
                        loop_ids = set(map(id, n1.loop_of)) & set(map(id, n2.loop_of))
                        heads = {x.id for x in cfg.nodes if x.kind == 'iter' and id(x.ast) in loop_ids}

                        def reaches(a: Node, b: Node) -> bool:
                            seen_, todo_ = set(), [m for (_lb, m) in a.succ]
                            while todo_:
                                x = todo_.pop()
                                if x.id in seen_ or x.id in heads:
                                    continue
                                seen_.add(x.id)
                                if x is b:
                                    return True
                                todo_.extend(m for (_lb, m) in x.succ)
                            return False
                        both = reaches(n1, n2) or reaches(n2, n1)
                        r.sample({'function': f.qualname, 'children': name, 'key': k1, 'both fills in one iteration': both})
                        if both:
                            r.fail(f.qualname, f"the child under {k1} is stored twice for one element", f.loc(n2.ast if n2.ast is not None else f.node),
                                   "when both reports apply (a mapping entry whose key and value are both rejected) the second replaces "
                                   "the first: the rejected key is missing from the error tree and from the message")
                        else:
                            r.ok()
    return r
