"""C10: memoisation is transparent — ownership, keying and lock rules on the memoisers and the global handler list
(DESIGN §12)."""
from __future__ import annotations

import ast
import re
import typing as t

from .. import anchors
from ..cfg import cfg_of, node_exprs, walk_no_nested
from ..model import AnalysisError, FuncInfo, Model, ancestors, unparse
from ..norm import Normalizer
from ..report import RuleResult

MUT_METHODS = {'append', 'extend', 'insert', 'remove', 'clear', 'pop', 'sort', 'reverse', 'update', 'setdefault', 'popitem', 'add', 'discard'}


def memoised(model: Model) -> t.List[t.Tuple[FuncInfo, str, t.Optional[FuncInfo], ast.expr]]:
    """(function, memo kind, key function, decorator) for every memoised function in the package."""
    out = []
    for f in model.all_functions():
        for d in f.decorators:
            target = d.func if isinstance(d, ast.Call) else d
            q = model.resolve(target, f.module, f) or ''
            if q == 'pane.util.key_cache':
                if not isinstance(d, ast.Call) or not d.args:
                    raise AnalysisError(f"{f.loc()}: key_cache decorator without a key function")
                kq = model.resolve(d.args[0], f.module, f)
                kf = model.functions.get(kq or '')
                if kf is None:
                    raise AnalysisError(f"{f.loc()}: cannot resolve the key function of {f.qualname}")
                out.append((f, 'key_cache', kf, d))
            elif q in ('functools.lru_cache', 'functools.cache'):
                out.append((f, q, None, d))
    return out


def _key_forms(model: Model, kf: FuncInfo) -> t.List[t.Tuple[str, ast.AST]]:
    cfg = cfg_of(model, kf)
    nz = Normalizer(model, kf, cfg, param_map={p: f'${p}' for p in kf.params})
    return [(nz.expr(n.ast.value, n), n.ast) for n in cfg.live_nodes() if n.kind == 'return' and n.ast is not None and n.ast.value is not None]


def _outside_id(form: str, var: str) -> bool:
    """Does ``var`` occur in ``form`` other than directly as the argument of id(...)?"""
    stripped = form.replace(f'id({var})', 'ID')
    return re.search(r'(?<![\w$])' + re.escape(var) + r'\b', stripped) is not None


def rule_c10_r1(model: Model) -> RuleResult:
    r = RuleResult('C10-R1', 'a cache keyed by id() of an argument keeps that argument alive as long as the entry', floor=1)
    id_keyed = []
    for (f, kind, kf, d) in memoised(model):
        if kf is None:
            continue
        for (form, node) in _key_forms(model, kf):
            for p in kf.params:
                if f'id(${p})' in form:
                    id_keyed.append((f, kf, p))
    if not id_keyed:
        r.note('no id()-keyed memoiser found')
    call = model.func('pane.util.KeyCache.__call__')
    cfg = cfg_of(model, call)
    pm = {p: f'${p}' for p in call.params}
    pm['self'] = 'self'
    nz = Normalizer(model, call, cfg, param_map=pm)
    r.analysed.add(call.qualname)
    stores = []
    keep = []
    for n in cfg.live_nodes():
        if n.kind == 'stmt' and isinstance(n.ast, ast.Assign):
            for tg in n.ast.targets:
                if isinstance(tg, ast.Subscript):
                    base = nz.expr(tg.value, n)
                    key = nz.expr(tg.slice, n)
                    val = nz.expr(n.ast.value, n)
                    if base == 'self.cache':
                        stores.append((n, key))
                    elif base.startswith('self.') and '$args' in val:
                        keep.append((n, key, base))
    pd = cfg.postdominators()
    for (f, kf, p) in id_keyed:
        for (s, key) in stores:
            r.instances += 1
            ok = False
            for (k, kkey, base) in keep:
                if kkey != key:
                    continue
                if cfg.node_dominates(k, s) or (cfg.node_dominates(s, k) and k.id in pd.get(s.id, set())):
                    ok = True
            r.sample({'memoised': f.qualname, 'key': [x for x, _ in _key_forms(model, kf)], 'store_line': s.lineno, 'kept_alive': ok})
            if ok:
                r.ok()
            else:
                r.fail(call.qualname, f"self.cache[{key}] = ... without keeping the arguments", call.loc(s.ast),
                       f"{f.qualname} is memoised on id({p}) but the cache does not hold a reference to the call's arguments: once the "
                       f"type object is garbage-collected its id can be reused and another type is answered with this entry")
    if id_keyed and not stores:
        raise AnalysisError(f"{call.loc()}: no store into self.cache found in KeyCache.__call__")
    return r


def rule_c10_r2_keyfn(model: Model) -> RuleResult:
    """Only the converter cache (the part of C10-R2 that C06 depends on)."""
    return rule_c10_r2(model, key_functions_only=True)


def rule_c10_r2(model: Model, key_functions_only: bool = False) -> RuleResult:
    r = RuleResult('C10-R2', 'no memo keyed by equality of type arguments (typing equality is coarser than conversion behaviour)',
                   floor=1 if key_functions_only else 2)
    for (f, kind, kf, d) in memoised(model):
        if key_functions_only and kf is None:
            continue
        r.instances += 1
        r.analysed.add(f.qualname)
        if kf is None:
            # functools.lru_cache keys on the arguments by value
            r.sample({'memoised': f.qualname, 'by': kind})
            r.fail(f.qualname, f"@{kind.split('.')[-1]}", f.loc(d),
                   "arguments are type objects compared by ==: Union[int, float] == Union[float, int], so the member order of a "
                   "parameterised class depends on which spelling was seen first (conversion is left-most-wins)")
            continue
        bad = False
        for (form, node) in _key_forms(model, kf):
            r.sample({'memoised': f.qualname, 'key': form})
            tyvar = f'${kf.params[0]}'
            if _outside_id(form, tyvar):
                bad = True
                r.fail(kf.qualname, f"key {form}", kf.loc(node),
                       f"the type enters the cache key by value: equal-but-differently-ordered unions (and aliases containing them) "
                       f"share one converter, so results depend on which type was converted first")
        if not bad:
            r.ok()
    return r


def rule_c10_r3(model: Model) -> RuleResult:
    r = RuleResult('C10-R3', 'the cache key covers every parameter; the handler set enters it whole, by value', floor=2)
    for (f, kind, kf, d) in memoised(model):
        if kf is None:
            continue
        r.analysed.add(kf.qualname)
        if kf.params != f.params:
            r.instances += 1
            r.fail(kf.qualname, f"params {kf.params} vs {f.params}", kf.loc(), "key function and memoised function take different parameters")
        for (form, node) in _key_forms(model, kf):
            for p in f.params:
                r.instances += 1
                if re.search(r'(?<![\w$])\$' + re.escape(p) + r'\b', form):
                    r.ok()
                else:
                    r.fail(kf.qualname, f"key {form} ignores {p}", kf.loc(node), f"two calls differing only in `{p}` share a cache entry")
            # handlers must be a top-level component of the key tuple
            hp = [p for p in f.params if 'handler' in p]
            for p in hp:
                r.instances += 1
                comps = _top_components(form)
                r.sample({'key': form, 'components': comps})
                if f'${p}' in comps:
                    r.ok()
                else:
                    r.fail(kf.qualname, f"key {form}", kf.loc(node),
                           f"`{p}` does not enter the key as a whole: call-level and class-level handlers are ordered differently by "
                           f"PaneConverter, so flattened / id-mapped keys make distinct configurations share a converter")
    # ConverterHandlers must be hashable by value: frozen dataclass with tuple fields
    ch = model.cls('pane.convert.ConverterHandlers')
    r.instances += 1
    decs = [unparse(x) for x in ch.node.decorator_list]
    frozen = any('frozen=True' in x for x in decs)
    tuple_fields = all(unparse(a).startswith('t.Tuple[') for a in ch.attr_annotations.values())
    if frozen and tuple_fields and '__hash__' not in ch.methods and '__eq__' not in ch.methods:
        r.ok()
    else:
        r.fail(ch.qualname, f"decorators {decs}", f"{ch.module.relpath}:{ch.node.lineno}",
               "ConverterHandlers is a cache-key component and must be a frozen dataclass of tuples (hash / eq by value of the handler tuples)")
    return r


def _top_components(form: str) -> t.List[str]:
    s = form.strip()
    if not (s.startswith('(') and s.endswith(')')):
        return [s]
    s = s[1:-1]
    out, depth, cur = [], 0, ''
    for ch in s:
        if ch in '([{':
            depth += 1
        elif ch in ')]}':
            depth -= 1
        if ch == ',' and depth == 0:
            out.append(cur.strip())
            cur = ''
        else:
            cur += ch
    if cur.strip():
        out.append(cur.strip())
    return out


def rule_c10_r4(model: Model) -> RuleResult:
    r = RuleResult('C10-R4', 'process-wide state has one owner: _GLOBAL_HANDLERS is written only by register_converter_handler, at import time', floor=2)
    target = anchors.global_handlers(model)
    owner = 'pane.convert.register_converter_handler'
    writers = 0
    for m in model.modules.values():
        for node in ast.walk(m.tree):
            fn = model.enclosing_function(node)
            where = fn.qualname if fn else f"{m.name} (module level)"
            loc = f"{m.relpath}:{getattr(node, 'lineno', 0)}"
            hit = None
            if isinstance(node, ast.Call) and isinstance(node.func, ast.Attribute) and node.func.attr in MUT_METHODS \
                    and model.resolve(node.func.value, m, fn) == target:
                hit = f".{node.func.attr}()"
            elif isinstance(node, (ast.Assign, ast.AugAssign, ast.AnnAssign, ast.Delete)):
                tgts = node.targets if isinstance(node, (ast.Assign, ast.Delete)) else [node.target]
                for tg in tgts:
                    base = tg.value if isinstance(tg, ast.Subscript) else tg
                    if isinstance(base, (ast.Name, ast.Attribute)) and model.resolve(base, m, fn) == target:
                        if fn is None and isinstance(node, (ast.Assign, ast.AnnAssign)) and isinstance(tg, ast.Name):
                            continue      # the definition itself
                        hit = type(node).__name__
            elif isinstance(node, ast.Global) and anchors.short(target) in node.names:
                hit = 'global'
            if hit:
                writers += 1
                r.instances += 1
                r.sample({'writer': where, 'operation': hit})
                if fn is not None and fn.qualname == owner:
                    r.ok()
                else:
                    r.fail(where, f"{hit} on _GLOBAL_HANDLERS", loc, "the registered-handler list is modified outside register_converter_handler: conversions depend on call history")
            if isinstance(node, ast.Call) and model.resolve(node.func, m, fn) == owner:
                r.instances += 1
                if fn is None:
                    r.ok()
                else:
                    r.fail(fn.qualname, 'register_converter_handler(...) inside a function', loc,
                           "global handlers are registered at run time by library code: the dispatch result for a type depends on what ran before")
            if isinstance(node, ast.Attribute) and node.attr in ('cache', '_refs') and model.resolve(node.value, m, fn) == 'pane.convert.make_converter':
                r.instances += 1
                r.fail(where, 'make_converter.cache', loc, "the converter cache is accessed outside the KeyCache class")
    if writers == 0:
        raise AnalysisError("no writer of pane.convert._GLOBAL_HANDLERS found (register_converter_handler vanished?)")
    return r


def rule_c10_r6(model: Model) -> RuleResult:
    r = RuleResult('C10-R6', 'KeyCache: LRU bookkeeping happens under the lock; the wrapped function is called outside it', floor=6)
    f = model.func('pane.util.KeyCache.__call__')
    cfg = cfg_of(model, f)
    pm = {p: f'${p}' for p in f.params}
    pm['self'] = 'self'
    nz = Normalizer(model, f, cfg, param_map=pm)
    r.analysed.add(f.qualname)
    unbounded = [n for n in cfg.nodes if n.kind == 'cond' and nz.literal(n.ast, n)[0] == 'None is self.maxsize']

    def in_unbounded(n: t.Any) -> bool:
        for u in unbounded:
            pos = nz.literal(u.ast, u)[1]
            if u.edge('T' if pos else 'F') and cfg.edge_dominates(u, 'T' if pos else 'F', n):
                return True
        return False

    def under_lock(st: ast.AST) -> bool:
        for a in ancestors(st):
            if isinstance(a, ast.With) and any(unparse(i.context_expr) == 'self._lock' for i in a.items):
                return True
        return False

    for n in cfg.live_nodes():
        if n.kind != 'stmt' or n.ast is None:
            continue
        a = n.ast
        shared = False
        if isinstance(a, ast.Assign):
            for tg in a.targets:
                s = unparse(tg)
                if s.startswith('self.') or (isinstance(tg, ast.Subscript) and not s.startswith(('key', 'result'))):
                    shared = True
        elif isinstance(a, ast.Delete):
            shared = any(unparse(tg).startswith('self.') for tg in a.targets)
        if shared:
            if in_unbounded(n):
                continue
            r.instances += 1
            r.sample({'statement': unparse(a)[:70], 'under_lock': under_lock(a)})
            if under_lock(a):
                r.ok()
            else:
                r.fail(f.qualname, unparse(a)[:70], f.loc(a), "LRU bookkeeping outside `with self._lock`: concurrent callers corrupt the linked list")
        for sub in walk_no_nested(a):
            if isinstance(sub, ast.Call) and unparse(sub.func) == 'self.inner_f':
                r.instances += 1
                if under_lock(a):
                    r.fail(f.qualname, 'self.inner_f(...) under the lock', f.loc(sub), "the memoised function runs user code while the cache lock is held")
                else:
                    r.ok()
    return r
