"""Reject predicates of the two conversion passes as Boolean functions over abstract literals (C03-R1).

For a pass (``try_convert`` or ``collect_errors``) of a Converter class, with its self-helpers inlined, the predicate
"this pass rejects the value" is built as a propositional formula whose variables are

  * the normal forms of the atomic branch conditions (``norm.literal``),
  * ``FAILS(<sub-converter> <- <argument>)`` for every delegation, and
  * ``RAISES(<operation>)`` for every operation guarded by a handler for foreign exceptions.

Reaching conditions are propagated forward over the CFG with back edges cut (one symbolic element per loop); a
rejecting exit contributes its reaching condition.  In the diagnostic pass a *fill* of an accumulator that ends up in
a returned error node counts as a rejecting exit, and the final ``if len(children) or ...`` test on such accumulators
counts as false (its content is represented by the fills).

Two passes agree iff the two formulas are the same Boolean function; this is decided exhaustively by truth tables
held in Python integers.  The comparison is therefore insensitive to the order of tests, to ``if a or b`` vs two
``if``s, to nesting vs ``and``, to early exit vs accumulate-then-test, and to naming.
"""
from __future__ import annotations

import ast
import re
import typing as t

from ..cfg import CFG, Node, cfg_of, handler_classes, node_exprs, walk_no_nested
from ..family import CONVERT_ERROR, CONVERTER, PI, SUB_METHODS, is_subconv_form, subconv_attrs, walk_with_bindings
from ..model import AnalysisError, ClassInfo, FuncInfo, Model, unparse
from ..norm import Normalizer
from .pairs import Accumulators, Extractor, NON_VERDICT_METHODS, TOTAL_BUILTINS, UNCHECKED_CTORS, error_node_classes

MAX_VARS = 24

TRUE = ('true',)
FALSE = ('false',)


def f_and(*xs: t.Any) -> t.Any:
    out = []
    for x in xs:
        if x == FALSE:
            return FALSE
        if x == TRUE:
            continue
        out.append(x)
    if not out:
        return TRUE
    if len(out) == 1:
        return out[0]
    return ('and', tuple(out))


def f_or(*xs: t.Any) -> t.Any:
    out = []
    for x in xs:
        if x == TRUE:
            return TRUE
        if x == FALSE:
            continue
        out.append(x)
    if not out:
        return FALSE
    if len(out) == 1:
        return out[0]
    return ('or', tuple(out))


def f_not(x: t.Any) -> t.Any:
    if x == TRUE:
        return FALSE
    if x == FALSE:
        return TRUE
    if x[0] == 'not':
        return x[1]
    return ('not', x)


class Space:
    def __init__(self) -> None:
        self.names: t.List[str] = []
        self.index: t.Dict[str, int] = {}
        self.locs: t.Dict[str, str] = {}

    def var(self, name: str, loc: str = '') -> t.Any:
        if name not in self.index:
            self.index[name] = len(self.names)
            self.names.append(name)
            self.locs[name] = loc
        return ('var', name)


def evaluate(f: t.Any, order: t.List[str]) -> int:
    n = len(order)
    size = 1 << n
    ALL = (1 << size) - 1
    masks: t.Dict[str, int] = {}
    for i, nm in enumerate(order):
        block = ((1 << (1 << i)) - 1) << (1 << i)
        period = 1 << (i + 1)
        rep = ALL // ((1 << period) - 1)
        masks[nm] = block * rep
    memo: t.Dict[int, int] = {}

    def ev(x: t.Any) -> int:
        k = id(x)
        if k in memo:
            return memo[k]
        if x == TRUE:
            r = ALL
        elif x == FALSE:
            r = 0
        elif x[0] == 'var':
            r = masks[x[1]]
        elif x[0] == 'not':
            r = ALL ^ ev(x[1])
        elif x[0] == 'and':
            r = ALL
            for y in x[1]:
                r &= ev(y)
        else:
            r = 0
            for y in x[1]:
                r |= ev(y)
        memo[k] = r
        return r
    return ev(f)


class PassFormula:
    def __init__(self, model: Model, cls: ClassInfo, mode: str, space: Space):
        self.model = model
        self.cls = cls
        self.mode = mode
        self.space = space
        self.attrs = subconv_attrs(model, cls)
        self.err_classes = error_node_classes(model)
        self.stack: t.List[str] = []
        self.functions: t.List[str] = []
        self.helper = Extractor(model, cls, mode)     # for guarded-op naming and helper resolution
        self.guarded: t.Dict[t.Tuple[str, str], str] = {}

    # ------------------------------------------------------------------ formula of one function

    def reject(self, func: FuncInfo, pm: t.Dict[str, str]) -> t.Any:
        if func.qualname in self.stack:
            return FALSE
        self.stack.append(func.qualname)
        if func.qualname not in self.functions:
            self.functions.append(func.qualname)
        try:
            return self._reject(func, pm)
        finally:
            self.stack.pop()

    def _reject(self, func: FuncInfo, pm: t.Dict[str, str]) -> t.Any:
        model = self.model
        cfg = cfg_of(model, func)
        acc = Accumulators(model, func, cfg)
        base = Normalizer(model, func, cfg, param_map=pm)
        nz = Normalizer(model, func, cfg, param_map=pm,
                        name_hook=lambda nm, node: acc.descriptor(nm, base) if nm in acc.names else None)
        live = cfg.reachable()
        nodes = [n for n in cfg.nodes if n.id in live]
        # accumulators that end up in a returned error node
        reject_acc: t.Set[str] = set()
        if self.mode == 'collect':
            for n in nodes:
                if n.kind == 'return' and n.ast is not None and n.ast.value is not None and self._is_error_ctor(n.ast.value, func):
                    for sub in ast.walk(n.ast.value):
                        if isinstance(sub, ast.Name) and sub.id in acc.names:
                            reject_acc.add(sub.id)
        reject_desc = {acc.descriptor(nm, base) for nm in reject_acc}

        # per node: delegations that may fail, helper calls, guarded operations
        fails: t.Dict[int, t.Any] = {}
        helper_rej: t.Dict[int, t.Any] = {}
        for n in nodes:
            fl = []
            hr = []
            for root in node_exprs(n):
                for sub, bound in walk_with_bindings(root, nz, n):
                    if isinstance(sub, ast.Call) and isinstance(sub.func, ast.Attribute) and sub.func.attr in ('try_convert', 'convert'):
                        recv = nz.expr(sub.func.value, n, bound)
                        if is_subconv_form(recv, self.attrs):
                            arg = nz.expr(sub.args[0], n, bound) if sub.args else ''
                            guards = self._enclosing_guards(sub, root, n, nz)
                            fl.append(f_and(self.space.var(f"FAILS({recv} <- {arg})", func.loc(sub)), guards))
                    callee, args = self.helper._helper_ref(sub, func, nz, n, bound)
                    if callee is not None:
                        cpm: t.Dict[str, str] = {}
                        cps = callee.params
                        if not any(isinstance(d, ast.Name) and d.id == 'staticmethod' for d in callee.decorators) and cps:
                            cpm[cps[0]] = 'self'
                            cps = cps[1:]
                        for p_, a in zip(cps, args):
                            cpm[p_] = a
                        hr.append(self.reject(callee, cpm))
            if fl:
                fails[n.id] = f_or(*fl)
            if hr:
                helper_rej[n.id] = f_or(*hr)

        # reaching conditions, back edges cut
        order = self._topo(cfg, nodes)
        reach: t.Dict[int, t.Any] = {}
        rejecting: t.List[t.Any] = []
        byid = {n.id: n for n in cfg.nodes}
        # exits of the function taken inside a loop body (per loop statement): the code after the loop runs only
        # if the (symbolic) iteration did not leave the function
        loop_exits: t.Dict[int, t.List[t.Any]] = {}

        def note_exit(node: Node, cond: t.Any) -> None:
            for lp in node.loop_of:
                loop_exits.setdefault(id(lp), []).append(cond)
        self._flag_ctx = (cfg, reach, fails, func)
        for n in order:
            if n is cfg.entry:
                r = TRUE
            else:
                # pull: reaching condition from the already evaluated predecessors (back edges cut)
                parts = []
                for (lb, p_) in n.pred:
                    if p_.id not in reach or self._is_back_edge(p_, n):
                        continue
                    ec = self._edge_cond(p_, lb, n, func, cfg, nz, acc, reject_desc, fails.get(p_.id, FALSE), helper_rej.get(p_.id, FALSE))
                    if p_.kind == 'iter' and lb == 'F' and loop_exits.get(id(p_.ast)):
                        ec = f_and(ec, f_not(f_or(*loop_exits[id(p_.ast)])))
                    parts.append(f_and(reach[p_.id], ec))
                r = f_or(*parts)
            reach[n.id] = r
            if r == FALSE:
                continue
            # rejections at this node
            caught_fail = any(lb == 'exc' for (lb, _m) in n.succ)
            f_here = fails.get(n.id, FALSE)
            h_here = helper_rej.get(n.id, FALSE)
            if n.kind == 'raise':
                # an explicit raise that leaves the function (not routed to a local handler)
                if any(m.kind == 'raise_exit' for (_lb, m) in n.succ) or not n.succ:
                    rc = cfg.raised_class(n.ast) if n.ast is not None else None
                    if rc in (PI, None):
                        rejecting.append(r)
                    # a foreign exception class raised by a shared helper (``_check_shape``) is an event of the call
                    # site (RAISES(<helper>)), handled there by whoever guards the call
                    note_exit(n, r)
            if n.kind == 'return':
                # the function is left only if evaluating the returned expression does not end up in a local handler
                stays = self._exc_cond(n, func, nz, cfg, f_here) if any(lb == 'exc' for (lb, _m) in n.succ) else FALSE
                note_exit(n, f_and(r, f_not(stays)))
            if self.mode == 'try':
                if f_here != FALSE and not self._fail_caught(n, func):
                    rejecting.append(f_and(r, f_here))
                    note_exit(n, f_and(r, f_here))
                if h_here != FALSE and not self._helper_caught(n, func):
                    rejecting.append(f_and(r, h_here))
                    note_exit(n, f_and(r, h_here))
            else:
                if h_here != FALSE:
                    rejecting.append(f_and(r, h_here))
                if n.kind == 'return' and n.ast is not None and n.ast.value is not None:
                    v = n.ast.value
                    rd_ = cfg.reaching()
                    multi = rd_.at(n, v.id) if isinstance(v, ast.Name) and rd_.is_local(v.id) else []
                    if self._is_error_ctor(v, func):
                        rejecting.append(r)
                    elif len(multi) > 1 and all(d.kind in ('assign', 'walrus') and d.value is not None and not d.path for d in multi):
                        # `node = None ... node = WrongTypeError(...) ... return node`: each definition that reaches the return
                        # contributes under the condition of its own statement
                        for d in multi:
                            rdn = reach.get(d.node.id, FALSE)
                            if self._is_error_ctor(d.value, func):
                                rejecting.append(f_and(r, rdn))
                            else:
                                sf = self._sub_result_fail(d.value, d.node, nz, func)
                                if sf is not None:
                                    rejecting.append(f_and(r, rdn, sf))
                    else:
                        sf = self._sub_result_fail(v, n, nz, func)
                        if sf is not None:
                            rejecting.append(f_and(r, sf))
                for nm in reject_acc:
                    for (fn_node, _st, _k, val) in acc.fills.get(nm, []):
                        if fn_node is n:
                            extra = TRUE
                            if val is not None:
                                sf = self._sub_result_fail(val, n, nz, func)
                                # the fill is normally guarded by `is not None`; conjoin only when it is not
                                if sf is not None and not self._guarded_by_result_test(cfg, n, nz):
                                    extra = sf
                            rejecting.append(f_and(r, extra))
        # foreign handlers: guarded-operation atoms (compared as a set, with handler classes)
        for n in nodes:
            if n.kind == 'handler':
                hc = handler_classes(model, func, n.ast)  # type: ignore[arg-type]
                if hc is None:
                    raise AnalysisError(f"{func.loc(n.ast)}: cannot resolve exception classes of handler")
                foreign = sorted(c.split('.')[-1] for c in hc if c not in (PI, CONVERT_ERROR))
                if foreign:
                    for op in self.helper._guarded_ops(n.extra['try'], func, nz, cfg):
                        self.guarded[(op, ','.join(foreign))] = func.loc(n.ast)
        return f_or(*rejecting)

    # ------------------------------------------------------------------ helpers

    def _topo(self, cfg: CFG, nodes: t.List[Node]) -> t.List[Node]:
        indeg: t.Dict[int, int] = {n.id: 0 for n in cfg.nodes}
        extra: t.Dict[int, t.List[Node]] = {}
        for n in nodes:
            for (_lb, m) in n.succ:
                if not self._is_back_edge(n, m):
                    indeg[m.id] += 1
        # ordering only: what follows a loop is evaluated after every node of the loop body
        for it in nodes:
            if it.kind != 'iter':
                continue
            for x in it.edge('F'):
                for b in nodes:
                    if it.ast in b.loop_of and b is not x and it.ast not in x.loop_of:
                        extra.setdefault(b.id, []).append(x)
                        indeg[x.id] += 1
        ready = [n for n in nodes if indeg[n.id] == 0]
        out: t.List[Node] = []
        seen: t.Set[int] = set()
        while ready:
            n = ready.pop(0)
            if n.id in seen:
                continue
            seen.add(n.id)
            out.append(n)
            for (_lb, m) in n.succ:
                if self._is_back_edge(n, m):
                    continue
                indeg[m.id] -= 1
                if indeg[m.id] <= 0 and m.id not in seen:
                    ready.append(m)
            for m in extra.get(n.id, []):
                indeg[m.id] -= 1
                if indeg[m.id] <= 0 and m.id not in seen:
                    ready.append(m)
        return out

    @staticmethod
    def _is_back_edge(n: Node, m: Node) -> bool:
        if m.kind == 'iter' and m.ast in n.loop_of:
            return True
        if m.kind == 'stmt' and 'loop_head' in m.extra and m.extra['loop_head'] in n.loop_of:
            return True
        return False

    def _is_error_ctor(self, v: ast.AST, func: FuncInfo) -> bool:
        from .pairs import builds_error_node
        return builds_error_node(self.model, func, v)

    def _enclosing_guards(self, call: ast.AST, root: ast.AST, n: Node, nz: Normalizer) -> t.Any:
        """Guards of the comprehensions / filters / loop headers the delegation sits in."""
        out = []
        for comp in walk_no_nested(root):
            if isinstance(comp, (ast.GeneratorExp, ast.ListComp, ast.SetComp, ast.DictComp)) and any(x is call for x in ast.walk(comp)):
                for (text, pol) in self.helper._expr_guards(comp, n, nz):
                    v = self.space.var(text)
                    out.append(v if pol else f_not(v))
        return f_and(*out)

    def _fail_caught(self, n: Node, func: FuncInfo) -> bool:
        """Is a ParseInterrupt / ConvertError raised by a delegation at ``n`` caught in this function?"""
        from ..cfg import catches
        for tr in reversed(n.tries):
            for h in tr.handlers:
                hc = handler_classes(self.model, func, h)
                if hc and (catches(self.model, hc, PI) or catches(self.model, hc, CONVERT_ERROR)):
                    return True
        return False

    def _helper_caught(self, n: Node, func: FuncInfo) -> bool:
        return self._fail_caught(n, func)

    def _sub_result_fail(self, v: ast.AST, n: Node, nz: Normalizer, func: FuncInfo) -> t.Optional[t.Any]:
        """``v`` denotes the result of <sub>.collect_errors(arg) (directly or through a local): FAILS var."""
        form = nz.expr(v, n)
        m = re.match(r'^(.*)\.collect_errors\((.*)\)$', form)
        if m and is_subconv_form(m.group(1), self.attrs):
            return self.space.var(f"FAILS({m.group(1)} <- {m.group(2)})", func.loc(v))
        if form == 'EXC.tree':
            # handler of `except ConvertError as e`: reached only when the delegation failed
            return TRUE
        return None

    def _guarded_by_result_test(self, cfg: CFG, n: Node, nz: Normalizer) -> bool:
        for a in cfg.nodes:
            if a.kind == 'cond' and '.collect_errors(' in nz.literal(a.ast, a)[0]:
                for lb in ('T', 'F'):
                    if a.edge(lb) and cfg.edge_dominates(a, lb, n):
                        return True
        return False

    def _edge_cond(self, n: Node, lb: str, m: Node, func: FuncInfo, cfg: CFG, nz: Normalizer, acc: Accumulators,
                   reject_desc: t.Set[str], fails_here: t.Any, helper_here: t.Any = FALSE) -> t.Any:
        if n.kind == 'cond':
            f = self._test_formula(n.ast, n, nz, {}, func, reject_desc, helper_here)
            # (a test that raises into a local handler takes neither branch)
            raised = self._exc_cond(n, func, nz, cfg, fails_here) if any(l2 == 'exc' for (l2, _x) in n.succ) else FALSE
            if f is None:
                return (TRUE if raised == FALSE else f_not(raised)) if lb in ('T', 'F') else self._exc_cond(n, func, nz, cfg, fails_here)
            if lb == 'T':
                return f if raised == FALSE else f_and(f, f_not(raised))
            if lb == 'F':
                return f_not(f) if raised == FALSE else f_and(f_not(f), f_not(raised))
            return self._exc_cond(n, func, nz, cfg, fails_here)
        if n.kind == 'iter':
            if lb == 'T':
                gs = []
                for (text, pol) in self.helper._loop_guards(n, nz):
                    v = self.space.var(text, func.loc(n.ast))
                    gs.append(v if pol else f_not(v))
                return f_and(*gs)
            if lb == 'F':
                return TRUE
            return self._exc_cond(n, func, nz, cfg, fails_here)
        if n.kind == 'handler':
            return TRUE if lb == 'T' else FALSE
        if lb == 'exc':
            if n.kind == 'raise':
                return TRUE
            return self._exc_cond(n, func, nz, cfg, fails_here)
        # normal continuation of a node that may fail / raise into a local handler
        if any(l2 == 'exc' for (l2, _x) in n.succ) and n.kind != 'raise':
            return f_not(self._exc_cond(n, func, nz, cfg, fails_here))
        if fails_here != FALSE and self.mode == 'try':
            return f_not(fails_here)
        return TRUE

    def _exc_cond(self, n: Node, func: FuncInfo, cfg_nz: Normalizer, cfg: CFG, fails_here: t.Any) -> t.Any:
        parts = []
        if fails_here != FALSE:
            parts.append(fails_here)
        ops = self._node_ops(n, func, cfg_nz)
        for op in ops:
            parts.append(self.space.var(f"RAISES({op})", func.loc(n.ast) if n.ast is not None else ''))
        return f_or(*parts)

    def _node_ops(self, n: Node, func: FuncInfo, nz: Normalizer) -> t.List[str]:
        ops: t.Set[str] = set()
        for root in node_exprs(n):
            for sub in walk_no_nested(root):
                if isinstance(sub, ast.Call):
                    callee = nz.expr(sub.func, n, {})
                    short = callee[len('builtins.'):] if callee.startswith('builtins.') else callee
                    if short in TOTAL_BUILTINS or callee.startswith(('traceback.', 'typing.')) or callee in self.err_classes:
                        continue
                    if self.helper._is_exception_class(callee):
                        continue
                    if isinstance(sub.func, ast.Attribute) and sub.func.attr in SUB_METHODS and is_subconv_form(nz.expr(sub.func.value, n, {}), self.attrs):
                        continue
                    if isinstance(sub.func, ast.Attribute) and sub.func.attr in NON_VERDICT_METHODS:
                        continue
                    if isinstance(sub.func, ast.Attribute) and sub.func.attr in UNCHECKED_CTORS:
                        ops.add(f"UNCHECKED_CTOR({nz.expr(sub.func.value, n, {})})")
                        continue
                    if isinstance(sub.func, ast.Attribute) and isinstance(sub.func.value, ast.Name) and nz.expr(sub.func.value, n, {}).startswith('ACC{'):
                        continue
                    ops.add(callee)
                elif isinstance(sub, ast.Subscript) and isinstance(sub.ctx, ast.Load):
                    b = nz.expr(sub.value, n, {})
                    if b.startswith('self.') or b.startswith('VAL'):
                        ops.add(b + '[]')
        return sorted(ops)

    def _resolve_comprehension(self, test: ast.AST, node: Node, nz: Normalizer
                               ) -> t.Optional[t.Tuple[Node, t.Any, bool]]:
        """``x`` / ``len(x)`` / ``len(x) != 0`` ... where the local ``x`` is defined once as a filtered comprehension:
        (defining node, comprehension, polarity)."""
        positive = True
        e = test
        if isinstance(e, ast.Compare) and len(e.ops) == 1 and isinstance(e.comparators[0], ast.Constant) and e.comparators[0].value == 0 \
                and isinstance(e.ops[0], (ast.Eq, ast.NotEq, ast.Gt)):
            positive = not isinstance(e.ops[0], ast.Eq)
            e = e.left
        if isinstance(e, ast.Call) and isinstance(e.func, ast.Name) and e.func.id == 'len' and len(e.args) == 1:
            e = e.args[0]
        if not isinstance(e, ast.Name) or not nz.rd.is_local(e.id):
            return None
        defs = nz.rd.at(node, e.id)
        if len(defs) != 1 or defs[0].kind != 'assign' or defs[0].path:
            return None
        v = defs[0].value
        if isinstance(v, ast.Call) and isinstance(v.func, ast.Name) and v.func.id in ('set', 'list', 'tuple', 'frozenset') and len(v.args) == 1:
            v = v.args[0]
        if isinstance(v, (ast.SetComp, ast.ListComp, ast.DictComp, ast.GeneratorExp)) and any(g.ifs for g in v.generators):
            return defs[0].node, v, positive
        return None

    def _flag_formula(self, test: ast.AST, node: Node, nz: Normalizer, bound: t.Dict[str, str], func: FuncInfo,
                      reject_desc: t.Set[str]) -> t.Optional[t.Any]:
        """``ok = bool(cond(x))`` in a ``try``, ``ok = False`` in its handler, ``if not ok: raise`` afterwards: the flag is true iff one
        of its assignments completed (its statement was reached and did not raise) with a true value."""
        ctx = getattr(self, '_flag_ctx', None)
        if ctx is None or not isinstance(test, ast.Name) or test.id in bound:
            return None
        cfg, reach, fails, cfunc = ctx
        if cfunc is not func:
            return None
        rd = cfg.reaching()
        if not rd.is_local(test.id):
            return None
        defs = rd.at(node, test.id)
        if len(defs) < 2 or not all(d.kind == 'assign' and d.value is not None and not d.path for d in defs):
            return None
        parts = []
        for d in defs:
            if d.node.id not in reach:
                return None
            v = d.value
            while isinstance(v, ast.Call) and isinstance(v.func, ast.Name) and v.func.id == 'bool' and len(v.args) == 1 and not v.keywords:
                v = v.args[0]
            if isinstance(v, ast.Constant):
                vf = TRUE if v.value else FALSE
            else:
                vf = self._test_formula(v, d.node, nz, {}, func, reject_desc)
                if vf is None:
                    return None
            done = reach[d.node.id]
            if any(lb == 'exc' for (lb, _m) in d.node.succ):
                done = f_and(done, f_not(self._exc_cond(d.node, func, nz, cfg, fails.get(d.node.id, FALSE))))
            parts.append(f_and(done, vf))
        return f_or(*parts)

    def _test_formula(self, test: ast.AST, node: Node, nz: Normalizer, bound: t.Dict[str, str], func: FuncInfo,
                      reject_desc: t.Set[str], helper_here: t.Any = FALSE) -> t.Optional[t.Any]:
        """Formula of a branch condition; None when the condition carries no verdict information (unknown)."""
        if isinstance(test, ast.BoolOp):
            parts = [self._test_formula(v, node, nz, bound, func, reject_desc, helper_here) for v in test.values]
            if any(p is None for p in parts):
                known = [p for p in parts if p is not None]
                return None if not known else (f_and(*known) if isinstance(test.op, ast.And) else None)
            return f_and(*parts) if isinstance(test.op, ast.And) else f_or(*parts)
        if isinstance(test, ast.UnaryOp) and isinstance(test.op, ast.Not):
            f = self._test_formula(test.operand, node, nz, bound, func, reject_desc, helper_here)
            return None if f is None else f_not(f)
        if isinstance(test, ast.Compare) and len(test.ops) > 1:
            parts = []
            left = test.left
            for op, right in zip(test.ops, test.comparators):
                parts.append(self._test_formula(ast.Compare(left=left, ops=[op], comparators=[right]), node, nz, bound, func, reject_desc, helper_here))
                left = right
            if any(p is None for p in parts):
                return None
            return f_and(*parts)
        if isinstance(test, ast.Call) and isinstance(test.func, ast.Attribute) and not test.args and not test.keywords:
            inl = self.helper._inline_bool_helper(test, node, nz, bound)
            if inl is not None:
                sub_nz, body, sub_node = inl
                return self._test_formula(body, sub_node, sub_nz, {}, func, reject_desc)
        # truthiness / emptiness of a filtered comprehension: "some element satisfies the filter"
        comp = self._resolve_comprehension(test, node, nz)
        if comp is not None:
            cnode, cast, positive = comp
            b: t.Dict[str, str] = {}
            parts2: t.List[t.Any] = []
            ok = True
            for g in cast.generators:
                b, _ = nz.comp_bindings([g], cnode, b, 0)
                for c in g.ifs:
                    fc = self._test_formula(c, cnode, nz, b, func, reject_desc, helper_here)
                    if fc is None:
                        ok = False
                    else:
                        parts2.append(fc)
            if ok and parts2:
                f = f_and(*parts2)
                return f if positive else f_not(f)
        flag = self._flag_formula(test, node, nz, bound, func, reject_desc)
        if flag is not None:
            return flag
        text, pos = nz.literal(test, node, bound)
        # tests on the result of a delegation
        m = re.match(r'^None is (.*)\.collect_errors\((.*)\)$', text) or re.match(r'^(.*)\.collect_errors\((.*)\) is None$', text)
        if m and is_subconv_form(m.group(1), self.attrs):
            v = self.space.var(f"FAILS({m.group(1)} <- {m.group(2)})", func.loc(test))
            # text is "<result> is None": true iff the delegation did not fail
            f = f_not(v)
            return f if pos else f_not(f)
        # tests on the (error-node-or-None) result of a self-helper of the diagnostic pass
        mh = re.match(r'^None is self\.(\w+)\((.*)\)$', text) or re.match(r'^self\.(\w+)\((.*)\) is None$', text)
        if mh and self.helper.model.find_method(self.cls.qualname, mh.group(1)) is not None and self.mode == 'collect':
            f = f_not(helper_here)      # "<result> is None"  iff  the helper does not reject
            return f if pos else f_not(f)
        if 'EXC' in text or '_collect_errors(' in text or '.collect_errors(' in text or '.convert(' in text:
            return None
        mt = re.match(r'^TRUTHY\((ACC\{.*\})\)$', text)
        if mt and mt.group(1) in reject_desc:
            return FALSE if pos else TRUE
        v = self.space.var(text, func.loc(test))
        return v if pos else f_not(v)


def _noop() -> None:
    return None


def compare_passes(model: Model, cls: ClassInfo) -> t.Dict[str, t.Any]:
    from .pairs import pass_entry
    space = Space()
    pt = PassFormula(model, cls, 'try', space)
    ft = pt.reject(pass_entry(model, cls, 'try_convert'), {})
    pc = PassFormula(model, cls, 'collect', space)
    fc = pc.reject(pass_entry(model, cls, 'collect_errors'), {})
    order = sorted(space.names)
    if len(order) > MAX_VARS:
        raise AnalysisError(f"{cls.qualname}: {len(order)} distinct verdict literals, more than the comparison can enumerate ({MAX_VARS})")
    tt = evaluate(ft, order)
    tc = evaluate(fc, order)
    res: t.Dict[str, t.Any] = {'vars': order, 'equal': tt == tc, 'functions': sorted(set(pt.functions + pc.functions)),
                               'guarded_try': pt.guarded, 'guarded_collect': pc.guarded, 'locs': space.locs}
    if tt != tc:
        diff = tt ^ tc
        # support: variables the disagreement depends on
        n = len(order)
        dep = []
        for i, nm in enumerate(order):
            block = ((1 << (1 << i)) - 1) << (1 << i)
            rep = ((1 << (1 << n)) - 1) // ((1 << (1 << (i + 1))) - 1)
            mask = block * rep
            hi = (diff & mask) >> (1 << i)
            lo = diff & (mask >> (1 << i))
            if hi != lo:
                dep.append(nm)
        row = (diff & -diff).bit_length() - 1
        true_vars = [nm for i, nm in enumerate(order) if (row >> i) & 1]
        res.update({'witness_true': true_vars, 'fast_rejects': bool((tt >> row) & 1), 'depends_on': dep,
                    'only_fast': bool(tt & ~tc), 'only_diag': bool(tc & ~tt)})
    return res
