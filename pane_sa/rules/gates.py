"""C02: strictness — kind predicates, gate dominance, scalar acceptance table, no pre-coercion (DESIGN §4)."""
from __future__ import annotations

import ast
import re
import typing as t

from .. import anchors
from ..cfg import CFG, Node, cfg_of, node_exprs, walk_no_nested
from ..family import (CONVERTER, SUB_METHODS, conversion_zone, family, find_subcalls, subconv_attrs, walk_with_bindings)
from ..model import AnalysisError, ClassInfo, FuncInfo, Model, unparse
from ..norm import Normalizer, canon_class
from ..report import RuleResult

STRLIKE = {'builtins.str', 'builtins.bytes', 'builtins.bytearray'}
SEQ_CLASSES = {'collections.abc.Sequence', 'collections.abc.Iterable', 'builtins.list', 'builtins.tuple'}
MAP_CLASSES = {'builtins.dict', 'collections.abc.Mapping', 'collections.abc.MutableMapping'}
MAP_METHODS = {'items', 'keys', 'values', 'pop', 'get', 'copy', 'popitem', 'setdefault'}


def _isinstance_classes(atom: str) -> t.Optional[t.Tuple[str, t.Set[str]]]:
    m = re.match(r'^isinstance\((.+), \{(.*)\}\)$', atom)
    if not m:
        return None
    return m.group(1), {x.strip() for x in m.group(2).split(',') if x.strip()}


def predicate_literals(model: Model, qual: str) -> t.List[t.Tuple[str, bool]]:
    """Flattened literals of a one-expression predicate ``def p(val): return <expr>``."""
    f = model.func(qual)
    cfg = cfg_of(model, f)
    nz = Normalizer(model, f, cfg, param_map={f.params[0]: 'VAL'})
    rets = [n for n in cfg.nodes if n.kind == 'return' and n.ast is not None and n.ast.value is not None]
    if len(rets) != 1:
        raise AnalysisError(f"{f.loc()}: {qual} is not a one-expression predicate")
    out: t.List[t.Tuple[str, bool]] = []

    def walk(e: ast.expr, want: bool) -> None:
        if isinstance(e, ast.BoolOp):
            for v in e.values:
                walk(v, want)
        elif isinstance(e, ast.UnaryOp) and isinstance(e.op, ast.Not):
            walk(e.operand, not want)
        else:
            a, pos = nz.literal(e, rets[0])
            out.append((a, pos == want))
    walk(rets[0].ast.value, True)
    # conjunction required: reject ``or`` at top level for the negative part
    return out


def rule_c02_r1(model: Model) -> RuleResult:
    """Decided on the classifier's outcome formula evaluated on abstract worlds (classifier.py), whatever the shape of the code:
    text-like values are never sequences / iterables of elements, only instances of the guarded ABC are accepted, and the mapping
    classifier accepts mappings only."""
    import collections
    from ..classifier import Classifier
    r = RuleResult('C02-R1', 'sequence / iterable predicates exclude str, bytes, bytearray; mapping predicate tests mappings only', floor=3)
    spec = {
        'data_is_sequence': {'refuse': [str, bytes, bytearray, int, float, type(None), dict, set, frozenset, 'Iterable', 'Mapping', 'Set'],
                             'why': 'is-a-Sequence and not text-like'},
        'data_is_iterable': {'refuse': [str, bytes, bytearray, int, float, type(None)],
                             'why': 'is-an-Iterable and not text-like'},
        'data_is_mapping': {'refuse': [str, bytes, bytearray, int, float, type(None), list, tuple, set, frozenset, range, 'Sequence', 'Iterable', 'Set'],
                            'why': 'exactly mappings (dict / Mapping)'},
    }
    _ = collections
    for name, sp in spec.items():
        q = f'pane.converters.{name}'
        f = model.func(q)
        r.instances += 1
        r.analysed.add(q)
        c = Classifier(model, f)
        answers = {(w.__name__ if isinstance(w, type) else f'plain {w}'): c.answer(w) for w in sp['refuse']}
        r.sample({'predicate': name, 'tests': c.atoms, 'answers': answers})
        bad = [w for w, a in answers.items() if a != 'F']
        if c.opaque:
            r.fail(q, f"literal {c.opaque[0]}", f.loc(), f"{name} tests something other than the kind of its argument")
        elif bad:
            text = [w for w in bad if w in ('str', 'bytes', 'bytearray')]
            if text:
                r.fail(q, f"does not exclude {sorted(text)}", f.loc(),
                       f"{name} lets {', '.join(sorted(text))} through as a sequence of elements")
            else:
                r.fail(q, f"accepts {sorted(bad)}", f.loc(), f"{name} accepts kinds beyond the documented ones (must be: {sp['why']})")
        else:
            r.ok()
    return r


# ---------------------------------------------------------------------------- gate dominance


class Gate:
    nz: Normalizer

    def __init__(self, var: str, kind: str, node: Node, label: str, text: str):
        self.var = var
        self.kind = kind   # 'seq' | 'map' | 'weakseq'
        self.node = node
        self.label = label
        self.text = text


def gates_in(model: Model, func: FuncInfo, cfg: CFG, nz: Normalizer) -> t.List[Gate]:
    out: t.List[Gate] = []
    for n in cfg.nodes:
        if n.kind != 'cond':
            continue
        atom, pos = nz.literal(n.ast, n)
        lb_true = 'T' if pos else 'F'
        lb_false = 'F' if pos else 'T'
        m = re.match(r'^pane\.converters\.(data_is_sequence|data_is_iterable|data_is_mapping)\((.+)\)$', atom)
        if m:
            kind = {'data_is_sequence': 'seq', 'data_is_iterable': 'iter', 'data_is_mapping': 'map'}[m.group(1)]
            out.append(Gate(m.group(2), kind, n, lb_true, atom))
            continue
        ic = _isinstance_classes(atom)
        if ic is not None:
            var, classes = ic
            if classes <= MAP_CLASSES:
                out.append(Gate(var, 'map', n, lb_true, atom))
            elif classes & SEQ_CLASSES and not (classes & STRLIKE):
                out.append(Gate(var, 'weakseq', n, lb_true, atom))
            if STRLIKE <= classes:
                out.append(Gate(var, 'nottext', n, lb_false, atom))
    for g in out:
        g.nz = nz
    return out


def structural_uses(func: FuncInfo, cfg: CFG, nz: Normalizer, var_forms: t.Set[str]) -> t.List[t.Tuple[Node, ast.AST, str, str]]:
    """(node, ast, use kind, text) for structural uses of a value whose normal form is in ``var_forms``."""
    out = []
    live = cfg.reachable()
    for n in cfg.nodes:
        if n.id not in live:
            continue
        if n.kind == 'iter':
            it = n.ast.iter  # type: ignore[attr-defined]
            for (sub, kind) in _iter_sources(it):
                if nz.expr(sub, n) in var_forms:
                    out.append((n, sub, kind, f"for ... in {unparse(it)}"))
        for root in node_exprs(n):
            if n.kind == 'iter' and root is getattr(n.ast, 'target', None):
                continue
            for sub, bound in walk_with_bindings(root, nz, n):
                if isinstance(sub, (ast.GeneratorExp, ast.ListComp, ast.SetComp, ast.DictComp)):
                    for g in sub.generators:
                        for (src, kind) in _iter_sources(g.iter):
                            if nz.expr(src, n, bound) in var_forms:
                                out.append((n, src, kind, f"comprehension over {unparse(g.iter)}"))
                elif isinstance(sub, ast.Call):
                    f = sub.func
                    if isinstance(f, ast.Name) and f.id in ('len',) and sub.args and nz.expr(sub.args[0], n, bound) in var_forms:
                        out.append((n, sub.args[0], 'len', unparse(sub)))
                    elif isinstance(f, ast.Name) and f.id in ('map', 'zip', 'enumerate', 'list', 'tuple', 'iter', 'sorted', 'reversed', 'set'):
                        if n.kind == 'iter' and any(sub is x for x in ast.walk(n.ast.iter)):  # type: ignore[attr-defined]
                            continue
                        for a in sub.args[(1 if f.id == 'map' else 0):]:
                            if nz.expr(a, n, bound) in var_forms:
                                out.append((n, a, 'seq', unparse(sub)))
                    elif isinstance(f, ast.Attribute) and f.attr in MAP_METHODS and nz.expr(f.value, n, bound) in var_forms:
                        out.append((n, f.value, 'map', unparse(sub)))
                    elif isinstance(f, ast.Name) and f.id == 'len' and False:
                        pass
                elif isinstance(sub, ast.Subscript) and isinstance(sub.ctx, ast.Load) and nz.expr(sub.value, n, bound) in var_forms:
                    out.append((n, sub.value, 'index', unparse(sub)))
    return out


def _iter_sources(it: ast.AST) -> t.List[t.Tuple[ast.AST, str]]:
    """Expressions iterated over (directly or through enumerate / zip / x.items())."""
    if isinstance(it, ast.Call):
        f = it.func
        if isinstance(f, ast.Name) and f.id in ('enumerate', 'zip', 'reversed', 'sorted', 'iter', 'list', 'tuple'):
            out = []
            for a in it.args:
                out += _iter_sources(a)
            return out
        if isinstance(f, ast.Name) and f.id in ('map', 'filter') and len(it.args) == 2:
            return _iter_sources(it.args[1])
        if isinstance(f, ast.Attribute) and f.attr in ('items', 'keys', 'values') and not it.args:
            return [(f.value, 'map')]
        if isinstance(f, ast.Attribute) and f.attr == 'cast' and len(it.args) == 2:
            return _iter_sources(it.args[1])
        return []
    if isinstance(it, ast.GeneratorExp):
        out = []
        for g in it.generators:
            out += _iter_sources(g.iter)
        return out
    return [(it, 'seq')]


def rule_c02_r2(model: Model) -> RuleResult:
    return _rule_structural_uses(model, False)


def rule_c09_r3(model: Model) -> RuleResult:
    """C09 / C03: the two passes each walk the input once; an input admitted merely as "iterable" (a generator, a file, a map object)
    is consumed by the first walk: the caller's value is exhausted and the second pass sees nothing."""
    return _rule_structural_uses(model, True)


def _rule_structural_uses(model: Model, reiterable: bool) -> RuleResult:
    if reiterable:
        r = RuleResult('C09-R3', 'the raw input is iterated only behind a gate that admits re-iterable values (sequence / mapping), never a bare iterable',
                       floor=20)
    else:
        r = RuleResult('C02-R2', 'every structural use of the raw input is dominated by a kind gate that excludes text', floor=20)
    zone = conversion_zone(model)
    for cls in family(model):
        funcs = {f.name: f for f in zone[cls.qualname]}
        # gates established by callers for helper parameters: helper qualname -> {param name: set(kinds)}
        incoming: t.Dict[str, t.Dict[str, t.Set[str]]] = {}
        order = [f for f in zone[cls.qualname] if f.name in ('try_convert', 'collect_errors')] + \
                [f for f in zone[cls.qualname] if f.name not in ('try_convert', 'collect_errors')]
        for _round in range(3):
            for f in order:
                cfg = cfg_of(model, f)
                nz = Normalizer(model, f, cfg)
                gts = gates_in(model, f, cfg, nz)
                for n in cfg.live_nodes():
                    for root in node_exprs(n):
                        for sub in walk_no_nested(root):
                            if isinstance(sub, ast.Call) and isinstance(sub.func, ast.Attribute) and isinstance(sub.func.value, ast.Name) \
                                    and sub.func.value.id in ('self', cls.name) and sub.func.attr in funcs and funcs[sub.func.attr] is not f:
                                callee = funcs[sub.func.attr]
                                cps = callee.params[1:] if callee.params and callee.params[0] in ('self', 'cls') else callee.params
                                for p, a in zip(cps, sub.args):
                                    form = nz.expr(a, n)
                                    kinds = _kinds_at(cfg, gts, n, form) | _inherited(incoming, f, form, nz)
                                    cur = incoming.setdefault(callee.qualname, {})
                                    cur[p] = (cur[p] & kinds) if p in cur else set(kinds)
        for f in zone[cls.qualname]:
            cfg = cfg_of(model, f)
            nz = Normalizer(model, f, cfg)
            r.analysed.add(f.qualname)
            gts = gates_in(model, f, cfg, nz)
            data_params = f.params[1:] if f.params and f.params[0] in ('self', 'cls') else f.params
            forms = {}
            for i, p in enumerate(data_params):
                forms[nz.param_map.get(p, f'${p}')] = p
            for (n, sub, ukind, text) in structural_uses(f, cfg, nz, set(forms)):
                r.instances += 1
                form = next(iter(forms)) if len(forms) == 1 else nz.expr(sub, n)
                kinds = _kinds_at(cfg, gts, n, form) | _inherited(incoming, f, form, nz)
                need_map = ukind == 'map'
                ok = ('map' in kinds) if need_map else bool(kinds & {'seq', 'map', 'iter'} or ({'weakseq', 'nottext'} <= kinds))
                r.sample({'function': f.qualname, 'use': text, 'gates': sorted(kinds)})
                if reiterable:
                    if not ok or kinds & {'seq', 'map', 'weakseq'}:
                        r.ok()      # (ungated uses are C02-R2's finding)
                    else:
                        r.fail(f.qualname, f"{ukind} use `{text}` behind {sorted(kinds)} only", f.loc(sub),
                               "a one-shot iterable (generator, iterator, map object) is admitted and consumed: the caller's value is empty "
                               "afterwards, and when the fast pass fails half-way the diagnostic pass sees only the rest")
                    continue
                if ok:
                    r.ok()
                else:
                    weak = 'weakseq' in kinds
                    r.fail(f.qualname, f"{ukind} use `{text}`", f.loc(sub),
                           ("the input is gated by a bare Sequence/list/tuple test that also admits str / bytes / bytearray: "
                            "text would be taken apart character by character" if weak else
                            "structural use of the raw input is not dominated by a kind gate (data_is_sequence / data_is_mapping): "
                            "a value of the wrong kind is iterated / indexed instead of being rejected"))
    return r


def _base_of(sub: ast.AST) -> ast.AST:
    if isinstance(sub, ast.Call):
        f = sub.func
        if isinstance(f, ast.Attribute):
            return f.value
        if isinstance(f, ast.Name) and sub.args:
            return sub.args[-1] if f.id == 'map' else sub.args[0]
    if isinstance(sub, ast.Subscript):
        return sub.value
    return sub


_REACH: t.Dict[int, t.Any] = {}


def _kinds_at(cfg: CFG, gts: t.List[Gate], n: Node, form: str) -> t.Set[str]:
    """Kinds established for ``form`` at node ``n``: the gate's passing edge dominates ``n``, or the gate's outcome is implied by the
    reaching condition of ``n`` (correlated tests, e.g. after `if not seq and not map: reject` / `if seq: ... else: <here>`)."""
    out: t.Set[str] = set()
    reach = None
    for g in gts:
        if g.var != form or not g.node.edge(g.label):
            continue
        if cfg.edge_dominates(g.node, g.label, n):
            out.add(g.kind)
            continue
        if reach is None:
            key = id(cfg)
            if key not in _REACH:
                from ..reach import Reach
                _REACH[key] = (cfg, Reach(cfg, g.nz))      # keep cfg alive with its entry
            reach = _REACH[key][1]
        lit = g.nz.literal(g.node.ast, g.node)
        passing_truth = lit[1] if g.label == 'T' else (not lit[1])
        if reach.implied(n, lit[0], passing_truth):
            out.add(g.kind)
    return out


def _inherited(incoming: t.Dict[str, t.Dict[str, t.Set[str]]], f: FuncInfo, form: str, nz: Normalizer) -> t.Set[str]:
    inc = incoming.get(f.qualname, {})
    for p, kinds in inc.items():
        if nz.param_map.get(p, f'${p}') == form:
            return set(kinds)
    return set()


# ---------------------------------------------------------------------------- scalar table


def scalar_rows(model: Model) -> t.Dict[str, t.Dict[str, t.Any]]:
    tbl = model.table('pane.converters', anchors.short(anchors.scalar_table(model)))
    m = model.module('pane.converters')
    if not isinstance(tbl, ast.Dict):
        raise AnalysisError("pane.converters._BASIC_CONVERTERS is not a dict display")
    rows: t.Dict[str, t.Dict[str, t.Any]] = {}
    for k, v in zip(tbl.keys, tbl.values):
        if k is None:
            raise AnalysisError("_BASIC_CONVERTERS uses ** unpacking")
        kq = _type_name(model, m, k)
        row: t.Dict[str, t.Any] = {'key': kq, 'node': v, 'conv': None, 'allowed': None, 'ty': None, 'into': None}
        if isinstance(v, ast.Call):
            row['conv'] = (model.resolve(v.func, m) or '').split('.')[-1]
            if row['conv'] == 'ScalarConverter':
                args = list(v.args)
                kws = {kw.arg: kw.value for kw in v.keywords}
                ty = args[0] if args else kws.get('ty')
                allowed = args[1] if len(args) > 1 else kws.get('allowed')
                into = args[4] if len(args) > 4 else kws.get('_into_data_f')
                row['ty'] = _type_name(model, m, ty) if ty is not None else None
                if allowed is not None:
                    elts = allowed.elts if isinstance(allowed, ast.Tuple) else [allowed]
                    row['allowed'] = {_type_name(model, m, e) for e in elts}
                row['into'] = _type_name(model, m, into) if into is not None else 'identity'
            elif v.args:
                row['ty'] = _type_name(model, m, v.args[0])
        rows[kq] = row
    return rows


def _type_name(model: Model, m: t.Any, e: ast.expr) -> str:
    if isinstance(e, ast.Call) and isinstance(e.func, ast.Name) and e.func.id == 'type' and len(e.args) == 1 \
            and isinstance(e.args[0], ast.Constant) and e.args[0].value is None:
        return 'builtins.NoneType'
    q = model.resolve(e, m)
    if q is None:
        if isinstance(e, ast.Lambda):
            return 'lambda'
        raise AnalysisError(f"{m.relpath}:{getattr(e, 'lineno', 0)}: cannot resolve type expression `{unparse(e)}`")
    return canon_class(q)


def rule_c02_r3(model: Model) -> RuleResult:
    r = RuleResult('C02-R3', 'scalar acceptance table: no cross-kind cell, lossless widenings only, every interchange scalar has a row', floor=12)
    rows = scalar_rows(model)
    m = model.module('pane.converters')
    B = 'builtins.'
    num = {B + 'int', B + 'float', B + 'complex'}
    loc = lambda row: f"{m.relpath}:{row['node'].lineno}"  # noqa: E731
    forbidden: t.Dict[str, t.Set[str]] = {
        B + 'int': {B + 'float', B + 'complex', B + 'str', B + 'bytes', B + 'bytearray', B + 'bool', B + 'NoneType'},
        B + 'float': {B + 'complex', B + 'str', B + 'bytes', B + 'bytearray', B + 'bool', B + 'NoneType'},
        B + 'complex': {B + 'str', B + 'bytes', B + 'bytearray', B + 'bool', B + 'NoneType'},
        B + 'str': {B + 'int', B + 'float', B + 'complex', B + 'bytes', B + 'bytearray', B + 'bool', B + 'NoneType'},
        B + 'bytes': {B + 'int', B + 'float', B + 'complex', B + 'str', B + 'bool', B + 'NoneType'},
        B + 'bytearray': {B + 'int', B + 'float', B + 'complex', B + 'str', B + 'bool', B + 'NoneType'},
        B + 'bool': {B + 'int', B + 'float', B + 'complex', B + 'str', B + 'bytes', B + 'bytearray', B + 'NoneType'},
    }
    required: t.Dict[str, t.Set[str]] = {
        B + 'int': {B + 'int'}, B + 'float': {B + 'int', B + 'float'}, B + 'complex': {B + 'int', B + 'float', B + 'complex'},
        B + 'str': {B + 'str'}, B + 'bytes': {B + 'bytes'}, B + 'bytearray': {B + 'bytearray'}, B + 'bool': {B + 'bool'},
    }
    for key, row in rows.items():
        r.instances += 1
        r.sample({'row': key.split('.')[-1], 'converter': row['conv'],
                  'allowed': sorted(x.split('.')[-1] for x in row['allowed']) if row['allowed'] else None})
        if row['conv'] == 'ScalarConverter':
            if row['ty'] != key:
                r.fail('pane.converters._BASIC_CONVERTERS', f"row {key} builds {row['ty']}", loc(row), f"the table row for {key} constructs {row['ty']}")
            else:
                r.ok()
            if row['allowed'] is None:
                raise AnalysisError(f"{loc(row)}: cannot read the allowed kinds of row {key}")
            bad = row['allowed'] & forbidden.get(key, {B + 'NoneType'})
            if bad:
                r.fail('pane.converters._BASIC_CONVERTERS', f"row {key.split('.')[-1]} allows {sorted(x.split('.')[-1] for x in bad)}", loc(row),
                       f"{', '.join(sorted(x.split('.')[-1] for x in bad))} would be coerced to {key.split('.')[-1]} (cross-kind coercion)")
            else:
                r.ok()
            miss = required.get(key, {key}) - row['allowed']
            if miss:
                r.fail('pane.converters._BASIC_CONVERTERS', f"row {key.split('.')[-1]} lacks {sorted(x.split('.')[-1] for x in miss)}", loc(row),
                       f"{key.split('.')[-1]} no longer accepts {', '.join(sorted(x.split('.')[-1] for x in miss))} (its own kind / the lossless widening)")
            else:
                r.ok()
        elif row['conv'] == 'NoneConverter':
            if key != B + 'NoneType':
                r.fail('pane.converters._BASIC_CONVERTERS', f"row {key} uses NoneConverter", loc(row), "NoneConverter serves a type other than NoneType")
            else:
                r.ok()
        elif row['conv'] == 'DatetimeConverter':
            if row['ty'] != key:
                r.fail('pane.converters._BASIC_CONVERTERS', f"row {key} builds {row['ty']}", loc(row), "datetime row constructs a different type")
            else:
                r.ok()
        else:
            r.fail('pane.converters._BASIC_CONVERTERS', f"row {key}: {row['conv']}", loc(row), "unrecognised converter in the scalar table")
    # exhaustiveness over the interchange scalars
    st = model.table('pane.convert', '_ScalarType')
    cm = model.module('pane.convert')
    if not isinstance(st, ast.Tuple):
        raise AnalysisError("pane.convert._ScalarType is not a tuple display")
    for e in st.elts:
        q = _type_name(model, cm, e)
        r.instances += 1
        if q in rows:
            r.ok()
        else:
            r.fail('pane.converters._BASIC_CONVERTERS', f"no row for {q.split('.')[-1]}", f"{m.relpath}:{model.table('pane.converters', anchors.short(anchors.scalar_table(model))).lineno}",
                   f"interchange scalar {q.split('.')[-1]} has no row: it falls through to a subclass delegate or is unsupported")
    # NoneConverter accepts by identity only; ScalarConverter constructs only behind its isinstance gate
    nc = model.cls('pane.converters.NoneConverter')
    for mname in ('try_convert', 'collect_errors'):
        f = nc.methods.get(mname)
        if f is None:
            raise AnalysisError(f"NoneConverter.{mname} not found")
        cfg = cfg_of(model, f)
        nz = Normalizer(model, f, cfg)
        conds = [nz.literal(n.ast, n) for n in cfg.nodes if n.kind == 'cond']
        r.instances += 1
        if conds == [('None is VAL', True)] or conds == [('None is VAL', False)]:
            r.ok()
        else:
            r.fail(f.qualname, f"conditions {conds}", f.loc(), "NoneConverter must accept exactly `val is None`")
    sc = model.cls('pane.converters.ScalarConverter')
    for mname in ('try_convert', 'collect_errors'):
        f = sc.methods.get(mname)
        if f is None:
            raise AnalysisError(f"ScalarConverter.{mname} not found")
        cfg = cfg_of(model, f)
        nz = Normalizer(model, f, cfg)
        gate = [n for n in cfg.nodes if n.kind == 'cond' and nz.literal(n.ast, n)[0] == 'isinstance(VAL, {self.allowed})']
        r.instances += 1
        calls = [n for n in cfg.live_nodes() for root in node_exprs(n) for c in walk_no_nested(root)
                 if isinstance(c, ast.Call) and nz.expr(c.func, n) == 'self.ty']
        if not gate or not calls:
            r.fail(f.qualname, 'isinstance(val, self.allowed) gate', f.loc(), "ScalarConverter no longer gates the constructor by isinstance(val, self.allowed)")
            continue
        g = gate[0]
        pos = nz.literal(g.ast, g)[1]
        if all(cfg.edge_dominates(g, 'T' if pos else 'F', c) for c in calls):
            r.ok()
        else:
            r.fail(f.qualname, 'self.ty(val) outside the gate', f.loc(calls[0].ast), "the target constructor is applied to values whose kind was not checked")
    return r


# ---------------------------------------------------------------------------- no pre-coercion


ALLOWED_WRAPPERS = {'KEY', 'VALUE', 'ELEM', 'INDEX', 'PHI', 'LOOP', 'ITEM', 'pop'}


def rule_c02_r4(model: Model) -> RuleResult:
    r = RuleResult('C02-R4', 'sub-converters receive a projection of the input, never a pre-coerced value', floor=30)
    zone = conversion_zone(model)
    for cls in family(model):
        attrs = subconv_attrs(model, cls)
        for f in zone[cls.qualname]:
            cfg = cfg_of(model, f)
            nz = Normalizer(model, f, cfg)
            r.analysed.add(f.qualname)
            for sc in find_subcalls(model, cls, f, nz, cfg, attrs):
                if sc.method == 'into_data':
                    continue
                r.instances += 1
                names = set(re.findall(r'([A-Za-z_][\w\.]*)\(', sc.arg))
                bad = {x for x in names if x.split('.')[-1] not in ALLOWED_WRAPPERS}
                r.sample({'function': f.qualname, 'receiver': sc.recv, 'argument': sc.arg})
                if bad:
                    r.fail(f.qualname, f"{sc.recv}.{sc.method}({sc.arg})", f.loc(sc.call),
                           f"the value handed to the sub-converter went through {', '.join(sorted(bad))} first: strictness of the element type is bypassed by a coercion")
                else:
                    r.ok()
    return r


KIND_TEST = re.compile(r'isinstance\(VAL\b|\btype\(VAL\)|VAL is None|None is VAL|data_is_\w+\(VAL\)|VAL\.__class__')


def _helper_tests_kind(model: Model, cls: ClassInfo, cond: str) -> bool:
    """``cond`` is `self.<helper>(VAL)`: the helper answers True only under a test of the kind of its argument (decided on the
    helper's outcome formula, whatever its shape: any(...), a loop with early return, nested ifs)."""
    m = re.match(r'^(?:not )?self\.(\w+)\(VAL\)$', cond)
    if not m:
        return False
    g = model.find_method(cls.qualname, m.group(1))
    if g is None or not isinstance(g.node, ast.FunctionDef) or len(g.params) != 2:
        return False
    from ..outcomes import Outcomes, variables
    try:
        oc = Outcomes(model, g, {g.params[0]: 'self', g.params[1]: 'VAL'})
    except AnalysisError:
        return False
    true_f = oc.by_value().get(('return', 'True'))
    if true_f is None:
        return False
    return any(KIND_TEST.search(v) for v in variables(true_f))


def rule_c02_r6(model: Model) -> RuleResult:
    """The raw input is handed back as the converted value only after a test of its kind (equality alone crosses kinds)."""
    r = RuleResult('C02-R6', 'a converter returns the raw input unchanged only under a test of its kind (equality alone accepts True / 1.0 for 1)',
                   floor=2)
    zone = conversion_zone(model)
    for cls in family(model):
        for f in zone[cls.qualname]:
            if 'collect_errors' in f.name or f.name == 'into_data':
                continue
            cfg = cfg_of(model, f)
            nz = Normalizer(model, f, cfg)
            for n in cfg.live_nodes():
                if n.kind != 'return' or n.ast is None or n.ast.value is None:
                    continue
                if nz.expr(n.ast.value, n) != 'VAL':
                    continue
                conds = []
                for (cid, lb) in cfg.conditions_of(n):
                    c = cfg.nodes[cid]
                    if c.kind == 'cond' and c.ast is not None:
                        text, pos = nz.literal(c.ast, c)
                        conds.append(('' if pos == (lb == 'T') else 'not ') + text)
                if not any('VAL' in c for c in conds) or 'try_convert' not in f.name:
                    continue            # accepts every value (Any), or a helper working on an already converted value
                r.instances += 1
                r.analysed.add(f.qualname)
                r.sample({'function': f.qualname, 'returns the input when': [c[:100] for c in conds]})
                if any(KIND_TEST.search(c) for c in conds) or any(_helper_tests_kind(model, cls, c) for c in conds):
                    r.ok()
                else:
                    r.fail(f.qualname, f"return VAL when {'; '.join(conds)[:160]}", f.loc(n.ast),
                           "the input is accepted as it is because it compares equal to an expected value, without a test of its kind: "
                           "True and 1.0 equal 1 (and hash alike), so from_data(True, Literal[1]) is True and from_data(1.0, Literal[1]) is 1.0")
    return r


def rule_c02_r7(model: Model) -> RuleResult:
    """The value judged is the value given: a pass never replaces its input by something that does not derive from it."""
    r = RuleResult('C02-R7', 'no pass replaces its input by a value that does not derive from it (a default, an empty mapping ...) '
                             'before judging it', floor=3)
    zone = conversion_zone(model)
    for cls in family(model):
        for f in zone[cls.qualname]:
            if f.name == 'into_data' or not isinstance(f.node, ast.FunctionDef) or len(f.params) < 2:
                continue
            cfg = cfg_of(model, f)
            nz = Normalizer(model, f, cfg)
            vp = f.params[1]
            if nz.param_map.get(vp) != 'VAL':
                continue
            for d in cfg.reaching().by_name.get(vp, []):
                if d.kind == 'param':
                    continue
                r.instances += 1
                r.analysed.add(f.qualname)
                if d.kind not in ('assign', 'walrus') or d.value is None:
                    form = f'<{d.kind}>'
                else:
                    form = nz._project(d.value, d.path, d.node, 0)
                r.sample({'function': f.qualname, f'{vp} :=': form[:100]})
                if 'VAL' in form:
                    r.ok()
                else:
                    r.fail(f.qualname, f"{vp} = {form[:80]}", f.loc(d.stmt or d.node.ast or f.node),
                           "the input is replaced by a value that has nothing to do with it before its kind is tested: a value of the wrong "
                           "kind (e.g. '' / 0 / None where a mapping is required) is judged as if it were the replacement")
    return r
