"""C05 / C06: writer-reader agreement conditions for the serialise / parse round trip (DESIGN §7, §8)."""
from __future__ import annotations

import ast
import copy
import itertools
import re
import typing as t

from ..cfg import CFG, cfg_of, node_exprs, walk_no_nested
from ..family import CONVERTER, family, find_subcalls, helper_closure, subconv_attrs, walk_with_bindings
from ..model import AnalysisError, ClassInfo, FuncInfo, Model, unparse
from ..norm import Normalizer
from ..report import RuleResult
from .gates import scalar_rows, _type_name

B = 'builtins.'
IDENTITY_CLASSES = ('AnyConverter', 'NoneConverter', 'LiteralConverter')


# ---------------------------------------------------------------------------- C05-R1 / C06-R2


def _scalar_ctor_calls(model: Model) -> t.List[t.Tuple[str, ast.Call, t.Any]]:
    """ScalarConverter(...) constructions outside the table (the PathLike arm of make_converter)."""
    out = []
    mk = model.func('pane.convert.make_converter')
    for c in ast.walk(mk.node):
        if isinstance(c, ast.Call) and (model.resolve(c.func, mk.module, mk) or '').endswith('.ScalarConverter'):
            out.append((mk.qualname, c, mk))
    return out


def rule_writer_reader_kinds(model: Model, rule_id: str = 'C05-R1') -> RuleResult:
    r = RuleResult(rule_id, 'what a scalar converter writes is among the kinds it reads; interchange scalars map to themselves', floor=12)
    rows = scalar_rows(model)
    m = model.module('pane.converters')
    cm = model.module('pane.convert')
    st = model.table('pane.convert', '_ScalarType')
    scalars = {_type_name(model, cm, e) for e in st.elts} if isinstance(st, ast.Tuple) else set()
    for key, row in rows.items():
        if row['conv'] != 'ScalarConverter':
            continue
        r.instances += 1
        loc = f"{m.relpath}:{row['node'].lineno}"
        into = row['into']
        produced = key if into == 'identity' else into
        r.sample({'row': key.split('.')[-1], 'writes': (produced or '?').split('.')[-1], 'reads': sorted(x.split('.')[-1] for x in row['allowed'])})
        if into == 'lambda':
            # a lambda that is just str / repr / identity is as good as the named function; anything else rewrites the value
            call = row['node']
            lam = call.args[4] if isinstance(call, ast.Call) and len(call.args) > 4 else next(
                (k.value for k in getattr(call, 'keywords', []) if k.arg in ('into_data_f', 'into_data')), None)
            simple = None
            if isinstance(lam, ast.Lambda) and len(lam.args.args) == 1:
                p_ = lam.args.args[0].arg
                b_ = lam.body
                if isinstance(b_, ast.Name) and b_.id == p_:
                    simple = 'identity'
                elif isinstance(b_, ast.Call) and isinstance(b_.func, ast.Name) and b_.func.id in ('str', 'repr') and len(b_.args) == 1 \
                        and isinstance(b_.args[0], ast.Name) and b_.args[0].id == p_ and not b_.keywords:
                    simple = 'builtins.str'
            if simple is None:
                r.fail('pane.converters._BASIC_CONVERTERS', f"row {key.split('.')[-1]} is written by {unparse(lam)[:70] if lam is not None else 'an opaque function'}", loc,
                       "the scalar is not written as its own text form (str) but through a transformation: what is read back need not equal "
                       "the value (Decimal.normalize() rounds to the context precision; formatting drops digits or exponents)")
                continue
            produced = key if simple == 'identity' else simple
        if produced not in row['allowed']:
            r.fail('pane.converters._BASIC_CONVERTERS', f"row {key.split('.')[-1]} writes {produced.split('.')[-1]}", loc,
                   f"into_data produces a {produced.split('.')[-1]} which the same converter refuses to read back")
        else:
            r.ok()
        if key in scalars:
            if produced != key:
                r.fail('pane.converters._BASIC_CONVERTERS', f"interchange scalar {key.split('.')[-1]} written as {produced.split('.')[-1]}", loc,
                       f"an interchange scalar must serialise to itself (a {key.split('.')[-1]} stays a {key.split('.')[-1]})")
            else:
                r.ok()
        if key not in row['allowed']:
            r.fail('pane.converters._BASIC_CONVERTERS', f"row {key.split('.')[-1]} refuses its own type", loc,
                   f"an already-typed {key.split('.')[-1]} is not accepted by its own converter (convert is not a fixed point)")
        else:
            r.ok()
    for (where, c, f) in _scalar_ctor_calls(model):
        r.instances += 1
        args = c.args
        if len(args) >= 5:
            allowed = {_type_name(model, f.module, e) for e in (args[1].elts if isinstance(args[1], ast.Tuple) else [args[1]])}
            into = _type_name(model, f.module, args[4])
            r.sample({'arm': 'PathLike', 'writes': into.split('.')[-1], 'reads': sorted(x.split('.')[-1] for x in allowed)})
            if into not in allowed:
                r.fail(where, f"path converter writes {into.split('.')[-1]}", f.loc(c), "the path converter cannot read back what it writes")
            else:
                r.ok()
            if 'os.PathLike' not in allowed:
                r.fail(where, 'path converter refuses PathLike', f.loc(c), "an already-typed path is not accepted by the path converter")
            else:
                r.ok()
        else:
            raise AnalysisError(f"{f.loc(c)}: cannot read the ScalarConverter(...) arguments of the PathLike arm")
    # Datetime / Pattern accept their own output and their own target type, in both passes
    for (cls_q, own, text) in (('pane.converters.DatetimeConverter', {'datetime.datetime', 'datetime.date', 'datetime.time'}, 'str'),
                               ('pane.converters.PatternConverter', {'re.Pattern'}, None)):
        cls = model.cls(cls_q)
        for mname in ('try_convert', 'collect_errors'):
            f = cls.methods.get(mname)
            if f is None:
                raise AnalysisError(f"{cls_q}.{mname} not found")
            tested: t.Set[str] = set()
            # kind tests on the input, in the pass itself or in the self-helpers it calls with the input
            for g in helper_closure(model, cls, mname):
                if g.cls is None or g.cls.qualname == CONVERTER or not isinstance(g.node, ast.FunctionDef):
                    continue
                gcfg = cfg_of(model, g)
                data_params = [p_ for p_ in g.params if p_ not in ('self', 'cls')]
                gnz = Normalizer(model, g, gcfg, param_map={data_params[0]: 'VAL'} if data_params else None)
                for n in gcfg.nodes:
                    if n.kind == 'cond':
                        mt = re.match(r'^isinstance\(VAL, \{(.*)\}\)$', gnz.literal(n.ast, n)[0])
                        if mt:
                            tested |= {x.strip() for x in mt.group(1).split(',')}
            r.instances += 1
            miss = own - tested
            if miss:
                r.fail(f.qualname, f"no branch for {sorted(miss)}", f.loc(), f"{cls.name}.{mname} has no accept branch for an already-typed {sorted(x.split('.')[-1] for x in miss)}")
            else:
                r.ok()
            if text:
                r.instances += 1
                if B + text in tested:
                    r.ok()
                else:
                    r.fail(f.qualname, f"no branch for {text}", f.loc(), f"{cls.name}.{mname} does not read the text form its own into_data writes")
    return r


def rule_c05_r1(model: Model) -> RuleResult:
    return rule_writer_reader_kinds(model, 'C05-R1')


def rule_c06_r2(model: Model) -> RuleResult:
    return rule_writer_reader_kinds(model, 'C06-R2')


# ---------------------------------------------------------------------------- C05-R2 / R3


def rule_c05_r2(model: Model) -> RuleResult:
    r = RuleResult('C05-R2', 'every converter that constructs a value overrides into_data; identity converters serialise at top level', floor=18)
    base_into = model.func(f'{CONVERTER}.into_data')
    for cls in family(model):
        r.instances += 1
        f = model.find_method(cls.qualname, 'into_data')
        inherits_default = f is None or f.qualname == base_into.qualname
        tc = model.find_method(cls.qualname, 'try_convert')
        assert tc is not None
        cfg = cfg_of(model, tc)
        nz = Normalizer(model, tc, cfg)
        rets = [nz.expr(n.ast.value, n) for n in cfg.live_nodes() if n.kind == 'return' and n.ast is not None and n.ast.value is not None]
        identity = bool(rets) and all(x == 'VAL' for x in rets)
        r.sample({'class': cls.name, 'inherits_default_into_data': inherits_default, 'identity': identity})
        if inherits_default and not identity:
            r.fail(cls.qualname, 'inherits default into_data', tc.loc(),
                   "try_convert builds a new value but into_data is inherited: serialisation falls back to the value's runtime type, which need not be readable back")
        else:
            r.ok()
    # the top-level function refuses converters that use the default implementation
    fi = model.func('pane.convert.into_data')
    hack = [n for n in ast.walk(fi.node) if isinstance(n, ast.Assert) and '_original' in unparse(n)]
    r.instances += 1
    ids = [c.name for c in family(model) if (model.find_method(c.qualname, 'into_data') or base_into).qualname == base_into.qualname]
    r.sample({'top level refuses the default writer': bool(hack), 'converters served by the default writer': sorted(ids)})
    if hack and ids:
        r.fail('pane.convert.into_data', 'default into_data refused at top level', fi.loc(hack[0]),
               f"into_data(x, T) raises TypeError for every T served by the default implementation ({', '.join(sorted(ids))}): "
               f"e.g. into_data(None, type(None)) / into_data('a', Literal['a']) cannot be serialised although from_data accepts them")
    else:
        r.ok()
    return r


R3_EXEMPT = {
    'PatternConverter': "ty_conv is the str/bytes identity converter; .pattern is written",
    'ValueOrListConverter': "delegates through the module-level into_data with self.ty",
}


def _sub_roots(model: Model, cls: ClassInfo, entry: str) -> t.Set[str]:
    attrs = subconv_attrs(model, cls)
    roots: t.Set[str] = set()
    funcs = [f for f in helper_closure(model, cls, entry) if f.cls is not None and f.cls.qualname != CONVERTER]
    # nested defs inside those
    for q, f in model.functions.items():
        p = f.parent
        while p is not None:
            if p in funcs and isinstance(f.node, ast.FunctionDef):
                funcs.append(f)
                break
            p = p.parent
    for f in funcs:
        for sub in ast.walk(f.node):
            if isinstance(sub, ast.Attribute) and isinstance(sub.value, ast.Name) and sub.value.id == 'self' and sub.attr in attrs:
                roots.add(sub.attr)
    return roots


def rule_c05_r3(model: Model) -> RuleResult:
    r = RuleResult('C05-R3', 'into_data recurses through the same sub-converters as try_convert', floor=12)
    base_into = model.func(f'{CONVERTER}.into_data')
    for cls in family(model):
        f = model.find_method(cls.qualname, 'into_data')
        if f is None or f.qualname == base_into.qualname:
            continue
        r.instances += 1
        rt = _sub_roots(model, cls, 'try_convert')
        ri = _sub_roots(model, cls, 'into_data')
        r.sample({'class': cls.name, 'reader': sorted(rt), 'writer': sorted(ri)})
        if cls.name in R3_EXEMPT:
            r.ok()
            r.note(f"exempt {cls.name}: {R3_EXEMPT[cls.name]}")
            continue
        miss = rt - ri
        if miss:
            r.fail(cls.qualname, f"into_data does not use {sorted(miss)}", f.loc(),
                   f"elements converted by {', '.join(sorted(miss))} on input are not serialised by it on output: nested values are written in their typed form")
        else:
            r.ok()
    return r


# ---------------------------------------------------------------------------- C05-R4 field names


class _Specializer(ast.NodeTransformer):
    def __init__(self, oracle: t.Callable[[ast.expr], t.Optional[bool]]):
        self.oracle = oracle

    def visit_If(self, node: ast.If) -> t.Any:
        v = self.oracle(node.test)
        if v is None:
            return self.generic_visit(node)
        body = node.body if v else node.orelse
        out: t.List[ast.stmt] = []
        for st in body:
            res = self.visit(st)
            if isinstance(res, list):
                out.extend(res)
            elif res is not None:
                out.append(res)
        return out or [ast.Pass()]

    def visit_IfExp(self, node: ast.IfExp) -> t.Any:
        v = self.oracle(node.test)
        if v is None:
            return self.generic_visit(node)
        return self.visit(node.body if v else node.orelse)


def specialize(model: Model, func: FuncInfo, oracle: t.Callable[[ast.expr], t.Optional[bool]]) -> FuncInfo:
    # (the root's ``_parent`` link leads to the class and the module: detach it while copying)
    par = getattr(func.node, '_parent', None)
    try:
        if par is not None:
            del func.node._parent     # type: ignore[union-attr]
        node = copy.deepcopy(func.node)
    finally:
        if par is not None:
            func.node._parent = par   # type: ignore[union-attr]
    node = _Specializer(oracle).visit(node)
    ast.fix_missing_locations(node)
    for p in ast.walk(node):
        for ch in ast.iter_child_nodes(p):
            ch._parent = p  # type: ignore[attr-defined]
    return FuncInfo(func.name, func.qualname, func.module, node, func.cls, func.parent)


_R4_CACHE: t.Dict[str, t.Any] = {}


def rule_c05_r4(model: Model) -> RuleResult:
    """Memoised by the text of the modules the rule consults (pane/field.py): the in-memory self-test runs it on hundreds of
    variants that leave that file alone."""
    import hashlib
    key = hashlib.sha256(model.module('pane.field').src.encode('utf-8')).hexdigest()
    hit = _R4_CACHE.get(key)
    if hit is not None:
        if isinstance(hit, Exception):
            raise hit
        return copy.deepcopy(hit)
    try:
        res = _rule_c05_r4(model)
    except AnalysisError as e:
        _R4_CACHE[key] = e
        raise
    _R4_CACHE[key] = copy.deepcopy(res)
    return res


def _rule_c05_r4(model: Model) -> RuleResult:
    r = RuleResult('C05-R4', 'a field\'s library-derived output name is one of its input names, for every naming configuration', floor=16)
    f = model.func('pane.field.FieldSpec.make_field')
    r.analysed.add(f.qualname)
    opts = ['self.out_name', 'self.rename', 'self.aliases', 'self.in_names', '$in_rename', '$out_rename']
    base_nz = Normalizer(model, f, cfg_of(model, f))

    # locals that are only shorter names for a setting (`rename = self.rename`), and locals that count settings
    aliases: t.Dict[str, str] = {}
    counters: t.Dict[str, ast.Call] = {}
    for st_ in ast.walk(f.node):
        if isinstance(st_, ast.Assign) and len(st_.targets) == 1 and isinstance(st_.targets[0], ast.Name):
            nm_ = st_.targets[0].id
            n_defs = sum(1 for y_ in ast.walk(f.node) if isinstance(y_, ast.Name) and isinstance(y_.ctx, ast.Store) and y_.id == nm_)
            if n_defs == 1 and isinstance(st_.value, ast.Attribute) and unparse(st_.value).startswith('self.'):
                aliases[nm_] = unparse(st_.value)
            if n_defs == 1 and isinstance(st_.value, ast.Call) and isinstance(st_.value.func, ast.Name) and st_.value.func.id == 'sum':
                counters[nm_] = st_.value

    def make_oracle(combo: t.Dict[str, bool], pnames: t.Optional[t.Dict[str, str]] = None) -> t.Callable[[ast.expr], t.Optional[bool]]:
        # ``pnames``: inside a helper, its parameter names -> the normal form of what make_field passes for them
        def key_of(nm: str) -> str:
            nm = aliases.get(nm, nm) if pnames is None else nm
            return nm if nm.startswith('self.') else (pnames.get(nm, f'${nm}') if pnames is not None else f'${nm}')

        def oracle(test: ast.expr) -> t.Optional[bool]:
            # a count of the settings given, held in a local (`n = sum(1 for p in (a, b, c) if p is not None)`)
            if isinstance(test, ast.Compare) and len(test.ops) == 1 and isinstance(test.left, ast.Name) and test.left.id in counters \
                    and pnames is None:
                test = ast.Compare(left=counters[test.left.id], ops=test.ops, comparators=test.comparators)
            # X is None / X is not None
            if isinstance(test, ast.Compare) and len(test.ops) == 1 and isinstance(test.ops[0], (ast.Is, ast.IsNot)) \
                    and isinstance(test.comparators[0], ast.Constant) and test.comparators[0].value is None:
                nm = unparse(test.left)
                key = key_of(nm)
                if key in combo:
                    given = combo[key]
                    return (not given) if isinstance(test.ops[0], ast.Is) else given
                return None
            # sum(p is not None for p in (a, b, c)) > 1
            if isinstance(test, ast.Compare) and len(test.ops) == 1 and isinstance(test.left, ast.Call) \
                    and isinstance(test.left.func, ast.Name) and test.left.func.id == 'sum' and isinstance(test.comparators[0], ast.Constant):
                g = test.left.args[0] if test.left.args else None
                if isinstance(g, ast.GeneratorExp) and isinstance(g.generators[0].iter, ast.Tuple):
                    names = [key_of(unparse(e)) for e in g.generators[0].iter.elts]
                    if all(nm in combo for nm in names):
                        cnt = sum(1 for nm in names if combo[nm])
                        k = test.comparators[0].value
                        op = test.ops[0]
                        return {ast.Gt: cnt > k, ast.GtE: cnt >= k, ast.Lt: cnt < k, ast.LtE: cnt <= k, ast.Eq: cnt == k, ast.NotEq: cnt != k}.get(type(op))
            return None
        return oracle

    def configurations() -> t.Iterator[t.Tuple[t.Dict[str, bool], FuncInfo, CFG, t.List[t.Any], t.List[t.Any], str]]:
        """Every naming configuration; a branch on something else than the configuration (e.g. on the spelling of the name) is explored
        both ways, each way being one more configuration to check."""
        for bits in itertools.product([False, True], repeat=len(opts)):
            combo0 = dict(zip(opts, bits))
            pending: t.List[t.Dict[str, bool]] = [{}]
            while pending:
                forced = pending.pop()
                base = make_oracle(combo0)

                def oracle(test: ast.expr, base: t.Any = base, forced: t.Dict[str, bool] = forced) -> t.Optional[bool]:
                    v = base(test)
                    if v is not None:
                        return v
                    return forced.get(unparse(test))
                sf_ = specialize(model, f, oracle)
                cfg_ = CFG(model, sf_)
                live_ = cfg_.reachable()
                conds_ = [n for n in cfg_.nodes if n.id in live_ and n.kind == 'cond']
                if conds_:
                    key_ = unparse(conds_[0].ast)
                    if len(forced) >= 3 or key_ in forced:
                        raise AnalysisError(f"{f.loc(conds_[0].ast)}: make_field branches on `{key_}`, which the naming analysis cannot decide")
                    # the branch statement's own test text (the CFG splits and / or into several nodes)
                    tests = [x.test for x in ast.walk(sf_.node) if isinstance(x, (ast.If, ast.IfExp))]
                    tkey = unparse(tests[0]) if tests else key_
                    pending.append({**forced, tkey: True})
                    pending.append({**forced, tkey: False})
                    continue
                rets_ = [n for n in cfg_.nodes if n.id in live_ and n.kind == 'return' and n.ast is not None and n.ast.value is not None]
                raises_ = [n for n in cfg_.nodes if n.id in live_ and n.kind == 'raise']
                label_ = ', '.join(k.replace('self.', '').replace('$', 'class ') for k, v in combo0.items() if v) or 'nothing given'
                if forced:
                    label_ += ' / ' + ', '.join(f"{k} is {v}" for k, v in forced.items())
                yield combo0, sf_, cfg_, rets_, raises_, label_

    for (combo, sf, cfg, rets, raises, label) in configurations():
        if raises and not rets:
            continue           # configuration refused at class creation
        if len(rets) != 1:
            raise AnalysisError(f"{f.loc()}: make_field has {len(rets)} exits for configuration [{label}]")
        r.instances += 1
        def hook(g: FuncInfo, pm: t.Dict[str, str], combo: t.Dict[str, bool] = combo) -> FuncInfo:
            # helpers of make_field are specialised for the same configuration (their parameters named by what they receive)
            return specialize(model, g, make_oracle(combo, {k: v for k, v in pm.items() if k != 'self'}))
        nz = Normalizer(model, sf, cfg, param_map={p_: f'${p_}' for p_ in sf.params if p_ != 'self'}, func_hook=hook)
        call = rets[0].ast.value
        if not isinstance(call, ast.Call):
            raise AnalysisError(f"{f.loc(call)}: make_field does not return a Field(...) call")
        kw = {k.arg: k.value for k in call.keywords if k.arg}
        if 'out_name' not in kw or 'in_names' not in kw:
            raise AnalysisError(f"{f.loc(call)}: Field(...) built without out_name= / in_names=")
        # (no style given: rename_field hands the name back, see C20-R1)
        no_style = lambda x: re.sub(r'pane\.field\.rename_field\((\$\w+), None\)', r'\1', x)      # noqa: E731
        out_form = no_style(nz.expr(kw['out_name'], rets[0]))
        in_form = no_style(nz.expr(kw['in_names'], rets[0]))
        r.sample({'configuration': label, 'out_name': out_form, 'in_names': in_form})
        # the output name follows the documented precedence: the field's own out_name, its rename, the class style, the Python name
        want_out = 'self.out_name' if combo['self.out_name'] else ('self.rename' if combo['self.rename'] else
                                                                    ('pane.field.rename_field($name, $out_rename)' if combo['$out_rename'] else '$name'))
        if out_form != want_out and not (want_out.startswith('pane.field.rename_field') and out_form.startswith(want_out[:-1])):
            r.fail(f.qualname, f"configuration [{label}]: out_name={out_form}, documented: {want_out}", f.loc(call),
                   "the output name does not follow the precedence out_name > rename > class style > Python name: the key written for the "
                   "field is not the one configured for it")
            continue
        if combo['self.out_name'] or combo['self.in_names']:
            r.ok()             # the user chose one side explicitly
            continue
        ok = True
        why = ''
        if out_form == '$name':
            ok = True          # the Python name is always accepted (PaneConverter.field_map)
        elif out_form == 'self.rename':
            ok = 'self.rename' in in_form
            why = "the per-field rename is written but not accepted"
        elif out_form.startswith('pane.field.rename_field($name, $out_rename'):
            # class-level rename=: out_rename is one of in_rename
            ok = combo['$in_rename'] and 'pane.field.rename_field($name, ELEM($in_rename))' in in_form
            if not combo['$in_rename']:
                ok = True      # out_rename without in_rename: the user asked for an output-only style
            why = "the class-level renamed form is written, but the accepted input names do not include the renamed forms"
        else:
            raise AnalysisError(f"{f.loc(call)}: unrecognised out_name derivation `{out_form}` for configuration [{label}]")
        if ok:
            r.ok()
        else:
            r.fail(f.qualname, f"configuration [{label}]: out_name={out_form}; in_names={in_form}", f.loc(call),
                   f"{why}: into_data() emits a key that from_data() of the same class rejects")
    return r


# ---------------------------------------------------------------------------- C05-R5 / R6 layouts


def _comp_filters(model: Model, f: FuncInfo, comp: ast.AST, node: t.Any, nz: Normalizer) -> t.Set[t.Tuple[str, bool]]:
    out: t.Set[t.Tuple[str, bool]] = set()
    if isinstance(comp, (ast.GeneratorExp, ast.ListComp, ast.SetComp, ast.DictComp)):
        b: t.Dict[str, str] = {}
        for g in comp.generators:
            b, _ = nz.comp_bindings([g], node, b, 0)
            for c in g.ifs:
                out |= _flatten(c, True, nz, node, b)
    return out


def _flatten(e: ast.expr, want: bool, nz: Normalizer, node: t.Any, b: t.Dict[str, str]) -> t.Set[t.Tuple[str, bool]]:
    if isinstance(e, ast.BoolOp):
        s: t.Set[t.Tuple[str, bool]] = set()
        for v in e.values:
            s |= _flatten(v, want, nz, node, b)
        return s
    if isinstance(e, ast.UnaryOp) and isinstance(e.op, ast.Not):
        return _flatten(e.operand, not want, nz, node, b)
    a, pos = nz.literal(e, node, b)
    return {(a, pos == want)}


def _split_phi(form: str) -> t.List[str]:
    from .forwarding import _is_wrapped
    if not _is_wrapped(form, 'PHI('):
        return [form]
    out, cur, depth = [], '', 0
    for ch in form[4:-1]:
        if ch in '([{':
            depth += 1
        elif ch in ')]}':
            depth -= 1
        if ch == '|' and depth == 0:
            out.append(cur)
            cur = ''
        else:
            cur += ch
    out.append(cur)
    return [y for x in out for y in _split_phi(x)]


def rule_c05_r5(model: Model) -> RuleResult:
    r = RuleResult('C05-R5', 'tuple writer and tuple reader select the same fields; every writer honours exclude', floor=4)
    cls = model.cls('pane.classes.PaneConverter')
    f = cls.methods.get('into_data')
    if f is None:
        raise AnalysisError("PaneConverter.into_data not found")
    cfg = cfg_of(model, f)
    nz = Normalizer(model, f, cfg)
    r.analysed.add(f.qualname)
    writers: t.Dict[str, t.Set[t.Tuple[str, bool]]] = {}
    from ..cfg import returned_values
    for (val_e, n) in returned_values(cfg):
        if True:
            # which layout? the dominating out_format literal
            layout = None
            for a in cfg.nodes:
                if a.kind == 'cond':
                    text, pos = nz.literal(a.ast, a)
                    mt = re.match(r"^'(\w+)' == self\.opts\.out_format$", text)
                    if mt and a.edge('T' if pos else 'F') and cfg.edge_dominates(a, 'T' if pos else 'F', n):
                        layout = mt.group(1)
            if layout is None:
                continue
            # filters are read off the normal form, so a filter applied through a local (pre-filtered list) counts
            form = nz.expr(val_e, n)
            filt: t.Set[t.Tuple[str, bool]] = set()
            for attr in ('exclude', 'init', 'kw_only'):
                if re.search(r'not TRUTHY\((?:[^()]|\([^()]*\))*\.%s\)' % attr, form):
                    filt.add((f'TRUTHY(ELEM(self.fields).{attr})', False))
                elif re.search(r'(?<!not )TRUTHY\((?:[^()]|\([^()]*\))*\.%s\)' % attr, form):
                    filt.add((f'TRUTHY(ELEM(self.fields).{attr})', True))
            writers[layout] = filt
    if set(writers) != {'tuple', 'struct'}:
        raise AnalysisError(f"{f.loc()}: PaneConverter.into_data: layouts found {sorted(writers)}, expected tuple and struct")
    fld = 'ELEM(self.fields)'
    for layout, filt in writers.items():
        r.instances += 1
        r.sample({'writer': layout, 'filters': sorted(('' if p else 'not ') + a for a, p in filt)})
        if (f'TRUTHY({fld}.exclude)', False) in filt:
            r.ok()
        else:
            r.fail(f.qualname, f"{layout} writer lacks the exclude filter", f.loc(), f"excluded fields are written in the {layout} layout")
    # dict() honours exclude
    d = model.func('pane.classes.PaneBase.dict')
    r.instances += 1
    dcfg = cfg_of(model, d)
    dnz = Normalizer(model, d, dcfg, param_map={p_: (p_ if p_ in ('self', 'cls') else f'${p_}') for p_ in d.params})
    forms_d: t.List[str] = []
    for n_ in dcfg.live_nodes():
        if n_.kind == 'return' and n_.ast is not None and n_.ast.value is not None:
            fm = dnz.expr(n_.ast.value, n_)
            forms_d.extend(_split_phi(fm))
    # every collection built from the class's field list (the full view) filters on `not exclude`
    full = [x for x in forms_d if 'self.__pane_info__.fields' in x]
    r.sample({'dict() builds': [x[:110] for x in forms_d]})
    if full and all(re.search(r'if (?:.* and )?not TRUTHY\(ELEM\(self\.__pane_info__\.fields\)\.exclude\)', x) for x in full):
        r.ok()
    else:
        r.fail(d.qualname, 'dict() lacks the exclude filter', d.loc(), "PaneBase.dict() returns excluded fields")
    # tuple reader: try_convert_tuple selects init fields; positional bounds skip non-init and kw_only fields
    rd = cls.methods.get('try_convert_tuple')
    if rd is None:
        raise AnalysisError("PaneConverter.try_convert_tuple not found")
    rcfg = cfg_of(model, rd)
    rnz = Normalizer(model, rd, rcfg)
    reader: t.Set[t.Tuple[str, bool]] = set()
    for n in rcfg.live_nodes():
        for root in node_exprs(n):
            for sub in walk_no_nested(root):
                reader |= _comp_filters(model, rd, sub, n, rnz)
    proc = model.func('pane.classes._process')
    psrc = unparse(proc.node)
    kw_skipped = bool(re.search(r'if f\.kw_only:', psrc))
    r.instances += 1
    r.sample({'reader': 'tuple', 'filters': sorted(('' if p else 'not ') + a for a, p in reader), 'bounds_skip_kw_only': kw_skipped})
    wt = writers['tuple']
    need = []
    if (f'TRUTHY({fld}.init)', True) in reader and (f'TRUTHY({fld}.init)', True) not in wt:
        need.append('init=False fields')
    if kw_skipped and (f'TRUTHY({fld}.kw_only)', False) not in wt:
        need.append('keyword-only fields')
    if need:
        r.fail(f.qualname, 'tuple writer emits fields the tuple reader refuses', f.loc(),
               f"the tuple layout writes {' and '.join(need)} which the positional reader does not bind: "
               f"KW(1, y=3).into_data() == (1, 3) is rejected by KW.from_data")
    else:
        r.ok()
    return r


def rule_c05_r6(model: Model) -> RuleResult:
    r = RuleResult('C05-R6', 'fields and field converters (parallel sequences) are always paired position by position', floor=2)
    cls = model.cls('pane.classes.PaneConverter')
    for f in cls.methods.values():
        cfg = cfg_of(model, f)
        nz = Normalizer(model, f, cfg)
        for n in cfg.live_nodes():
            for root in node_exprs(n):
                for sub, bound in walk_with_bindings(root, nz, n):
                    if isinstance(sub, ast.Call) and isinstance(sub.func, ast.Name) and sub.func.id == 'zip' and len(sub.args) >= 2:
                        forms = [nz.expr(a, n, bound) for a in sub.args]
                        is_f = lambda x: ('self.fields' in x or 'cls_info.fields' in x) and 'self.field_converters' not in x  # noqa: E731
                        is_c = lambda x: 'self.field_converters' in x and not ('self.fields' in x or 'cls_info.fields' in x)  # noqa: E731
                        if not any(is_f(x) for x in forms) or not any(is_c(x) for x in forms):
                            continue
                        r.instances += 1
                        r.analysed.add(f.qualname)
                        fa = [x for x in forms if is_f(x)][0]
                        ca = [x for x in forms if is_c(x)][0]
                        r.sample({'function': f.qualname, 'zip': forms})
                        if fa in ('self.fields', 'self.cls_info.fields') and ca == 'self.field_converters':
                            r.ok()
                        else:
                            r.fail(f.qualname, f"zip({', '.join(forms)})", f.loc(sub),
                                   "one of the two parallel sequences is filtered / transformed before being zipped with the other: "
                                   "fields are paired with the converters of other fields")
    return r


# ---------------------------------------------------------------------------- C06


def rule_c06_r1(model: Model) -> RuleResult:
    r = RuleResult('C06-R1', 'convert = from_data(into_data(value), T) with the handlers forwarded to both', floor=1)
    f = model.func('pane.convert.convert')
    cfg = cfg_of(model, f)
    nz = Normalizer(model, f, cfg, param_map={p: f'${p}' for p in f.params})
    r.analysed.add(f.qualname)
    rets = [n for n in cfg.live_nodes() if n.kind == 'return' and n.ast is not None and n.ast.value is not None]
    r.instances += 1
    if len(rets) != 1:
        r.fail(f.qualname, f"{len(rets)} returns", f.loc(), "convert() is expected to be a single serialise-then-parse expression")
        return r
    form = nz.expr(rets[0].ast.value, rets[0])
    r.sample({'convert_returns': form})
    want = 'pane.convert.from_data(pane.convert.into_data($val, custom=$custom), $ty, custom=$custom)'
    if form == want:
        r.ok()
    else:
        r.fail(f.qualname, f"return {form}", f.loc(rets[0].ast),
               f"convert() no longer is from_data(into_data(val, custom=custom), ty, custom=custom): "
               f"typed values are not re-parsed from their own serialised form (expected normal form {want})")
    return r


ORDERING_CALLS = {'sorted', 'min', 'max'}


def rule_c06_r5(model: Model) -> RuleResult:
    r = RuleResult('C06-R5', 'serialisation never orders or compares the members of a container', floor=10)
    base_into = model.func(f'{CONVERTER}.into_data')
    for cls in family(model):
        f = model.find_method(cls.qualname, 'into_data')
        if f is None or f.qualname == base_into.qualname:
            continue
        funcs = [g for g in helper_closure(model, cls, 'into_data') if g.cls is not None and g.cls.qualname != CONVERTER]
        for g in funcs:
            r.instances += 1
            r.analysed.add(g.qualname)
            bad = None
            for sub in ast.walk(g.node):
                if isinstance(sub, ast.Call):
                    if isinstance(sub.func, ast.Name) and sub.func.id in ORDERING_CALLS:
                        bad = sub
                    if isinstance(sub.func, ast.Attribute) and sub.func.attr == 'sort':
                        bad = sub
            if bad is not None:
                r.fail(g.qualname, unparse(bad.func), g.loc(bad),
                       "into_data compares serialised members with each other: values whose data forms are not mutually orderable "
                       "(mappings, None next to numbers, complex) make serialisation raise, so convert(x, T) fails on a valid x")
            else:
                r.ok()
    return r


def model_enclosing(x: ast.AST, scope: ast.AST) -> bool:
    """``x`` belongs to ``scope`` itself, not to a function nested in it."""
    p_ = getattr(x, '_parent', None)
    while p_ is not None and not isinstance(p_, (ast.FunctionDef, ast.Lambda)):
        p_ = getattr(p_, '_parent', None)
    return p_ is scope


def rule_c05_r7(model: Model) -> RuleResult:
    """Writers write the value they are given: into_data neither rebinds its value nor passes it through a narrowing method."""
    r = RuleResult('C05-R7', 'into_data writes the value it is given (or projections of it): the value is not rebound or passed through another '
                             'method of the converter before it is written', floor=15)
    for cls in family(model):
        f = cls.methods.get('into_data')
        if f is None or not isinstance(f.node, ast.FunctionDef) or len(f.params) < 2:
            continue
        r.instances += 1
        r.analysed.add(f.qualname)
        cfg = cfg_of(model, f)
        nz = Normalizer(model, f, cfg)
        vp = f.params[1]
        problems: t.List[t.Tuple[ast.AST, str]] = []
        for d in cfg.reaching().by_name.get(vp, []):
            if d.kind == 'param':
                continue
            v = d.value
            while isinstance(v, ast.Call) and model.resolve(v.func, f.module, f) == 'typing.cast' and len(v.args) == 2:
                v = v.args[1]
            if isinstance(v, ast.Name) and v.id == vp:
                continue
            problems.append((d.stmt or d.node.ast or f.node, f"{vp} is rebound to {unparse(v) if v is not None else '?'}"[:120]))
        for n in cfg.live_nodes():
            if n.kind == 'return' and n.ast is not None and n.ast.value is not None:
                form = nz.expr(n.ast.value, n)
                for m_ in re.finditer(r'self\.(\w+)\((?=[^()]*\bVAL\b)', form):
                    if 'into_data' not in m_.group(1):
                        problems.append((n.ast, f"self.{m_.group(1)}(VAL) is written instead of VAL"))
        # a part of the value handed back as it is, although the class has a converter for it
        if subconv_attrs(model, cls):
            scopes: t.List[ast.AST] = [f.node] + [x for x in ast.walk(f.node) if isinstance(x, (ast.FunctionDef, ast.Lambda)) and x is not f.node]
            for sc in scopes:
                params = {a.arg for a in sc.args.args}      # type: ignore[union-attr]
                if sc is f.node:
                    params = {vp}
                body_nodes = ast.walk(sc) if not isinstance(sc, ast.Lambda) else [sc]
                for x in body_nodes:
                    val_e = None
                    if isinstance(x, ast.Return) and model_enclosing(x, sc):
                        val_e = x.value
                    elif isinstance(x, ast.Lambda) and x is sc:
                        val_e = x.body
                    if isinstance(val_e, ast.Name) and val_e.id in params:
                        problems.append((x, f"{val_e.id} is handed back unserialised"))
        r.sample({'class': cls.name, 'problems': [p_[1] for p_ in problems]})
        if problems:
            for (node, what) in problems:
                r.fail(f.qualname, what, f.loc(node),
                       "the data written is not the value's own representation: e.g. a datetime held under Union[date, datetime] is cut down to its "
                       "date part, and reading the output back gives a different value")
        else:
            r.ok()
    return r
