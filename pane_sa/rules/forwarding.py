"""C18 (custom converter precedence and reach) and C19 (file round trip, stream ownership) — DESIGN §20, §21."""
from __future__ import annotations

import ast
import re
import typing as t

from .. import anchors
from ..cfg import CFG, Node, cfg_of, handler_classes, node_exprs, walk_no_nested
from ..family import family
from ..model import AnalysisError, FuncInfo, Model, ancestors, unparse
from ..norm import Normalizer
from ..report import RuleResult

MK = 'pane.convert.make_converter'


def _pm(f: FuncInfo) -> t.Dict[str, str]:
    pm = {p: f'${p}' for p in f.params}
    if f.params and f.params[0] in ('self', 'cls'):
        pm[f.params[0]] = f.params[0]
    return pm


# ---------------------------------------------------------------------------- C18


def rule_c18_r1b(model: Model) -> RuleResult:
    r = RuleResult('C18-R1b', 'handler sets are merged call-level first, own class before enclosing classes; a field converter wins', floor=3)
    it = model.func('pane.convert.ConverterHandlers.__iter__')
    cfg = cfg_of(model, it)
    nz = Normalizer(model, it, cfg, param_map=_pm(it))
    r.instances += 1
    r.analysed.add(it.qualname)
    rets = [nz.expr(n.ast.value, n) for n in cfg.live_nodes() if n.kind == 'return' and n.ast is not None and n.ast.value is not None]
    r.sample({'ConverterHandlers.__iter__': rets})
    if rets in (['itertools.chain(self.globals, self.class_local)'], ['iter((*self.globals, *self.class_local))'], ['iter((self.globals Add self.class_local))']):
        r.ok()
    else:
        r.fail(it.qualname, f"returns {rets}", it.loc(), "handlers passed to the call must be consulted before class-level ones")
    f = model.func('pane.classes.PaneConverter.__init__')
    cfg = cfg_of(model, f)
    nz = Normalizer(model, f, cfg, param_map=_pm(f))
    r.analysed.add(f.qualname)
    # the merged handler set: what the field converters are built with (whatever the local holding it is called)
    merges = []
    for n in cfg.live_nodes():
        for root in node_exprs(n):
            for c in walk_no_nested(root):
                if isinstance(c, ast.Call) and model.resolve(c.func, f.module, f) == MK and (len(c.args) >= 2 or any(k.arg == 'handlers' for k in c.keywords)):
                    harg = c.args[1] if len(c.args) >= 2 else next(k.value for k in c.keywords if k.arg == 'handlers')
                    merges.append((n, harg))
    r.instances += 1
    forms_ = sorted({nz.expr(h_, n_).replace('$cls.', 'self.cls.') for (n_, h_) in merges})
    if len(forms_) != 1 or forms_[0].count('ConverterHandlers(') != 1:
        r.fail(f.qualname, f"{len(forms_)} handler merges", f.loc(), "the per-class handler set must be built exactly once")
    else:
        form = forms_[0]
        merges = [(merges[0][0], merges[0][1])]
        r.sample({'merge': form})
        want = ('pane.convert.ConverterHandlers($handlers.globals, (*self.cls.__pane_info__.opts.class_handlers, *$handlers.class_local))',
                'pane.convert.ConverterHandlers($handlers.globals, (self.cls.__pane_info__.opts.class_handlers Add $handlers.class_local))',
                'pane.convert.ConverterHandlers(globals=$handlers.globals, class_local=(*self.cls.__pane_info__.opts.class_handlers, *$handlers.class_local))')
        if form.replace('self.cls_info.opts', 'self.cls.__pane_info__.opts').replace('self.opts', 'self.cls.__pane_info__.opts') in want:
            r.ok()
        else:
            r.fail(f.qualname, f"handlers = {form[:200]}", f.loc(merges[0][1]),
                   "precedence must be: call-level handlers, then this class's own (inherited) handlers, then those of enclosing classes, "
                   "none dropped, de-duplicated or reordered")
    r.instances += 1
    fc = None
    for n in cfg.live_nodes():
        if n.kind == 'stmt' and isinstance(n.ast, (ast.Assign, ast.AnnAssign)):
            tg = n.ast.targets[0] if isinstance(n.ast, ast.Assign) else n.ast.target
            if unparse(tg) == 'self.field_converters' and n.ast.value is not None:
                fc = nz.expr(n.ast.value, n)
    r.sample({'field_converters': fc})
    fld = 'ELEM(self.cls.__pane_info__.fields)'
    fcn = fc.replace('$cls.', 'self.cls.').replace('self.cls_info.fields', 'self.cls.__pane_info__.fields').replace('self.fields', 'self.cls.__pane_info__.fields') if fc else ''
    want_fc = (f"LIST(({fld}.converter if not None is {fld}.converter else pane.convert.make_converter({fld}.type, ",
               f"LIST(({fld}.converter if not {fld}.converter is None else pane.convert.make_converter({fld}.type, ")
    # ... or the same choice written the other way round
    mirrored = bool(re.match(r"^LIST\(\(pane\.convert\.make_converter\(%s\.type, .*\) if (None is %s\.converter|%s\.converter is None) else %s\.converter\)" %
                             ((re.escape(fld),) * 4), fcn))
    if fc is not None and (fcn.startswith(want_fc) or mirrored) and 'pane.convert.ConverterHandlers(' in fc:
        r.ok()
    else:
        r.fail(f.qualname, f"field_converters = {str(fc)[:160]}", f.loc(), "a field's own converter must take precedence; otherwise the merged handlers must be used")
    return r


HANDLER_TAKERS_CACHE: t.Dict[int, t.Set[str]] = {}


def handler_takers(model: Model) -> t.Set[str]:
    """Qualified names of callables that accept a ``handlers`` argument."""
    key = id(model)
    if key in HANDLER_TAKERS_CACHE:
        return HANDLER_TAKERS_CACHE[key]
    out = {MK, 'pane.convert._annotated_converter'}
    for cls in family(model):
        init = model.find_method(cls.qualname, '__init__')
        if init is not None and init.cls is not None and 'handlers' in init.params:
            out.add(cls.qualname)
        elif 'handlers' in {nm for q in model.mro(cls.qualname) for nm in (model.classes[q].attr_annotations if q in model.classes else {})}:
            out.add(cls.qualname)
    HANDLER_TAKERS_CACHE[key] = out
    return out


def rule_c18_r2(model: Model) -> RuleResult:
    r = RuleResult('C18-R2', 'handlers are threaded through every nested converter construction', floor=20)
    takers = handler_takers(model)
    for f in model.all_functions():
        if not isinstance(f.node, ast.FunctionDef):
            continue
        in_scope = 'handlers' in f.params or (f.cls is not None and any(
            isinstance(x, ast.Attribute) and x.attr == 'handlers' and isinstance(x.value, ast.Name) and x.value.id == 'self' for x in ast.walk(f.node)))
        if not in_scope:
            continue
        for c in ast.walk(f.node):
            if not isinstance(c, ast.Call) or model.enclosing_function(c) is not f:
                # calls inside nested defs of a function with handlers in scope are still checked
                if not isinstance(c, ast.Call):
                    continue
                ef = model.enclosing_function(c)
                if ef is None or ef is not f and (ef.parent is not f):
                    continue
            q = model.resolve(c.func, f.module, f)
            is_conv = isinstance(c.func, ast.Attribute) and c.func.attr == '_converter'
            is_super_init = unparse(c.func) == 'super().__init__' and f.cls is not None and f.name == '__init__' and any(
                b in takers for b in model.mro(f.cls.qualname)[1:])
            is_global_handler = False
            if isinstance(c.func, ast.Name):
                par = next((a for a in ancestors(c) if isinstance(a, ast.For)), None)
                if par is not None and isinstance(par.target, ast.Name) and par.target.id == c.func.id and \
                        model.resolve(par.iter, f.module, f) == anchors.global_handlers(model):
                    is_global_handler = True
            if q not in takers and not is_conv and not is_super_init and not is_global_handler:
                continue
            if q is not None and q in takers and f.qualname == q + '.__init__' and isinstance(c.func, ast.Attribute) and unparse(c.func).startswith('super()'):
                pass
            r.instances += 1
            r.analysed.add(f.qualname)
            passed = [unparse(a) for a in c.args] + [unparse(k.value) for k in c.keywords]
            fw = [p for p in passed if re.search(r'\bhandlers\b', p)]
            if not fw:
                # a local with another name that is computed from the handlers in scope (`field_handlers = ConverterHandlers(handlers...)`)
                try:
                    ef_ = model.enclosing_function(c) or f
                    ecfg = cfg_of(model, ef_)
                    enz = Normalizer(model, ef_, ecfg, param_map=_pm(ef_))
                    en = ecfg.node_of(c)
                    if en is not None:
                        forms = [enz.expr(a, en) for a in c.args if not isinstance(a, ast.Starred)] + [enz.expr(k.value, en) for k in c.keywords]
                        # (the argument itself is the handler set, or one built from it - not merely an expression that mentions it somewhere)
                        fw = [x for x in forms if re.fullmatch(r'(handlers=)?(\$handlers|[\w.$]*\.handlers)', x)
                              or (re.match(r'^(handlers=)?pane\.convert\.ConverterHandlers(\.\w+)?\(', x) and re.search(r'(\$|self\.|\.)handlers\b', x))]
                except AnalysisError:
                    pass
            r.sample({'function': f.qualname, 'call': unparse(c)[:80]})
            if fw:
                r.ok()
            else:
                r.fail(f.qualname, unparse(c)[:90], f.loc(c),
                       "a nested converter is built without the handlers in scope: custom converters stop applying below this point "
                       "(inside this container / union / dataclass)")
    return r


def rule_c18_r3(model: Model) -> RuleResult:
    r = RuleResult('C18-R3', 'both handler loops defer on NotImplemented / NotImplementedError; mapping handlers match the exact bare type', floor=3)
    mk = model.func(MK)
    cfg = cfg_of(model, mk)
    nz = Normalizer(model, mk, cfg, param_map=_pm(mk))
    r.analysed.add(mk.qualname)
    loops = [n for n in cfg.live_nodes() if n.kind == 'iter' and nz.expr(n.ast.iter, n) in ('$handlers', anchors.global_handlers(model))]  # type: ignore[attr-defined]
    if len(loops) != 2:
        raise AnalysisError(f"{mk.loc()}: expected two handler loops in make_converter, found {len(loops)}")
    shapes = []
    rd = cfg.reaching()

    def hook(nm: str, node: t.Any) -> t.Optional[str]:
        defs = rd.by_name.get(nm, [])
        if defs and all(d.kind == 'assign' and isinstance(d.value, ast.Call) and isinstance(d.value.func, ast.Name)
                        and any(dd.kind == 'for' for dd in rd.by_name.get(d.value.func.id, [])) for d in defs):
            return 'RESULT'
        return None
    nz = Normalizer(model, mk, cfg, param_map=_pm(mk), name_hook=hook)
    for lp in loops:
        body = [n for n in cfg.live_nodes() if lp.ast in n.loop_of]
        lits = sorted(('' if p else 'not ') + a for n in body if n.kind == 'cond' for (a, p) in [nz.literal(n.ast, n)])
        hcs = sorted(str(handler_classes(model, mk, n.ast)) for n in body if n.kind == 'handler')  # type: ignore[arg-type]
        rets = sorted(nz.expr(n.ast.value, n) for n in body if n.kind == 'return' and n.ast is not None and n.ast.value is not None)
        calls = [c for n in body for root in node_exprs(n) for c in walk_no_nested(root) if isinstance(c, ast.Call) and nz.expr(c.func, n).startswith('ELEM(')]
        shapes.append((lits, hcs, [re.sub(r'ELEM\([^)]*\)', 'H', x) for x in rets]))
        r.instances += 1
        r.sample({'loop over': nz.expr(lp.ast.iter, lp), 'tests': lits, 'catches': hcs})  # type: ignore[attr-defined]
        ok = any('NotImplemented' in x for x in lits) and hcs == ["['builtins.NotImplementedError']"] and len(calls) == 1 and rets
        if ok:
            r.ok()
        else:
            r.fail(mk.qualname, f"handler loop over {nz.expr(lp.ast.iter, lp)}", mk.loc(lp.ast),  # type: ignore[attr-defined]
                   "a handler answering NotImplemented (or raising NotImplementedError) must defer to the next one")
    r.instances += 1
    if shapes[0] == shapes[1]:
        r.ok()
    else:
        r.fail(mk.qualname, f"loops differ: {shapes}", mk.loc(loops[0].ast), "call-level and registered handlers are consulted with different protocols")
    inner = model.func('pane.convert.ConverterHandlers._process.inner')
    icfg = cfg_of(model, inner)
    inz = Normalizer(model, inner, icfg, param_map={p: f'${p}' for p in inner.params})
    r.instances += 1
    r.analysed.add(inner.qualname)
    rets = [(n, inz.expr(n.ast.value, n)) for n in icfg.live_nodes() if n.kind == 'return' and n.ast is not None and n.ast.value is not None]
    hits = [(n, x) for (n, x) in rets if x != 'builtins.NotImplemented']
    r.sample({'mapping handler returns': [x for _n, x in rets]})
    if len(hits) != 1 or len(rets) < 2:
        r.fail(inner.qualname, f"returns {[x for _n, x in rets]}", inner.loc(), "a mapping-form handler must answer NotImplemented for every type it does not list")
    else:
        hn = hits[0][0]
        lits = set()
        for a in icfg.nodes:
            if a.kind == 'cond':
                for lb in ('T', 'F'):
                    if a.edge(lb) and icfg.edge_dominates(a, lb, hn):
                        text, pos = inz.literal(a.ast, a)
                        lits.add(('' if pos == (lb == 'T') else 'not ') + text)
        member = any(re.match(r'^\$ty in ', x) for x in lits)
        bare = 'not TRUTHY($args)' in lits
        if member and bare and len(lits) == 2:
            r.ok()
        else:
            r.fail(inner.qualname, f"matches when {sorted(lits)}", inner.loc(hn.ast),
                   "a mapping-form handler must match only the exact, unparameterised type (ty in mapping and no type arguments)")
    return r


CONVERSION_CALLS = {
    'pane.convert.from_data', 'pane.convert.into_data', 'pane.convert.convert',
    'pane.io.from_json', 'pane.io.from_yaml', 'pane.io.from_yaml_all', 'pane.io.write_json', 'pane.io.write_yaml',
    'pane.convert.ConverterHandlers.make',
}


def rule_c18_r4(model: Model) -> RuleResult:
    r = RuleResult('C18-R4', 'every entry point with a custom= parameter forwards it to every conversion call it makes', floor=15)
    for f in model.all_functions():
        if not isinstance(f.node, ast.FunctionDef) or 'custom' not in f.params:
            continue
        is_overload = any('overload' in unparse(d) for d in f.decorators)
        if is_overload:
            continue
        calls = []
        for c in ast.walk(f.node):
            if isinstance(c, ast.Call) and model.enclosing_function(c) is f:
                q = model.resolve(c.func, f.module, f)
                if q in CONVERSION_CALLS:
                    calls.append((c, q))
        if not calls and f.name != '__init_subclass__':
            r.instances += 1
            r.fail(f.qualname, 'custom never used', f.loc(), "the function accepts custom= but makes no conversion call that could honour it")
        for (c, q) in calls:
            r.instances += 1
            r.analysed.add(f.qualname)
            passed = {k.arg: unparse(k.value) for k in c.keywords}
            pos = [unparse(a) for a in c.args]
            r.sample({'function': f.qualname, 'call': unparse(c)[:70]})
            if passed.get('custom') == 'custom' or (q.endswith('.make') and 'custom' in pos):
                r.ok()
            else:
                r.fail(f.qualname, unparse(c)[:90], f.loc(c), "custom= is accepted but not forwarded to this conversion call: call-level handlers are silently ignored here")
    return r


# ---------------------------------------------------------------------------- C19


def rule_c19_r1(model: Model) -> RuleResult:
    r = RuleResult('C19-R1', "the caller's streams are left open (and untouched); paths are opened as UTF-8 and closed", floor=7)
    # every open_file(...) call is the context expression of a with statement
    for f in model.all_functions():
        for c in ast.walk(f.node):
            if isinstance(c, ast.Call) and model.resolve(c.func, f.module, f) == 'pane.io.open_file' and model.enclosing_function(c) is f:
                r.instances += 1
                r.analysed.add(f.qualname)
                par = getattr(c, '_parent', None)
                if isinstance(par, ast.withitem):
                    r.ok()
                else:
                    r.fail(f.qualname, unparse(c)[:60], f.loc(c), "a file opened from a path is not closed (open_file used outside `with`)")
    of = model.func('pane.io.open_file')
    cfg = cfg_of(model, of)
    nz = Normalizer(model, of, cfg, param_map=_pm(of))
    r.analysed.add(of.qualname)
    rets = []
    rd_ = cfg.reaching()
    for n in cfg.live_nodes():
        if n.kind == 'return' and n.ast is not None and n.ast.value is not None:
            v = n.ast.value
            defs = rd_.at(n, v.id) if isinstance(v, ast.Name) and rd_.is_local(v.id) else []
            if len(defs) > 1 and all(d.kind == 'assign' and d.value is not None and not d.path for d in defs):
                # `manager = open(...)` in one arm, `manager = nullcontext(...)` in the other, one `return manager`
                rets.extend((d.node, nz.expr(d.value, d.node)) for d in defs)
            else:
                rets.append((n, nz.expr(v, n)))
    opens = [(n, x) for (n, x) in rets if x.startswith('open(')]
    nulls = [(n, x) for (n, x) in rets if x.startswith('contextlib.nullcontext(')]
    r.instances += 1
    r.sample({'open_file returns': [x for _n, x in rets]})
    if len(opens) == 1 and re.search(r'encoding=\$encoding', opens[0][1]) and len(opens) + len(nulls) == len(rets) and nulls:
        r.ok()
    else:
        r.fail(of.qualname, f"returns {[x[:60] for _n, x in rets]}", of.loc(),
               "open_file must return open(path, ..., encoding=encoding) for paths and nullcontext(stream) for caller-provided streams")
    # encoding defaults to utf-8
    r.instances += 1
    a = of.node.args
    dmap = {x.arg: d for x, d in zip(a.args[len(a.args) - len(a.defaults):], a.defaults)}
    enc = dmap.get('encoding')
    if isinstance(enc, ast.Constant) and str(enc.value).lower().replace('-', '') == 'utf8':
        r.ok()
    else:
        r.fail(of.qualname, f"encoding default {unparse(enc) if enc is not None else None}", of.loc(), "paths are not opened as UTF-8 by default")
    # the path branch is taken exactly for non-streams
    r.instances += 1
    if opens:
        lits = set()
        for x in cfg.nodes:
            if x.kind == 'cond':
                for lb in ('T', 'F'):
                    if x.edge(lb) and cfg.edge_dominates(x, lb, opens[0][0]):
                        text, pos = nz.literal(x.ast, x)
                        lits.add(('' if pos == (lb == 'T') else 'not ') + text)
        if any(re.match(r'^not isinstance\(\$f, \{.*io\.IOBase.*\}\)$', y) for y in lits):
            r.ok()
        else:
            r.fail(of.qualname, f"open() when {sorted(lits)}", of.loc(opens[0][0].ast), "open() is applied to something that may be a stream")
    # a caller's *text* stream is handed back as the same object: no re-wrapping of its buffer
    rebinds = [n for n in cfg.live_nodes() if n.kind == 'stmt' and isinstance(n.ast, ast.Assign) and any(unparse(tg) == of.params[0] for tg in n.ast.targets)]
    tw_conds = [x for x in cfg.nodes if x.kind == 'cond' and re.match(r'^isinstance\(\$f, \{io\.TextIOWrapper\}\)$', nz.literal(x.ast, x)[0])]
    for n in rebinds:
        r.instances += 1
        ok = False
        for x in tw_conds:
            pos = nz.literal(x.ast, x)[1]
            if x.edge('F' if pos else 'T') and cfg.edge_dominates(x, 'F' if pos else 'T', n):
                ok = True
        r.sample({'rebinding': unparse(n.ast)[:70], 'excluded for TextIOWrapper': ok})
        if ok:
            r.ok()
        else:
            r.fail(of.qualname, unparse(n.ast)[:80], of.loc(n.ast),
                   "a caller's text stream (TextIOWrapper) can reach this re-wrapping: the temporary wrapper shares the caller's buffer and closes it "
                   "when it is discarded, so the caller's stream ends up closed")
    # nobody closes a stream explicitly
    for q in ('pane.io', 'pane.classes'):
        m = model.module(q)
        for c in ast.walk(m.tree):
            if isinstance(c, ast.Call) and isinstance(c.func, ast.Attribute) and c.func.attr in ('close', 'detach'):
                r.instances += 1
                r.fail(q, unparse(c)[:60], f"{m.relpath}:{c.lineno}", "a stream is closed / detached explicitly by the library")
    return r


JSON_OPTS = ['indent', 'sort_keys']
YAML_OPTS = ['indent', 'width', 'allow_unicode', 'explicit_start', 'explicit_end', 'default_style', 'default_flow_style', 'sort_keys']


def rule_c19_r2(model: Model) -> RuleResult:
    r = RuleResult('C19-R2', 'every formatting option, the type and the handlers are forwarded to the next layer under the same name', floor=24)
    specs = [
        ('pane.io.write_json', 'json.dump', JSON_OPTS),
        ('pane.io.write_yaml', 'yaml.dump', YAML_OPTS),
        ('pane.classes.PaneBase.write_json', 'pane.io.write_json', JSON_OPTS + ['custom']),
        ('pane.classes.PaneBase.write_yaml', 'pane.io.write_yaml', YAML_OPTS + ['custom']),
    ]
    for (fq, target, opts) in specs:
        f = model.func(fq)
        r.analysed.add(fq)
        calls = [c for c in ast.walk(f.node) if isinstance(c, ast.Call) and (model.resolve(c.func, f.module, f) == target or unparse(c.func) == target)]
        if not calls or len(calls) > 4:
            raise AnalysisError(f"{f.loc()}: {fq}: expected a call to {target}, found {len(calls)}")
        kws = [{k.arg: unparse(k.value) for k in c.keywords} for c in calls]
        for o in opts:
            r.instances += 1
            bad = next((i for i, kw in enumerate(kws) if kw.get(o) != o), None)
            if o not in f.params:
                r.fail(fq, f"no parameter {o}", f.loc(), f"the documented formatting option {o} is not accepted")
            elif bad is None:
                r.ok()
            else:
                r.fail(fq, f"{o} -> {kws[bad].get(o)}", f.loc(calls[bad]), f"the option {o} is accepted but not handed to {target}: the output ignores it")
        r.sample({fq: sorted(str(k_) for k_ in kws[0])})
    # into_data(obj, ty, custom=custom) inside the io writers; ty=self.__class__ in the methods
    for fq in ('pane.io.write_json', 'pane.io.write_yaml'):
        f = model.func(fq)
        r.instances += 1
        calls = [c for c in ast.walk(f.node) if isinstance(c, ast.Call) and model.resolve(c.func, f.module, f) == 'pane.convert.into_data']
        if len(calls) == 1 and [unparse(a) for a in calls[0].args] == f.params[:1] + ['ty'] \
                and {k.arg: unparse(k.value) for k in calls[0].keywords} == {'custom': 'custom'}:
            r.ok()
        else:
            r.fail(fq, 'into_data(obj, ty, custom=custom)', f.loc(), "the value is not serialised with the given type and handlers before being written")
    for fq in ('pane.classes.PaneBase.write_json', 'pane.classes.PaneBase.write_yaml'):
        f = model.func(fq)
        cfg = cfg_of(model, f)
        nz = Normalizer(model, f, cfg, param_map=_pm(f))
        r.instances += 1
        target = 'pane.io.' + fq.split('.')[-1]
        def f_is_none(n_: Node) -> t.Optional[bool]:
            """Is the site reached only when no file was given (True), only when one was given (False), or either way (None)?"""
            out_: t.Optional[bool] = None
            for (cid, lb) in cfg.conditions_of(n_):
                cn = cfg.nodes[cid]
                if cn.kind == 'cond' and cn.ast is not None:
                    text, pos = nz.literal(cn.ast, cn)
                    if text in ('$f is None', 'None is $f'):
                        out_ = (pos == (lb == 'T'))
            return out_
        IFX = r'(\$f is None|None is \$f)'
        sites = []
        for n in cfg.live_nodes():
            for root in node_exprs(n):
                for c in walk_no_nested(root):
                    if isinstance(c, ast.Call) and model.resolve(c.func, f.module, f) == target and len(c.args) >= 2:
                        sites.append((nz.expr(c.args[1], n), next((nz.expr(k.value, n) for k in c.keywords if k.arg == 'ty'), None), f_is_none(n)))
        rets = [(nz.expr(n.ast.value, n), f_is_none(n)) for n in cfg.live_nodes() if n.kind == 'return' and n.ast is not None and n.ast.value is not None]
        r.sample({fq: {'writes': sites, 'returns': rets}})
        ok = bool(sites) and bool(rets)
        for (sink, ty, when) in sites:
            if ty != 'self.__class__':
                ok = False
            if re.fullmatch(r'\(io\.StringIO\(\) if %s else \$f\)' % IFX, sink or ''):
                continue
            if (sink == '$f' and when is False) or (sink == 'io.StringIO()' and when is True):
                continue
            ok = False
        for (form, when) in rets:
            if re.fullmatch(r'\(\(io\.StringIO\(\) if %s else \$f\)\.getvalue\(\) if %s else None\)' % (IFX, IFX), form):
                continue
            if (form == 'None' and when is False) or (form == 'io.StringIO().getvalue()' and when is True):
                continue
            if when is True and re.fullmatch(r'\(io\.StringIO\(\) if %s else \$f\)\.getvalue\(\)' % IFX, form):
                continue      # the buffer chosen by the same test, read under that test
            ok = False
        if ok:
            r.ok()
        else:
            r.fail(fq, f"writes {sites}, returns {rets}", f.loc(), "the method must write self as its own class and return the text exactly when no file was given")
    # readers
    for (fq, lib) in (('pane.io.from_json', 'json.load'), ('pane.io.from_yaml', 'yaml.load'), ('pane.io.from_yaml_all', 'yaml.load_all')):
        f = model.func(fq)
        r.instances += 1
        r.analysed.add(fq)
        cfg = cfg_of(model, f)
        nz = Normalizer(model, f, cfg, param_map=_pm(f))
        good = False
        for n in cfg.live_nodes():
            for root in node_exprs(n):
                for c in walk_no_nested(root):
                    if isinstance(c, ast.Call) and model.resolve(c.func, f.module, f) == 'pane.convert.from_data' and c.args:
                        a0 = nz.expr(c.args[0], n)
                        if {k.arg: unparse(k.value) for k in c.keywords} == {'custom': 'custom'} and lib + '(CTX(pane.io.open_file($f))' in a0:
                            good = True
        if good:
            r.ok()
        else:
            r.fail(fq, 'from_data(<parsed document>, ty, custom=custom)', f.loc(), "the parsed document is not converted with the given type and handlers")
    for name in ('from_json', 'from_yaml', 'from_yaml_all', 'from_yamls', 'from_jsons'):
        f = model.func(f'pane.classes.PaneBase.{name}')
        r.instances += 1
        src = unparse(f.node)
        base = name.rstrip('s') if name.endswith('s') and name not in ('from_yamls', 'from_jsons') else name
        target = {'from_yamls': 'from_yaml', 'from_jsons': 'from_json'}.get(name, name)
        if re.search(r'io\.%s\((StringIO\(s\)|f), cls, custom=custom\)' % target, src):
            r.ok()
        else:
            r.fail(f.qualname, name, f.loc(), f"the classmethod does not delegate to io.{target}(source, cls, custom=custom)")
    return r


def possible_objects(model: Model, f: FuncInfo, e: ast.AST, node: Node, depth: int = 0) -> t.Set[str]:
    """Qualified names an expression may denote, following local imports / assignments and the returns of
    zero-argument helper functions of the package."""
    from ..model import import_bindings
    if depth > 4:
        return {'?'}
    cfg = cfg_of(model, f)
    rd = cfg.reaching()
    if isinstance(e, ast.Name) and rd.is_local(e.id):
        out: t.Set[str] = set()
        for d in rd.at(node, e.id):
            if d.kind == 'import' and isinstance(d.stmt, (ast.Import, ast.ImportFrom)):
                out.add(import_bindings(d.stmt, f.module.name).get(e.id, '?'))
            elif d.kind == 'assign' and d.value is not None and not d.path:
                out |= possible_objects(model, f, d.value, d.node, depth + 1)
            else:
                out.add('?')
        return out or {'?'}
    if isinstance(e, ast.Call) and not e.args and not e.keywords:
        q = model.resolve(e.func, f.module, f)
        g = model.functions.get(q or '')
        if g is not None and isinstance(g.node, ast.FunctionDef):
            gcfg = cfg_of(model, g)
            out = set()
            for n in gcfg.live_nodes():
                if n.kind == 'return' and n.ast is not None and n.ast.value is not None:
                    out |= possible_objects(model, g, n.ast.value, n, depth + 1)
            return out or {'?'}
    q = model.resolve(e, f.module, f)
    return {q} if q else {'?'}


def rule_c19_r3(model: Model) -> RuleResult:
    r = RuleResult('C19-R3', 'readers and writers pair up: safe loader / dumper, one converted value per YAML document', floor=5)
    for (fq, fn_name, safe) in (('pane.io.from_yaml', 'yaml.load', {'yaml.CSafeLoader', 'yaml.SafeLoader'}),
                                ('pane.io.from_yaml_all', 'yaml.load_all', {'yaml.CSafeLoader', 'yaml.SafeLoader'}),
                                ('pane.io.write_yaml', 'yaml.dump', {'yaml.CSafeDumper', 'yaml.SafeDumper'})):
        f = model.func(fq)
        cfg = cfg_of(model, f)
        r.instances += 1
        r.analysed.add(fq)
        found = None
        for n in cfg.live_nodes():
            for root in node_exprs(n):
                for c in walk_no_nested(root):
                    if isinstance(c, ast.Call) and unparse(c.func) == fn_name:
                        arg = None
                        if fn_name == 'yaml.dump':
                            arg = next((k.value for k in c.keywords if k.arg == 'Dumper'), None)
                        else:
                            arg = c.args[1] if len(c.args) > 1 else next((k.value for k in c.keywords if k.arg == 'Loader'), None)
                        found = possible_objects(model, f, arg, n) if arg is not None else set()
        r.sample({fq: sorted(found) if found is not None else None})
        if found and found <= safe and any('Safe' in x and not x.split('.')[-1].startswith('C') for x in found):
            r.ok()
        else:
            r.fail(fq, f"{fn_name} with {sorted(found) if found is not None else 'no call'}", f.loc(),
                   "YAML is not read / written with the safe loader / dumper (C implementation with the pure-python fallback): "
                   "what one side emits the other may not accept")
    f = model.func('pane.io.from_yaml_all')
    cfg = cfg_of(model, f)
    nz = Normalizer(model, f, cfg, param_map=_pm(f))
    r.instances += 1
    r.analysed.add(f.qualname)
    objs = []
    for n in cfg.live_nodes():
        for root in node_exprs(n):
            for c in walk_no_nested(root):
                if isinstance(c, ast.Call) and model.resolve(c.func, f.module, f) == 'pane.convert.from_data' and c.args:
                    objs.append(nz.expr(c.args[0], n))
    r.sample({'from_yaml_all documents': objs})
    if objs and all(re.match(r'^list\(yaml\.load_all\(CTX\(pane\.io\.open_file\(\$f\)\), .*\)\)$', x) or re.match(r'^list\(yaml\.load_all\(.*\)\)$', x) and ' if ' not in x for x in objs):
        r.ok()
    else:
        r.fail(f.qualname, f"obj = {objs}", f.loc(), "from_yaml_all must keep every document (list(yaml.load_all(...))): filtered documents disappear from the result")
    r.instances += 1
    calls = [c for c in ast.walk(f.node) if isinstance(c, ast.Call) and model.resolve(c.func, f.module, f) == 'pane.convert.from_data']
    if calls and len(calls[0].args) >= 2 and unparse(calls[0].args[1]) in ('t.List[ty]', 'typing.List[ty]', 'list[ty]'):
        r.ok()
    else:
        r.fail(f.qualname, 'element type', f.loc(), "the documents are not converted as List[ty]")
    # json pairing
    for (fq, lib) in (('pane.io.from_json', 'json.load'), ('pane.io.write_json', 'json.dump')):
        f = model.func(fq)
        r.instances += 1
        if lib + '(' in unparse(f.node):
            r.ok()
        else:
            r.fail(fq, lib, f.loc(), f"{fq} does not use {lib}")
    return r


def _dict_items(f: FuncInfo, name: str, cfg: t.Any, nz: Normalizer) -> t.Optional[t.List[t.Tuple[str, str]]]:
    """(key, normal form of the value) of everything ever stored in the local dictionary ``name`` (display items and ``name[k] = v``
    stores); None when the dictionary is filled in a way the rule cannot enumerate."""
    out: t.List[t.Tuple[str, str]] = []
    for n in cfg.live_nodes():
        a = n.ast
        if n.kind != 'stmt' or a is None:
            continue
        tgts = a.targets if isinstance(a, ast.Assign) else ([a.target] if isinstance(a, ast.AnnAssign) and a.value is not None else [])
        for tg in tgts:
            if isinstance(tg, ast.Name) and tg.id == name:
                v = a.value
                if isinstance(v, ast.Dict):
                    for k, x in zip(v.keys, v.values):
                        if not (isinstance(k, ast.Constant) and isinstance(k.value, str)):
                            return None
                        out.append((k.value, nz.expr(x, n)))
                elif isinstance(v, ast.Call) and isinstance(v.func, ast.Name) and v.func.id == 'dict' and not v.args:
                    for kw in v.keywords:
                        if kw.arg is None:
                            return None
                        out.append((kw.arg, nz.expr(kw.value, n)))
                else:
                    return None
            elif isinstance(tg, ast.Subscript) and isinstance(tg.value, ast.Name) and tg.value.id == name:
                if not (isinstance(tg.slice, ast.Constant) and isinstance(tg.slice.value, str)):
                    return None
                out.append((tg.slice.value, nz.expr(a.value, n)))
        for sub in walk_no_nested(a):
            if isinstance(sub, ast.Call) and isinstance(sub.func, ast.Attribute) and isinstance(sub.func.value, ast.Name) \
                    and sub.func.value.id == name and sub.func.attr in ('update', 'setdefault', 'pop', '__setitem__', 'clear'):
                return None
    return out


def rule_spec_substitution_keeps_settings(model: Model, rule_id: str = 'C18-R7') -> RuleResult:
    """C18 / C17: specialising a generic class changes a field's type and nothing else (its converter, names, defaults stay)."""
    r = RuleResult(rule_id, "type-variable substitution of a field declaration replaces its type only (the field's own converter and every "
                            "other setting are kept)", floor=1)
    f = model.func('pane.field.FieldSpec.replace_typevars')
    cfg = cfg_of(model, f)
    nz = Normalizer(model, f, cfg, param_map=_pm(f))
    r.analysed.add(f.qualname)
    for n in cfg.live_nodes():
        if n.kind != 'return' or n.ast is None or n.ast.value is None:
            continue
        r.instances += 1
        form = nz.expr(n.ast.value, n)
        # `changes = {}; if ...: changes['ty'] = ...; return replace(self, **changes)`: spell the keyword dictionary out
        rv = n.ast.value
        if isinstance(rv, ast.Call):
            for k_ in rv.keywords:
                if k_.arg is None and isinstance(k_.value, ast.Name):
                    items = _dict_items(f, k_.value.id, cfg, nz)
                    if items is not None:
                        spelled = ', '.join(f"{a}={b}" for a, b in items)
                        form = re.sub(r',?\s*\*\*\{[^{}]*\}', (', ' + spelled) if spelled else '', form)
        r.sample({'returns': form[:120]})
        alts = [form]
        if _is_wrapped(form, 'PHI('):
            alts = _split_top(form[4:-1], '|')
        bad = []
        simultaneous: t.List[str] = []
        for a in alts:
            m_ = re.match(r'^(dataclasses\.replace|copy\.copy|copy\.replace)\(self(?:, (.*))?\)$', a)
            if a == 'self':
                continue
            if not m_:
                bad.append(a)
                continue
            kvs = [k.split('=', 1) for k in _split_top(m_.group(2) or '', ',') if k.strip()]
            kws = [k[0].strip() for k in kvs]
            if any(k != 'ty' for k in kws):
                bad.append(a)
                continue
            for k in kvs:
                if len(k) == 2 and not re.fullmatch(r'pane\.util\.replace_typevars\(self\.ty, \$replacements\)', k[1].strip()):
                    simultaneous.append(k[1].strip())
        if bad:
            r.fail(f.qualname, f"returns {bad[0][:120]}", f.loc(n.ast),
                   "the specialised field loses or changes a setting other than its type: e.g. field(converter=...) on a TypeVar-typed field is "
                   "dropped in Box[int], so class-level or built-in converters are used instead of the field's own")
        elif simultaneous:
            r.fail(f.qualname, f"ty={simultaneous[0][:100]}", f.loc(n.ast),
                   "the field's type is not the result of one simultaneous substitution replace_typevars(self.ty, replacements): applying the "
                   "bindings one after another lets a later binding rewrite what an earlier one produced (Child(Base[U, T]) swaps or "
                   "collapses the variables)")
        else:
            r.ok()
    return r


def _is_wrapped(form: str, head: str) -> bool:
    """``form`` is exactly ``head ... )`` with the parenthesis opened by ``head`` closing at the very end."""
    if not (form.startswith(head) and form.endswith(')')):
        return False
    depth = 0
    for i, ch in enumerate(form):
        if ch in '([{':
            depth += 1
        elif ch in ')]}':
            depth -= 1
            if depth == 0:
                return i == len(form) - 1
    return False


def _split_top(s: str, sep: str) -> t.List[str]:
    out, cur, depth = [], '', 0
    quote = None
    for ch in s:
        if quote:
            cur += ch
            if ch == quote:
                quote = None
            continue
        if ch in '\'"':
            quote = ch
        if ch in '([{':
            depth += 1
        elif ch in ')]}':
            depth -= 1
        if ch == sep and depth == 0:
            out.append(cur.strip())
            cur = ''
        else:
            cur += ch
    if cur.strip():
        out.append(cur.strip())
    return out


PARSE_HOOKS = {'object_hook', 'parse_float', 'parse_int', 'parse_constant', 'object_pairs_hook', 'cls', 'strict'}


def rule_io_passes_documents_through(model: Model, rule_id: str = 'C19-R5') -> RuleResult:
    """C19: what the parser produced is what gets converted, and what the converter produced is what gets dumped (no default, no filter)."""
    r = RuleResult(rule_id, 'readers convert exactly the parsed document and writers dump exactly the serialised value (no `or` default, '
                            'no filtering in between)', floor=8)
    m = model.module('pane.io')
    for f in model.all_functions():
        if f.module is not m or not isinstance(f.node, ast.FunctionDef):
            continue
        cfg = cfg_of(model, f)
        nz = Normalizer(model, f, cfg, param_map=_pm(f))
        for n in cfg.live_nodes():
            for root in node_exprs(n):
                for c in walk_no_nested(root):
                    if not isinstance(c, ast.Call) or not c.args:
                        continue
                    q = model.resolve(c.func, f.module, f) or nz.expr(c.func, n)
                    if q in ('json.load', 'json.loads', 'yaml.load', 'yaml.load_all', 'yaml.safe_load', 'yaml.safe_load_all'):
                        r.instances += 1
                        r.analysed.add(f.qualname)
                        hooks = [k.arg or '**' for k in c.keywords if (k.arg or '**') in PARSE_HOOKS or k.arg is None]
                        r.sample({f.name: unparse(c)[:100], 'parse hooks': hooks})
                        if hooks:
                            r.fail(f.qualname, f"{q}(..., {', '.join(hooks)}=...)", f.loc(c),
                                   "the parser is given a hook that replaces or refuses part of the document (constants such as NaN / Infinity, "
                                   "floats, ints, objects): values the writer produces no longer read back as written")
                        else:
                            r.ok()
                    if q == 'pane.convert.from_data':
                        r.instances += 1
                        r.analysed.add(f.qualname)
                        form = nz.expr(c.args[0], n)
                        r.sample({f.name: form[:100]})
                        if re.match(r'^(list\()?(json|yaml)\.(load|loads|load_all)\(', form):
                            r.ok()
                        else:
                            r.fail(f.qualname, f"from_data({form[:100]})", f.loc(c),
                                   "the value converted is not the parsed document itself: a falsy document (0, False, '', [], null) or part of it "
                                   "is replaced or dropped, so a written value does not read back")
                    elif q in ('json.dump', 'json.dumps', 'yaml.dump', 'yaml.dump_all', 'yaml.safe_dump'):
                        r.instances += 1
                        r.analysed.add(f.qualname)
                        form = nz.expr(c.args[0], n)
                        r.sample({f.name: form[:100]})
                        if re.match(r'^pane\.convert\.into_data\(\$\w+', form):
                            r.ok()
                        else:
                            r.fail(f.qualname, f"{q}({form[:100]})", f.loc(c),
                                   "the value dumped is not the serialised object itself")
    return r


def rule_union_writer_keeps_handlers(model: Model, rule_id: str = 'C18-R8') -> RuleResult:
    """C18: serialising through a union keeps the handlers of the call (the writer picks a converter by runtime type when no member claims the value)."""
    r = RuleResult(rule_id, "the writers of union-like converters build every converter they need with the union's own handlers "
                            "(no bare into_data(...) / make_converter(...) of the runtime type)", floor=2)
    base = 'pane.converters.UnionConverter'
    fam = [c for c in family(model) if c.qualname == base or model.is_subclass(c.qualname, base)]
    for cls in fam:
        f = cls.methods.get('into_data')
        if f is None:
            continue
        cfg = cfg_of(model, f)
        nz = Normalizer(model, f, cfg)
        r.analysed.add(f.qualname)
        for c in ast.walk(f.node):
            if not isinstance(c, ast.Call):
                continue
            q = model.resolve(c.func, f.module, f)
            if q not in ('pane.convert.into_data', 'pane.convert.from_data', 'pane.convert.convert', MK):
                continue
            r.instances += 1
            passed = [unparse(a) for a in c.args] + [unparse(k.value) for k in c.keywords]
            ok = any(re.search(r'\bself\.handlers\b', p_) for p_ in passed)
            # a value that is not of the union's types at all (wrong wrapper class) is outside the property
            guard_foreign = False
            n = cfg.node_of(c)
            if n is not None:
                for (cid, lb) in cfg.conditions_of(n):
                    cn = cfg.nodes[cid]
                    if cn.kind == 'cond' and cn.ast is not None:
                        text, pos = nz.literal(cn.ast, cn)
                        if text.startswith('isinstance(VAL, ') and (pos != (lb == 'T')):
                            guard_foreign = True
            r.sample({'function': f.qualname, 'call': unparse(c)[:80], 'handlers passed': ok, 'only for foreign values': guard_foreign})
            if ok or guard_foreign:
                r.ok()
            else:
                r.fail(f.qualname, unparse(c)[:90], f.loc(c),
                       "a value under a union is serialised by a converter built without the handlers of the call: custom= stops applying "
                       "inside Optional[...] / Union[...] / ValueOrList[...] on output, although it applies on input")
        # whatever leaves the writer went through some converter's writer (a member's, or the runtime type's): no value is handed out raw
        for n in cfg.live_nodes():
            if n.kind != 'return' or n.ast is None or n.ast.value is None:
                continue
            r.instances += 1
            form = nz.expr(n.ast.value, n)
            r.sample({'function': f.qualname, 'returns': form[:90]})
            alts = _split_top(form[4:-1], '|') if _is_wrapped(form, 'PHI(') else [form]
            raw = [a for a in alts if not re.search(r'(\.into_data\(|\.map\(|^\[|^LIST\(|^GEN\(|^list\(|^tuple\()', a)]
            if raw:
                r.fail(f.qualname, f"returns {raw[0][:80]}", f.loc(n.ast),
                       "a value leaves the union writer without passing through a member's writer (a constant / the value itself): a custom "
                       "converter registered for that member (e.g. for NoneType inside Optional[...]) is bypassed on output but applied on input")
            else:
                r.ok()
    return r


STREAM_OK = {'reconfigure', 'readable', 'writable', 'closed', 'buffer', 'seekable', 'encoding', 'newlines', 'name', 'mode', 'isatty', 'fileno'}


def rule_stream_untouched(model: Model, rule_id: str = 'C19-R6') -> RuleResult:
    """C19: position and content of a caller's stream belong to the caller: the library only checks it and reconfigures its encoding."""
    r = RuleResult(rule_id, "the file helpers call nothing on a caller's stream that moves its position or changes its content "
                            "(no seek / truncate / write / flush / close)", floor=2)
    m = model.module('pane.io')
    for fq in ('pane.io.open_file', 'pane.io._validate_file'):
        f = model.functions.get(fq)
        if f is None:
            if fq.endswith('open_file'):
                raise AnalysisError("pane.io.open_file not found")
            continue
        r.instances += 1
        r.analysed.add(fq)
        stream = f.params[0]
        bad = []
        for x in ast.walk(f.node):
            if isinstance(x, ast.Attribute) and isinstance(x.value, ast.Name) and x.value.id == stream and isinstance(x.ctx, ast.Load):
                if x.attr not in STREAM_OK:
                    bad.append((x, x.attr))
        r.sample({fq: sorted({a for _x, a in bad}) or 'only checks / reconfigure'})
        if bad:
            for (x, a) in bad:
                r.fail(fq, f"{stream}.{a}", f.loc(x),
                       "the caller's stream is rewound, truncated, written to or closed by the helper: several documents written one after "
                       "another to one stream overwrite each other, and content the caller wrote before is lost")
        else:
            r.ok()
    _ = m
    return r
