"""C15 (layouts and field names), C16 (value semantics), C17 (inheritance and generics) — DESIGN §17-19."""
from __future__ import annotations

import ast
import importlib.util
import re
import typing as t

from .. import anchors
from ..cfg import CFG, Node, cfg_of, node_exprs, walk_no_nested
from ..model import AnalysisError, FuncInfo, Model, ancestors, unparse
from ..norm import Normalizer
from ..report import RuleResult

CLS = 'pane.classes'


def _pm(f: FuncInfo) -> t.Dict[str, str]:
    pm = {p: f'${p}' for p in f.params}
    if f.params and f.params[0] in ('self', 'cls'):
        pm[f.params[0]] = f.params[0]
    return pm


def find_options_replace(f: FuncInfo) -> t.Optional[ast.Call]:
    """The ``<options>.replace(name=..., eq=..., ...)`` call of __init_subclass__ (whatever the local is called)."""
    best = None
    for c in ast.walk(f.node):
        if isinstance(c, ast.Call) and isinstance(c.func, ast.Attribute) and c.func.attr == 'replace':
            kws = {k.arg for k in c.keywords if k.arg}
            if len(kws & {'eq', 'order', 'frozen', 'kw_only', 'allow_extra', 'out_format', 'in_format', 'class_handlers'}) >= 4:
                best = c
    return best


def _literal_strings(model: Model, modname: str, name: str) -> t.List[str]:
    v = model.module(modname).assign_values.get(name)
    if not isinstance(v, ast.Subscript):
        raise AnalysisError(f"{modname}.{name} is not a Literal[...] alias")
    elts = v.slice.elts if isinstance(v.slice, ast.Tuple) else [v.slice]
    return [e.value for e in elts if isinstance(e, ast.Constant) and isinstance(e.value, str)]


# ---------------------------------------------------------------------------- C15


def rule_c15_r1(model: Model) -> RuleResult:
    r = RuleResult('C15-R1', 'every rename style has exactly one joiner, every class layout is handled, one renaming implementation', floor=4)
    styles = _literal_strings(model, 'pane.field', 'RenameStyle')
    jt = anchors.short(anchors.joiner_table(model))
    tbl = model.table('pane.field', jt)
    if not isinstance(tbl, ast.Dict):
        raise AnalysisError("pane.field._CONVERT_FNS is not a dict display")
    keys = [k.value for k in tbl.keys if isinstance(k, ast.Constant)]
    r.instances += 1
    r.sample({'styles': styles, 'joiners': keys})
    if sorted(keys) == sorted(styles) and len(set(keys)) == len(keys):
        r.ok()
    else:
        r.fail('pane.field._CONVERT_FNS', f"styles {sorted(styles)} vs joiners {sorted(keys)}", 'pane/field.py',
               "a documented rename style has no joiner (KeyError at class creation) or a joiner has no style")
    layouts = _literal_strings(model, CLS, 'ClassLayout')
    pc = model.cls(f'{CLS}.PaneConverter')
    for mname in ('into_data', 'try_convert', 'collect_errors'):
        f = pc.methods.get(mname)
        if f is None:
            raise AnalysisError(f"PaneConverter.{mname} not found")
        consts = {c.value for c in ast.walk(f.node) if isinstance(c, ast.Constant) and isinstance(c.value, str) and c.value in layouts}
        r.instances += 1
        if consts == set(layouts):
            r.ok()
        else:
            r.fail(f.qualname, f"handles {sorted(consts)} of {sorted(layouts)}", f.loc(), "a documented class layout is not handled")
    # _CONVERT_FNS is consulted only by rename_field
    r.instances += 1
    users = set()
    for f in model.all_functions():
        for x in ast.walk(f.node):
            if isinstance(x, ast.Name) and x.id == jt and model.enclosing_function(x) is f:
                users.add(f.qualname)
    if users == {'pane.field.rename_field'}:
        r.ok()
    else:
        r.fail('pane.field._CONVERT_FNS', f"used by {sorted(users)}", 'pane/field.py', "field renaming has more than one implementation")
    return r


def rule_c15_r2(model: Model) -> RuleResult:
    r = RuleResult('C15-R2', 'the input-name map binds the Python name and every input name of every init field, and nothing else', floor=2)
    f = model.func(f'{CLS}.PaneConverter.__init__')
    cfg = cfg_of(model, f)
    nz = Normalizer(model, f, cfg, param_map=_pm(f))
    r.analysed.add(f.qualname)
    stores = []
    # locals that *are* the map (`field_map = {}` ... `self.field_map = field_map`)
    aliases = set()
    for st_ in ast.walk(f.node):
        tgts_ = st_.targets if isinstance(st_, ast.Assign) else ([st_.target] if isinstance(st_, ast.AnnAssign) and st_.value is not None else [])
        if any(unparse(x) == 'self.field_map' for x in tgts_) and isinstance(st_.value, ast.Name):     # type: ignore[union-attr]
            aliases.add(st_.value.id)      # type: ignore[union-attr]
    for n in cfg.live_nodes():
        if n.kind == 'stmt' and isinstance(n.ast, ast.Assign):
            for tg in n.ast.targets:
                if isinstance(tg, ast.Subscript) and nz.expr(tg.value, n).startswith('self.field_map') or \
                        (isinstance(tg, ast.Subscript) and unparse(tg.value) == 'self.field_map') or \
                        (isinstance(tg, ast.Subscript) and isinstance(tg.value, ast.Name) and tg.value.id in aliases):
                    stores.append((n, nz.expr(tg.slice, n).replace('self.cls_info.fields', 'self.fields'),
                                   nz.expr(n.ast.value, n).replace('self.cls_info.fields', 'self.fields')))
    keys = {k for (_n, k, _v) in stores}
    want = {'ELEM(self.fields).name', 'ELEM(ELEM(self.fields).in_names)'}
    r.instances += 1
    r.sample({'field_map keys': sorted(keys)})
    if keys == want:
        r.ok()
    else:
        r.fail(f.qualname, f"keys {sorted(keys)}", f.loc(), "the name map must contain exactly each field's Python name and its input names")
    for (n, k, v) in stores:
        r.instances += 1
        ok_v = v == 'INDEX(self.fields)'
        guard = False
        for a in cfg.nodes:
            if a.kind == 'cond':
                text, pos = nz.literal(a.ast, a)
                if text in ('TRUTHY(ELEM(self.cls_info.fields).init)', 'TRUTHY(ELEM(self.fields).init)') and a.edge('T' if pos else 'F') and cfg.edge_dominates(a, 'T' if pos else 'F', n):
                    guard = True
        # ... and by nothing else: every init field is readable (an excluded field is only left out of what is *written*)
        others = []
        for (cid, lb) in cfg.conditions_of(n):
            cn = cfg.nodes[cid]
            if cn.kind == 'cond' and cn.ast is not None:
                text, pos = nz.literal(cn.ast, cn)
                if text not in ('TRUTHY(ELEM(self.cls_info.fields).init)', 'TRUTHY(ELEM(self.fields).init)'):
                    others.append(('' if pos == (lb == 'T') else 'not ') + text)
        if ok_v and guard and not others:
            r.ok()
        elif others and ok_v and guard:
            r.fail(f.qualname, f"field_map[{k}] only when {others[0][:80]}", f.loc(n.ast),
                   "input names of some init fields are left out of the name map: data that names such a field (e.g. an exclude=True "
                   "field, which is only meant to be left out of the *output*) is refused as an unknown key, or silently dropped with "
                   "allow_extra")
        else:
            r.fail(f.qualname, f"field_map[{k}] = {v} (init-guarded: {guard})", f.loc(n.ast),
                   "a name is bound to the wrong field index, or names of init=False fields are accepted as input keys")
    return r


def _follow(cfg: CFG, node: Node, e: ast.AST) -> t.Tuple[ast.AST, Node]:
    """Follow plain names to the single assignment that defines them (value expression, defining node)."""
    seen = 0
    while isinstance(e, ast.Name) and seen < 8:
        defs = cfg.reaching().at(node, e.id)
        if len(defs) != 1 or defs[0].kind not in ('assign', 'walrus') or defs[0].value is None or defs[0].path:
            break
        e, node = defs[0].value, defs[0].node
        seen += 1
    return e, node


def _strip_seq(e: ast.AST) -> ast.AST:
    while isinstance(e, ast.Call) and isinstance(e.func, ast.Name) and e.func.id in ('list', 'tuple') and len(e.args) == 1 and not e.keywords:
        e = e.args[0]
    return e


class _BoundsInterp:
    """One iteration of the positional-bounds loop, interpreted over the Boolean attributes of an abstract field
    (init, kw_only, has_default) and the 'an optional field was seen' flag.  Conditions the interpreter cannot decide fork."""

    def __init__(self, model: Model, f: FuncInfo, loop: ast.For, min_name: str, max_name: str):
        self.model, self.f, self.loop = model, f, loop
        self.cfg = cfg_of(model, f)
        self.nz = Normalizer(model, f, self.cfg, param_map=_pm(f), inline_unique_methods=False)
        self.min_name, self.max_name = min_name, max_name
        if not isinstance(loop.target, ast.Name):
            raise AnalysisError(f"{f.loc(loop)}: bounds loop target is not a name")
        self.var = loop.target.id

    def atom(self, test: ast.expr, cfgd: t.Dict[str, bool], flags: t.Dict[str, bool]) -> t.Optional[bool]:
        if isinstance(test, ast.Name) and test.id in flags:
            return flags[test.id]
        if isinstance(test, ast.Constant):
            return bool(test.value)
        n = self.cfg.node_of(test)
        if n is None:
            return None
        text, pos = self.nz.literal(test, n)
        val: t.Optional[bool] = None
        if re.match(r'^TRUTHY\(ELEM\(.*\)\.init\)$', text):
            val = cfgd['init']
        elif re.match(r'^TRUTHY\(ELEM\(.*\)\.kw_only\)$', text):
            val = cfgd['kw']
        elif re.match(r'^(TRUTHY\()?ELEM\(.*\)\.has_default\(\)\)?$', text) or \
                re.match(r'^\(not ELEM\(.*\)\.default is [\w.]*_MISSING or not ELEM\(.*\)\.default_factory is None\)$', text):
            val = cfgd['dflt']
        if val is None:
            return None
        return val if pos else not val

    def truth(self, test: ast.expr, cfgd: t.Dict[str, bool], flags: t.Dict[str, bool], forks: t.Dict[str, bool]) -> bool:
        if isinstance(test, ast.UnaryOp) and isinstance(test.op, ast.Not):
            return not self.truth(test.operand, cfgd, flags, forks)
        if isinstance(test, ast.BoolOp):
            whole = self.atom(test, cfgd, flags)
            if whole is not None:
                return whole
            if isinstance(test.op, ast.And):
                for v in test.values:
                    if not self.truth(v, cfgd, flags, forks):
                        return False
                return True
            for v in test.values:
                if self.truth(v, cfgd, flags, forks):
                    return True
            return False
        a = self.atom(test, cfgd, flags)
        if a is not None:
            return a
        key = unparse(test)
        if key not in forks:
            raise _NeedFork(key)
        return forks[key]

    def run(self, cfgd: t.Dict[str, bool], seen: bool, flag_names: t.Set[str]) -> t.List[t.Tuple[int, bool, bool, t.Optional[str]]]:
        """All outcomes (max delta, min := max after the last increment, flag afterwards, raised class) over the undecided conditions."""
        outs = []
        pending: t.List[t.Dict[str, bool]] = [{}]
        while pending:
            forks = pending.pop()
            try:
                outs.append(self._run(cfgd, seen, flag_names, forks))
            except _NeedFork as nf:
                if len(forks) > 4:
                    raise AnalysisError(f"{self.f.loc(self.loop)}: bounds loop depends on too many undecided conditions")
                pending.append({**forks, nf.key: True})
                pending.append({**forks, nf.key: False})
        return outs

    def _run(self, cfgd: t.Dict[str, bool], seen: bool, flag_names: t.Set[str], forks: t.Dict[str, bool]) -> t.Tuple[int, bool, bool, t.Optional[str]]:
        st = {'delta': 0, 'min_at': None, 'raised': None}
        flags = {nm: seen for nm in flag_names}

        def block(body: t.Sequence[ast.stmt]) -> bool:
            """False when the iteration ended (continue / raise)."""
            for s_ in body:
                if isinstance(s_, ast.If):
                    if not block(s_.body if self.truth(s_.test, cfgd, flags, forks) else s_.orelse):
                        return False
                elif isinstance(s_, ast.Continue):
                    return False
                elif isinstance(s_, ast.Raise):
                    e = s_.exc.func if isinstance(s_.exc, ast.Call) else s_.exc
                    q = self.model.resolve(e, self.f.module, self.f) if e is not None else None
                    st['raised'] = (q or (unparse(e) if e is not None else '?')).replace('builtins.', '')
                    return False
                elif isinstance(s_, ast.AugAssign) and isinstance(s_.target, ast.Name) and isinstance(s_.op, ast.Add) \
                        and isinstance(s_.value, ast.Constant) and isinstance(s_.value.value, int):
                    if s_.target.id == self.max_name:
                        st['delta'] += s_.value.value
                    elif s_.target.id == self.min_name:
                        raise AnalysisError(f"{self.f.loc(s_)}: the required count is incremented directly; not a form the bounds analysis models")
                    else:
                        raise AnalysisError(f"{self.f.loc(s_)}: unexpected counter {s_.target.id}")
                elif isinstance(s_, ast.Assign) and len(s_.targets) == 1 and isinstance(s_.targets[0], ast.Name):
                    tg = s_.targets[0].id
                    if tg == self.min_name and isinstance(s_.value, ast.Name) and s_.value.id == self.max_name:
                        st['min_at'] = st['delta']
                    elif tg in flags and isinstance(s_.value, ast.Constant) and isinstance(s_.value.value, bool):
                        flags[tg] = s_.value.value
                    elif tg == self.max_name and isinstance(s_.value, ast.BinOp) and isinstance(s_.value.op, ast.Add) \
                            and {unparse(s_.value.left), unparse(s_.value.right)} == {self.max_name, '1'}:
                        st['delta'] += 1
                    else:
                        raise AnalysisError(f"{self.f.loc(s_)}: statement `{unparse(s_)}` is not modelled by the bounds analysis")
                elif isinstance(s_, (ast.Pass,)) or (isinstance(s_, ast.Expr) and isinstance(s_.value, ast.Constant)):
                    continue
                else:
                    raise AnalysisError(f"{self.f.loc(s_)}: statement `{unparse(s_)[:60]}` is not modelled by the bounds analysis")
            return True
        block(self.loop.body)
        flag_after = any(flags.values()) if flags else seen
        return (st['delta'], st['min_at'] is not None and st['min_at'] == st['delta'], flag_after, st['raised'])


class _NeedFork(Exception):
    def __init__(self, key: str):
        self.key = key


def rule_c15_r3(model: Model) -> RuleResult:
    r = RuleResult('C15-R3', 'positional bounds count the positional init fields, after keyword-only fields were moved last', floor=4)
    f = model.func(f'{CLS}._process')
    cfg = cfg_of(model, f)
    nz = Normalizer(model, f, cfg, param_map=_pm(f))
    r.analysed.add(f.qualname)
    # the bounds and the field list are identified through the PaneInfo(...) record they end up in
    store = None
    info = None
    for n in cfg.live_nodes():
        for root in node_exprs(n):
            for c in walk_no_nested(root):
                if isinstance(c, ast.Call) and (model.resolve(c.func, f.module, f) or '').endswith('.PaneInfo'):
                    store, info = n, c
    if store is None or info is None:
        raise AnalysisError(f"{f.loc()}: _process: PaneInfo(...) construction not found")
    kws = {k.arg: k.value for k in info.keywords if k.arg}
    if 'pos_args' not in kws or 'fields' not in kws:
        raise AnalysisError(f"{f.loc(info)}: _process: PaneInfo(... fields=..., pos_args=...) keywords not found")
    fields_e = _strip_seq(kws['fields'])
    fields_form = nz.expr(fields_e, store)
    # --- where the bounds are computed
    pe, pnode = _follow(cfg, store, kws['pos_args'])
    bf, bcfg, loop_iter_ok = f, cfg, None
    if isinstance(pe, ast.Tuple) and len(pe.elts) == 2 and all(isinstance(e, ast.Name) for e in pe.elts):
        # `(lo, hi) = _bounds_helper(fields, ...)` and `pos_args=(lo, hi)`: the pair is the helper's result
        rd_ = cfg.reaching()
        d0 = rd_.at(pnode, pe.elts[0].id) if rd_.is_local(pe.elts[0].id) else []      # type: ignore[attr-defined]
        d1 = rd_.at(pnode, pe.elts[1].id) if rd_.is_local(pe.elts[1].id) else []      # type: ignore[attr-defined]
        if len(d0) == 1 and len(d1) == 1 and isinstance(d0[0].value, ast.Call) and d0[0].value is d1[0].value \
                and tuple(d0[0].path or ()) == (0,) and tuple(d1[0].path or ()) == (1,):
            pe, pnode = d0[0].value, d0[0].node
    if isinstance(pe, ast.Tuple) and len(pe.elts) == 2 and all(isinstance(e, ast.Name) for e in pe.elts):
        min_name, max_name = pe.elts[0].id, pe.elts[1].id      # type: ignore[attr-defined]
        at = pnode
    elif isinstance(pe, ast.Call):
        q = model.resolve(pe.func, f.module, f)
        g = model.functions.get(q or '')
        if g is None or g.cls is not None:
            raise AnalysisError(f"{f.loc(pe)}: positional bounds come from `{unparse(pe.func)}`, which cannot be resolved to a module-level function")
        bf, bcfg = g, cfg_of(model, g)
        rets = [n for n in bcfg.live_nodes() if n.kind == 'return' and n.ast is not None and n.ast.value is not None]
        shapes = set()
        for rn in rets:
            v, _vn = _follow(bcfg, rn, rn.ast.value)
            if isinstance(v, ast.Tuple) and len(v.elts) == 2 and all(isinstance(e, ast.Name) for e in v.elts):
                shapes.add((v.elts[0].id, v.elts[1].id))      # type: ignore[attr-defined]
            else:
                raise AnalysisError(f"{g.loc(rn.ast)}: bounds helper does not return (min, max) names")
        if len(shapes) != 1:
            raise AnalysisError(f"{g.loc()}: bounds helper returns several different pairs")
        (min_name, max_name) = shapes.pop()
        at = None
        # the helper is given the reordered field list
        arg_forms = [nz.expr(a, pnode) for a in pe.args] + [nz.expr(k.value, pnode) for k in pe.keywords]
        loop_iter_ok = fields_form in arg_forms or f"tuple({fields_form})" in arg_forms or any(a in (f"LIST({fields_form})",) for a in arg_forms)
        r.analysed.add(g.qualname)
    else:
        raise AnalysisError(f"{f.loc(info)}: pos_args is neither a (min, max) pair of names nor a helper call")
    loops = [x for x in ast.walk(bf.node) if isinstance(x, ast.For) and model.enclosing_function(x) is bf
             and any(isinstance(y, (ast.AugAssign, ast.Assign)) and any(isinstance(tg, ast.Name) and tg.id == max_name
                                                                          for tg in ([y.target] if isinstance(y, ast.AugAssign) else y.targets))
                     for y in ast.walk(x))]
    if len(loops) != 1:
        raise AnalysisError(f"{bf.loc()}: {len(loops)} loops advance the positional bound `{max_name}`; expected one")
    loop = loops[0]
    lnode = next((n for n in bcfg.live_nodes() if n.kind == 'iter' and n.ast is loop), None)
    if lnode is None:
        raise AnalysisError(f"{bf.loc(loop)}: bounds loop is unreachable")
    bnz = Normalizer(model, bf, bcfg, param_map=_pm(bf))
    if bf is f:
        loop_iter_ok = bnz.expr(_strip_seq(loop.iter), lnode) == fields_form
    else:
        # inside the helper the loop runs over the parameter that receives the field list
        it = _strip_seq(loop.iter)
        loop_iter_ok = bool(loop_iter_ok) and isinstance(it, ast.Name) and it.id in bf.params
    # flags: names assigned a Boolean constant inside the loop
    flag_names = {tg.id for y in ast.walk(loop) if isinstance(y, ast.Assign) and isinstance(y.value, ast.Constant) and isinstance(y.value.value, bool)
                  for tg in y.targets if isinstance(tg, ast.Name)}
    # initial values
    init_ok = True
    for nm, want in ((min_name, '0'), (max_name, '0'), *((fl, 'False') for fl in sorted(flag_names))):
        outside = [d for d in bcfg.reaching().at(lnode, nm) if loop not in d.node.loop_of]
        forms = {bnz._project(d.value, d.path, d.node, 0) if d.kind == 'assign' else '?' for d in outside}
        if forms != {want}:
            init_ok = False
    r.instances += 1
    if init_ok:
        r.ok()
    else:
        r.fail(bf.qualname, 'bounds or flag do not start at (0, 0, False)', bf.loc(loop), "the positional bounds are offset from the start")
    interp = _BoundsInterp(model, bf, loop, min_name, max_name)
    bad: t.List[str] = []
    table = []
    for init in (False, True):
        for kw in (False, True):
            for dflt in (False, True):
                for seen in (False, True):
                    outs = interp.run({'init': init, 'kw': kw, 'dflt': dflt}, seen, flag_names)
                    label = f"init={init} kw_only={kw} has_default={dflt} optional_seen={seen}"
                    table.append((label, sorted(set(outs), key=str)))
                    noop = (0, False, seen, None)
                    if not init:
                        allowed = [{noop}]
                    elif kw:
                        allowed = [{noop}] if dflt else [{noop, (0, False, seen, 'TypeError')}]
                    elif dflt:
                        allowed = [{(1, False, True, None)}]
                    elif seen:
                        allowed = [{(0, False, seen, 'TypeError')}, {(1, False, seen, 'TypeError')}]
                    else:
                        allowed = [{(1, True, False, None)}]
                    got = set(outs)
                    # a raise may happen before or after bookkeeping; only the raised class matters then
                    norm_got = {(o if o[3] is None else (0, False, seen, o[3])) for o in got}
                    if not any(norm_got == {(a if a[3] is None else (0, False, seen, a[3])) for a in al} for al in allowed):
                        bad.append(f"{label}: {sorted(got, key=str)}")
    r.instances += 1
    r.sample({'per-field effect on (max, min:=max, optional seen, raise)': [f"{k}: {v}" for k, v in table[:6]]})
    if bad:
        r.fail(bf.qualname, 'positional count: ' + '; '.join(bad)[:300], bf.loc(loop),
               "the positional count must include exactly the fields with init=True that are not keyword-only; the required count "
               "advances only for fields without default; a mandatory field after an optional one, or a mandatory keyword-only field "
               "with the tuple layout, is refused with TypeError")
    else:
        r.ok()
    r.instances += 1
    if loop_iter_ok:
        r.ok()
    else:
        r.fail(bf.qualname, 'bounds are not computed over the stored (reordered) field list', bf.loc(loop),
               "bounds or stored fields are computed from the un-reordered field list")
    # --- the stored field list is the stable partition [positional..., keyword-only...] of one source list
    val, vnode = _follow(cfg, store, fields_e)
    pieces: t.List[ast.AST] = []
    if isinstance(val, (ast.List, ast.Tuple)) and len(val.elts) == 2 and all(isinstance(e, ast.Starred) for e in val.elts):
        pieces = [e.value for e in val.elts]          # type: ignore[attr-defined]
    elif isinstance(val, ast.BinOp) and isinstance(val.op, ast.Add):
        pieces = [val.left, val.right]
    parts = []
    good = len(pieces) == 2
    for c0 in pieces:
        c, cn = _follow(cfg, vnode, _strip_seq(c0))
        c = _strip_seq(c)
        if isinstance(c, ast.Call) and isinstance(c.func, ast.Name) and c.func.id == 'filter' and len(c.args) == 2 \
                and isinstance(c.args[0], ast.Lambda) and c.args[0].args.args:
            b = {c.args[0].args.args[0].arg: 'λ0'}
            parts.append((nz.literal(c.args[0].body, cn, b), nz.expr(c.args[1], cn)))
        elif isinstance(c, (ast.ListComp, ast.GeneratorExp)) and len(c.generators) == 1 and len(c.generators[0].ifs) == 1 \
                and isinstance(c.generators[0].target, ast.Name) and isinstance(c.elt, ast.Name) and c.elt.id == c.generators[0].target.id:
            b = {c.generators[0].target.id: 'λ0'}
            parts.append((nz.literal(c.generators[0].ifs[0], cn, b), nz.expr(c.generators[0].iter, cn)))
        else:
            good = False
    r.instances += 1
    r.sample({'reorder': [(('' if p[1] else 'not ') + p[0], src[:60]) for (p, src) in parts]})
    if good and [p for (p, _s) in parts] == [('TRUTHY(λ0.kw_only)', False), ('TRUTHY(λ0.kw_only)', True)] and parts[0][1] == parts[1][1]:
        r.ok()
    else:
        r.fail(f.qualname, f"fields = {unparse(val)[:160]}", f.loc(vnode.ast) if vnode.ast is not None else f.loc(),
               "the reorder is not the stable partition [positional..., keyword-only...] of the merged fields")
    return r


# ---------------------------------------------------------------------------- C16


def _stdlib_hash_table() -> t.Dict[t.Tuple[bool, bool, bool, bool], str]:
    spec = importlib.util.find_spec('dataclasses')
    if spec is None or not spec.origin:
        raise AnalysisError("stdlib dataclasses source not found")
    tree = ast.parse(open(spec.origin, encoding='utf-8').read())
    for st in tree.body:
        if isinstance(st, ast.Assign) and any(isinstance(tg, ast.Name) and tg.id == '_hash_action' for tg in st.targets) and isinstance(st.value, ast.Dict):
            return _read_hash_table(st.value)
    raise AnalysisError("stdlib dataclasses._hash_action not found")


def _read_hash_table(d: ast.Dict, model: t.Optional[Model] = None) -> t.Dict[t.Tuple[bool, bool, bool, bool], str]:
    out = {}
    for k, v in zip(d.keys, d.values):
        if not isinstance(k, ast.Tuple) or len(k.elts) != 4 or not all(isinstance(e, ast.Constant) and isinstance(e.value, bool) for e in k.elts):
            raise AnalysisError("_hash_action key is not a 4-tuple of booleans")
        key = tuple(e.value for e in k.elts)  # type: ignore[attr-defined]
        name = unparse(v)
        if model is not None and isinstance(v, ast.Call) and not v.keywords and all(isinstance(a, ast.Constant) and isinstance(a.value, bool) for a in v.args):
            # a cell computed by a rule function of the package on constant arguments: evaluate that function
            g = model.functions.get(model.resolve(v.func, model.module(CLS)) or '')
            if g is not None and isinstance(g.node, ast.FunctionDef) and len(g.params) == len(v.args):
                name = _eval_bool_function(g.node, {p_: a.value for p_, a in zip(g.params, v.args)})      # type: ignore[attr-defined]
        cls = 'none' if name == 'None' else ('set_none' if 'none' in name.lower() else ('exception' if 'exception' in name.lower() else 'add'))
        out[key] = cls   # type: ignore[index]
    return out


def _action_class(name: str) -> str:
    return 'none' if name == 'None' else ('set_none' if 'none' in name.lower() else ('exception' if 'exception' in name.lower() else 'add'))


def _eval_bool_function(fn: ast.FunctionDef, env: t.Dict[str, bool]) -> str:
    """Result expression (as text) of a function made of if / return over Boolean parameters, for one assignment of the parameters."""
    def truth(e: ast.expr) -> bool:
        if isinstance(e, ast.Name) and e.id in env:
            return env[e.id]
        if isinstance(e, ast.Constant):
            return bool(e.value)
        if isinstance(e, ast.UnaryOp) and isinstance(e.op, ast.Not):
            return not truth(e.operand)
        if isinstance(e, ast.BoolOp):
            vals = [truth(v) for v in e.values]
            return all(vals) if isinstance(e.op, ast.And) else any(vals)
        raise AnalysisError(f"hash rule function: condition `{unparse(e)}` is not a Boolean combination of its parameters")

    def run(body: t.Sequence[ast.stmt]) -> t.Optional[str]:
        for st in body:
            if isinstance(st, ast.Expr) and isinstance(st.value, ast.Constant) or isinstance(st, ast.Pass):
                continue
            if isinstance(st, ast.If):
                res = run(st.body if truth(st.test) else st.orelse)
                if res is not None:
                    return res
                continue
            if isinstance(st, ast.Return):
                v = st.value
                if isinstance(v, ast.IfExp):
                    v = v.body if truth(v.test) else v.orelse
                return unparse(v) if v is not None else 'None'
            raise AnalysisError(f"hash rule function: statement `{unparse(st)[:50]}` is not modelled")
        return None
    res = run(fn.body)
    return res if res is not None else 'None'


def rule_c16_r1(model: Model) -> RuleResult:
    r = RuleResult('C16-R1', 'the hash rule table equals the standard library dataclass table, cell by cell', floor=16)
    f = model.func(f'{CLS}._maybe_make_hash')
    cfg = cfg_of(model, f)
    nz = Normalizer(model, f, cfg, param_map=_pm(f))
    r.analysed.add(f.qualname)
    std = _stdlib_hash_table()
    roles_want = ['unsafe_hash', 'eq', 'frozen', 'explicit']

    def role_of(form: str) -> t.Optional[str]:
        f2 = form.replace('$cls', 'cls')
        for nm in ('unsafe_hash', 'eq', 'frozen'):
            if re.match(rf'^(bool\()?cls\.__pane_info__\.opts\.{nm}\)?$', f2):
                return nm
        if '__hash__' in f2 or 'explicit' in f2.lower():
            return 'explicit'
        return None
    ours: t.Dict[t.Tuple[bool, bool, bool, bool], str] = {}
    loc = f.loc()
    order: t.Optional[t.List[t.Optional[str]]] = None
    # (a) a table indexed by a 4-tuple
    try:
        tq = anchors.hash_table(model)
    except AnalysisError:
        tq = None
    for n in cfg.live_nodes():
        for root in node_exprs(n):
            for x in walk_no_nested(root):
                if tq is not None and isinstance(x, ast.Subscript) and model.resolve(x.value, f.module, f) == tq:
                    key_e, kn = _follow(cfg, n, x.slice)
                    if isinstance(key_e, ast.Tuple) and len(key_e.elts) == 4:
                        order = [role_of(nz.expr(e, kn)) for e in key_e.elts]
                        tbl = model.table(CLS, anchors.short(tq))
                        if not isinstance(tbl, ast.Dict):
                            raise AnalysisError("the hash action table is not a dict display")
                        raw = _read_hash_table(tbl, model)
                        loc = f"pane/classes.py:{tbl.lineno}"
                        if None not in order and sorted(order) == sorted(roles_want):       # type: ignore[type-var]
                            for key, v in raw.items():
                                named = dict(zip(order, key))
                                ours[tuple(named[rw] for rw in roles_want)] = v       # type: ignore[index,assignment]
                # (b) a function of four Booleans
                if isinstance(x, ast.Call) and len(x.args) == 4 and not x.keywords and not ours:
                    g = model.functions.get(model.resolve(x.func, f.module, f) or '')
                    if g is not None and g.cls is None and isinstance(g.node, ast.FunctionDef) and len(g.params) == 4:
                        order = [role_of(nz.expr(a, n)) for a in x.args]
                        if None not in order and sorted(order) == sorted(roles_want):       # type: ignore[type-var]
                            r.analysed.add(g.qualname)
                            loc = g.loc()
                            import itertools as _it
                            for bits in _it.product([False, True], repeat=4):
                                env = dict(zip(g.params, bits))
                                named = dict(zip(order, bits))
                                ours[tuple(named[rw] for rw in roles_want)] = _action_class(_eval_bool_function(g.node, env))   # type: ignore[index]
    if not ours:
        raise AnalysisError(f"{f.loc()}: _maybe_make_hash: neither a table indexed by (unsafe_hash, eq, frozen, explicit) nor a function of "
                            f"these four options was found (argument roles seen: {order})")
    for key in sorted(std):
        r.instances += 1
        if key not in ours:
            r.fail(f'{CLS}._hash_action', f"missing cell {key}", 'pane/classes.py', "option combination without a hash rule (KeyError at class creation)")
        elif ours[key] != std[key]:
            r.fail(f'{CLS}._hash_action', f"cell (unsafe_hash, eq, frozen, explicit)={key}: {ours[key]}", loc,
                   f"the standard library rule for this combination is '{std[key]}', pane applies '{ours[key]}'")
        else:
            r.ok()
    r.sample({'cells': len(ours), 'argument order': order, 'example': {str(k): v for k, v in list(sorted(ours.items()))[:3]}})
    return r


def _source_names(f: FuncInfo, e: ast.AST) -> t.Set[str]:
    """Names an expression is computed from, followed through the local variables of ``f`` (all their assignments)."""
    assigns: t.Dict[str, t.List[ast.AST]] = {}
    for st in ast.walk(f.node):
        if isinstance(st, ast.Assign):
            for tg in st.targets:
                if isinstance(tg, ast.Name):
                    assigns.setdefault(tg.id, []).append(st.value)
        elif isinstance(st, (ast.AnnAssign, ast.NamedExpr)) and isinstance(st.target, ast.Name) and st.value is not None:
            assigns.setdefault(st.target.id, []).append(st.value)
    out: t.Set[str] = set()
    todo = [e]
    while todo:
        x = todo.pop()
        for nm in ast.walk(x):
            if isinstance(nm, ast.Name) and nm.id not in out:
                out.add(nm.id)
                todo.extend(assigns.get(nm.id, []))
    return out


def rule_c16_r2(model: Model) -> RuleResult:
    r = RuleResult('C16-R2', 'every class option is accepted at class creation and forwarded to the option record', floor=10)
    po = model.cls(f'{CLS}.PaneOptions')
    fields = [nm for nm in po.attr_annotations if nm != '_']
    f = model.func(f'{CLS}.PaneBase.__init_subclass__')
    r.analysed.add(f.qualname)
    params = set(f.params)
    rep = find_options_replace(f)
    if rep is None:
        raise AnalysisError(f"{f.loc()}: __init_subclass__ has no <options>.replace(...) call")
    kws = {k.arg: k.value for k in rep.keywords if k.arg}
    alias = {'class_handlers': 'custom'}
    for fld in fields:
        r.instances += 1
        pname = alias.get(fld, fld)
        if pname not in params:
            r.fail(f.qualname, f"option {fld} is not a class argument", f.loc(),
                   f"`class C(PaneBase, {pname}=...)` raises TypeError although PaneOptions has the option and the docs list it")
        elif fld not in kws:
            r.fail(f.qualname, f"option {fld} not forwarded", f.loc(rep), f"the class argument {pname} is accepted but silently ignored")
        elif pname not in _source_names(f, kws[fld]):
            r.fail(f.qualname, f"{fld}={unparse(kws[fld])[:60]}", f.loc(rep), f"option {fld} is not taken from the class argument {pname}")
        else:
            r.ok()
    r.sample({'options': fields})
    return r


def _closure(model: Model, outer: str, name: str) -> FuncInfo:
    return model.func(f'{CLS}.{outer}.{name}')


def rule_c16_r3(model: Model) -> RuleResult:
    r = RuleResult('C16-R3', 'eq / order / hash / repr use exactly the fields flagged for them, in field order', floor=9)
    # __eq__ / ordering: outcome formulas (pane_sa.outcomes) compared, as Boolean functions, with the specification
    from ..outcomes import Outcomes, at_first, equivalent, exists, f_and, f_not, f_or, var, variables, TRUE as O_TRUE, FALSE as O_FALSE

    # module-level helpers that read the origin marker (which namespace they read it from is decided by C16-R6 / C16-R13)
    origin_helpers = '|'.join(sorted(re.escape(g_.name) for g_ in model.all_functions()
                                     if g_.module.name == 'pane.classes' and g_.cls is None and g_.parent is None
                                     and isinstance(g_.node, ast.FunctionDef) and '__origin__' in unparse(g_.node) and g_.name != '_make_subclass')) or 'NO_SUCH_HELPER'

    def roles(fields_param: str) -> t.Callable[[str], str]:
        el = r'ELEM\((?:FREE:)?' + re.escape(fields_param) + r'\)'
        table = [
            (rf'^TRUTHY\({el}\.compare\)$', 'COMPARE'),
            (rf'^getattr\(\$other, {el}\.name\) == getattr\(self, {el}\.name\)$', 'FIELD_EQ'),
            (rf'^getattr\(\$other, {el}\.name\) < getattr\(self, {el}\.name\)$', 'SELF_GT'),
            (rf'^getattr\(self, {el}\.name\) < getattr\(\$other, {el}\.name\)$', 'SELF_LT'),
            (r"^\$other\.__class__\.__dict__\.get\('__origin__', \$other\.__class__\) == self\.__class__\.__dict__\.get\('__origin__', self\.__class__\)$",
             'ORIGIN_EQ'),
            # ... or through a helper of the module that follows the chain of own-namespace origin markers (decided by C16-R6 / C16-R13)
            (r"^pane\.classes\.(" + origin_helpers + r")\((?:\$other(?:\.__class__)?|type\(\$other\))\) == pane\.classes\.\1\((?:self(?:\.__class__)?|type\(self\))\)$",
             'ORIGIN_EQ'),
            (r'^\$other\.__class__ == self\.__class__$', 'CLASS_EQ'),
            (r'^type\(\$other\) == type\(self\)$', 'CLASS_EQ'),
            (r'^type\(\$other\) is type\(self\)$', 'CLASS_EQ'),
            (r'^\$other\.__class__ is self\.__class__$', 'CLASS_EQ'),
            (r'^(?:[\w.]*\.|FREE:|FUNC:)?_?\w*ord\w*\(self, \$other\) is builtins\.NotImplemented$', 'ORD_NI'),
            (r'^builtins\.NotImplemented is (?:[\w.]*\.|FREE:|FUNC:)?_?\w*ord\w*\(self, \$other\)$', 'ORD_NI'),
            (r'^(?:[\w.]*\.|FREE:|FUNC:)?_?\w*ord\w*\(self, \$other\) < 0$', 'ORD_LT0'),
            (r'^0 < (?:[\w.]*\.|FREE:|FUNC:)?_?\w*ord\w*\(self, \$other\)$', 'ORD_GT0'),
        ]

        def m(text: str) -> str:
            for pat, role in table:
                if re.match(pat, text):
                    return role
            return text
        return m

    def check(fn: FuncInfo, outer: FuncInfo, spec: t.Dict[str, t.Any], others_allowed: t.Set[str], what: str) -> None:
        r.instances += 1
        r.analysed.add(fn.qualname)
        fields_param = outer.params[1] if len(outer.params) > 1 else 'fields'
        oc = Outcomes(model, fn, _pm(fn), atom_map=roles(fields_param))
        got = oc.by_value()
        shown = {f"{k[0]} {k[1]}": sorted(variables(v)) for k, v in got.items()}
        r.sample({fn.name: shown})
        problems = []
        for value, want in spec.items():
            have = got.get(('return', value), O_FALSE)
            if not equivalent(have, want):
                unknown = sorted(v for v in variables(have) if not (v.isupper() or v.startswith('E[') or v.startswith('@first:')))
                problems.append(f"returns {value} under a different condition" + (f" (depends on {unknown})" if unknown else ''))
        for (kind, value) in got:
            if kind == 'raise':
                problems.append(f"raises {value}")
            elif value not in spec and value not in others_allowed:
                problems.append(f"returns {value}")
        if problems:
            r.fail(fn.qualname, '; '.join(problems)[:300], fn.loc(), what)
        else:
            r.ok()

    S = f_and(var('COMPARE'), f_not(var('FIELD_EQ')))     # the element decides: it is compared and differs
    elem = lambda nm: nm.isupper()                          # noqa: E731
    outer_eq = model.func(f'{CLS}._make_eq')
    check(_closure(model, '_make_eq', '__eq__'), outer_eq,
          {'True': f_and(var('ORIGIN_EQ'), f_not(exists(S)))}, {'False', 'NotImplemented'},
          "equality must hold exactly when the classes agree modulo generic parameters (__origin__) and every compare-field is pairwise equal")
    outer_ord = model.func(f'{CLS}._make_ord')
    check(_closure(model, '_make_ord', '_pane_ord'), outer_ord,
          {'NotImplemented': f_not(var('CLASS_EQ')),
           '0': f_and(var('CLASS_EQ'), f_not(exists(S))),
           '1': f_and(var('CLASS_EQ'), exists(S), at_first(S, f_and(S, var('SELF_GT')), elem)),
           '-1': f_and(var('CLASS_EQ'), exists(S), at_first(S, f_and(S, f_not(var('SELF_GT'))), elem))}, set(),
          "ordering must be the lexicographic order of the compare-fields: skip non-compare fields, skip equal fields, decide on the first difference")
    ni, lt0, gt0 = var('ORD_NI'), var('ORD_LT0'), var('ORD_GT0')
    for name, truth in (('__lt__', lt0), ('__le__', f_not(gt0)), ('__gt__', gt0), ('__ge__', f_not(lt0))):
        check(_closure(model, '_make_ord', name), outer_ord,
              {'NotImplemented': ni, 'True': f_and(f_not(ni), truth), 'False': f_and(f_not(ni), f_not(truth))}, set(),
              f"{name} must be derived from the three-way comparison (NotImplemented passed on)")
    # hash
    f = _closure(model, '_make_hash', '__hash__')
    cfg = cfg_of(model, f)
    nz = Normalizer(model, f, cfg, param_map=_pm(f))
    r.analysed.add(f.qualname)
    r.instances += 1
    rets = [nz.expr(n.ast.value, n) for n in cfg.live_nodes() if n.kind == 'return' and n.ast is not None and n.ast.value is not None]
    want_h = 'hash(tuple(GEN(getattr(self, ELEM(FREE:fields).name) if TRUTHY(ELEM(FREE:fields).hash))))'
    r.sample({'__hash__': rets})
    if rets == [want_h]:
        r.ok()
    else:
        r.fail(f.qualname, f"returns {rets}", f.loc(),
               "the hash must be computed from exactly the hash-fields: anything else (the class, non-hash fields) breaks "
               "'equal instances hash equal' (equality ignores generic parameters)")
    # repr
    f = model.func(f'{CLS}.PaneBase.__repr__')
    r.instances += 1
    r.analysed.add(f.qualname)
    rcfg = cfg_of(model, f)
    rnz = Normalizer(model, f, rcfg, param_map={f.params[0]: 'self'})
    comps = []
    for n_ in rcfg.live_nodes():
        for root in node_exprs(n_):
            for x in walk_no_nested(root):
                if isinstance(x, (ast.GeneratorExp, ast.ListComp)) and len(x.generators) == 1 \
                        and rnz.expr(x.generators[0].iter, n_) == 'self.__pane_info__.fields' and isinstance(x.generators[0].target, ast.Name):
                    comps.append(x)
    if len(comps) != 1:
        r.fail(f.qualname, '__repr__', f.loc(), "repr must list exactly the repr-fields in field order (one pass over __pane_info__.fields)")
    else:
        comp = comps[0]
        v = comp.generators[0].target.id
        conds = [unparse(c) for c in comp.generators[0].ifs]
        used = sorted({x.attr for x in ast.walk(comp.elt) if isinstance(x, ast.Attribute) and isinstance(x.value, ast.Name) and x.value.id == v})
        r.sample({'__repr__': {'filter': conds, 'field attributes shown': used}})
        if conds != [f'{v}.repr']:
            r.fail(f.qualname, f"__repr__ filters by {conds}", f.loc(comp), "repr must list exactly the repr-fields in field order")
        elif used != ['name']:
            r.fail(f.qualname, f"__repr__ labels fields by {used}", f.loc(comp),
                   "repr shows `name=value` with the Python name of each repr-field (the keyword its constructor takes): labelling by the "
                   "data-side name makes the repr of a renamed class name keys the constructor refuses")
        else:
            r.ok()
    # field(): hash defaults to compare
    ff = model.func('pane.field.field')
    fcfg = cfg_of(model, ff)
    fnz = Normalizer(model, ff, fcfg, param_map={p_: f'${p_}' for p_ in ff.params})
    r.instances += 1
    hform = None
    for n in fcfg.live_nodes():
        for root in node_exprs(n):
            for c in walk_no_nested(root):
                if isinstance(c, ast.Call) and model.resolve(c.func, ff.module, ff) == 'pane.field.FieldSpec':
                    for k in c.keywords:
                        if k.arg == 'hash':
                            hform = fnz.expr(k.value, n)
    r.sample({'field(hash=)': hform})
    lits = {fnz.literal(n.ast, n)[0] for n in fcfg.nodes if n.kind == 'cond'}
    if hform in ('($hash if not $hash is None else $compare)', '($hash if not None is $hash else $compare)',
                 '($compare if $hash is None else $hash)', '($compare if None is $hash else $hash)') or \
            (hform == 'PHI($compare|$hash)' and lits & {'$hash is None', 'None is $hash'}):
        r.ok()
    else:
        r.fail(ff.qualname, f"hash={hform}", ff.loc(), "field(hash=None) must default to the value of compare, and an explicit hash=False must be kept")
    return r


def rule_c16_r4(model: Model) -> RuleResult:
    r = RuleResult('C16-R4', 'frozen instances reject assignment before storing; deletion is always refused; raw stores come from a closed set', floor=4)
    f = model.func(f'{CLS}.PaneBase.__setattr__')
    cfg = cfg_of(model, f)
    nz = Normalizer(model, f, cfg, param_map=_pm(f))
    r.analysed.add(f.qualname)
    store = [n for n in cfg.live_nodes() for root in node_exprs(n) for c in walk_no_nested(root)
             if isinstance(c, ast.Call) and isinstance(c.func, ast.Attribute) and c.func.attr == '__setattr__']
    frozen = [n for n in cfg.nodes if n.kind == 'cond' and 'frozen' in nz.literal(n.ast, n)[0]]
    r.instances += 1
    if len(store) == 1 and len(frozen) == 1:
        pos = nz.literal(frozen[0].ast, frozen[0])[1]
        raises = [m for m in frozen[0].edge('T' if pos else 'F') if m.kind == 'raise']
        if raises and cfg.edge_dominates(frozen[0], 'F' if pos else 'T', store[0]):
            r.ok()
        else:
            r.fail(f.qualname, 'frozen test', f.loc(), "a frozen instance is modified before (or without) the FrozenInstanceError")
    else:
        r.fail(f.qualname, f"{len(store)} stores / {len(frozen)} frozen tests", f.loc(), "__setattr__ must test opts.frozen once and store once")
    r.instances += 1
    adds = [n for n in cfg.live_nodes() for root in node_exprs(n) for c in walk_no_nested(root)
            if isinstance(c, ast.Call) and isinstance(c.func, ast.Attribute) and c.func.attr == 'add']
    if adds and store and cfg.node_dominates(store[0], adds[0]):
        r.ok()
    else:
        r.fail(f.qualname, 'set-field record', f.loc(), "assignment does not record the field as set (after a successful store)")
    d = model.func(f'{CLS}.PaneBase.__delattr__')
    dcfg = cfg_of(model, d)
    r.instances += 1
    r.analysed.add(d.qualname)
    exits = [n for n in dcfg.live_nodes() if n.kind in ('return', 'raise')]
    if exits and all(n.kind == 'raise' for n in exits):
        r.ok()
    else:
        r.fail(d.qualname, '__delattr__', d.loc(), "attribute deletion is not always refused")
    allowed = {f'{CLS}._make_init.__init__', f'{CLS}._make_init.from_dict_unchecked', 'pane.types.Range.__post_init__'}
    for fn in model.all_functions():
        for c in ast.walk(fn.node):
            if isinstance(c, ast.Call) and unparse(c.func) == 'object.__setattr__' and model.enclosing_function(c) is fn:
                r.instances += 1
                if fn.qualname in allowed:
                    r.ok()
                else:
                    r.fail(fn.qualname, 'object.__setattr__', fn.loc(c), "instance state is written behind __setattr__ from outside the constructors")
    return r


def _split_top_level(text: str) -> t.List[str]:
    out, cur, depth, quote = [], '', 0, None
    for ch in text:
        if quote:
            cur += ch
            if ch == quote:
                quote = None
            continue
        if ch in '\'"':
            quote = ch
        if ch in '([{':
            depth += 1
        elif ch in ')]}':
            depth -= 1
        if ch == ',' and depth == 0:
            out.append(cur.strip())
            cur = ''
        else:
            cur += ch
    if cur.strip():
        out.append(cur.strip())
    return out


def rule_c16_r5(model: Model) -> RuleResult:
    r = RuleResult('C16-R5', 'copies carry every field and own a copy of the set-field record; replace re-validates', floor=5)
    for name in ('__copy__', '__deepcopy__'):
        f = model.func(f'{CLS}.PaneBase.{name}')
        cfg = cfg_of(model, f)
        nz = Normalizer(model, f, cfg, param_map=_pm(f))
        r.analysed.add(f.qualname)
        rets = [n for n in cfg.live_nodes() if n.kind == 'return' and n.ast is not None and n.ast.value is not None]
        r.instances += 1
        if len(rets) != 1:
            raise AnalysisError(f"{f.loc()}: {name} is not a single return")
        call = rets[0].ast.value
        # read off the normal form (helpers inlined, callbacks applied), not off the syntax of the return
        whole = nz.expr(call, rets[0])
        mform = re.match(r'^(self\.from_dict_unchecked|type\(self\)\.from_dict_unchecked|self\.__class__\.from_dict_unchecked)\((.*)\)$', whole)
        parts = _split_top_level(mform.group(2)) if mform else []
        form0 = next((p_ for p_ in parts if not re.match(r'^\w+=', p_)), '?')
        kw = {p_.split('=', 1)[0]: p_.split('=', 1)[1] for p_ in parts if re.match(r'^\w+=', p_)}
        r.sample({name: form0, 'set_fields': kw.get('set_fields')})
        inner = 'getattr(self, ELEM(self.__pane_info__.fields).name)'
        want = {'__copy__': f"DICT(ELEM(self.__pane_info__.fields).name: {inner})",
                '__deepcopy__': f"DICT(ELEM(self.__pane_info__.fields).name: copy.deepcopy({inner}, $memo))"}[name]
        if mform and form0 == want:
            r.ok()
        else:
            r.fail(f.qualname, f"{form0[:150]}", f.loc(call),
                   "the copy is not built from every field of the original (fields are filtered or transformed): copy(x) != x")
        r.instances += 1
        if kw.get('set_fields') == 'self.__pane_set__':
            r.ok()
        else:
            r.fail(f.qualname, f"set_fields={kw.get('set_fields')}", f.loc(call), "the copy does not receive the original's set-field record")
    f = model.func(f'{CLS}.PaneBase.__replace__')
    cfg = cfg_of(model, f)
    nz = Normalizer(model, f, cfg, param_map=_pm(f))
    r.analysed.add(f.qualname)
    r.instances += 1
    rets = [nz.expr(n.ast.value, n) for n in cfg.live_nodes() if n.kind == 'return' and n.ast is not None and n.ast.value is not None]
    r.sample({'__replace__': rets})
    unchecked = []
    for x in ast.walk(f.node):
        if isinstance(x, ast.keyword) and x.arg in ('_pane_checked', '_pane_from_dict') \
                and not (x.arg == '_pane_checked' and isinstance(x.value, ast.Constant) and x.value.value is True):
            unchecked.append(x.value)
        elif isinstance(x, ast.Constant) and x.value in ('_pane_checked', '_pane_from_dict'):
            unchecked.append(x)
    if unchecked:
        r.fail(f.qualname, f"replace passes `{unparse(unchecked[0])}` to the constructor's private switches", f.loc(unchecked[0]),
               "replace must rebuild through the *checked* constructor: with validation switched off on some path a changed field keeps a "
               "value of the wrong type / unconverted form (a bool where an int subtype differs, a value violating a condition)")
    elif rets and all(re.match(r'(self\.__class__|type\(self\))\(\*\*', x) for x in rets):
        r.ok()
    else:
        r.fail(f.qualname, f"returns {rets}", f.loc(), "replace must rebuild through the checked constructor so that changed fields are re-validated")
    return r


# ---------------------------------------------------------------------------- C17


def rule_c17_r1(model: Model) -> RuleResult:
    r = RuleResult('C17-R1', 'class options are inherited unless overridden: an unspecified option reaches the option record as None', floor=13)
    f = model.func(f'{CLS}.PaneBase.__init_subclass__')
    cfg = cfg_of(model, f)
    nz = Normalizer(model, f, cfg, param_map=_pm(f))
    r.analysed.add(f.qualname)
    # PaneOptions.replace must drop None values
    rp = model.func(f'{CLS}.PaneOptions.replace')
    r.instances += 1
    if re.search(r'if v is not None', unparse(rp.node)):
        r.ok()
    else:
        r.fail(rp.qualname, 'replace', rp.loc(), "PaneOptions.replace no longer ignores unspecified (None) options")
    args = f.node.args
    defaults: t.Dict[str, t.Optional[ast.expr]] = {}
    pos = list(args.args)
    for a, d in zip(pos[len(pos) - len(args.defaults):], args.defaults):
        defaults[a.arg] = d
    for a, d in zip(args.kwonlyargs, args.kw_defaults):
        defaults[a.arg] = d
    rep = None
    target = find_options_replace(f)
    for n in cfg.live_nodes():
        for root in node_exprs(n):
            for c in walk_no_nested(root):
                if c is target:
                    rep = (n, c)
    if rep is None:
        raise AnalysisError(f"{f.loc()}: no <options>.replace(...) call")
    n, c = rep
    rd = cfg.reaching()
    # the record that is updated is the one the class inherits through normal attribute lookup (all bases, MRO order)
    r.instances += 1
    base_form = nz.expr(c.func.value, n) if isinstance(c.func, ast.Attribute) else ''
    srcs = set(re.findall(r'((?:super\(\)|[\w$]+)(?:\.[\w]+|\[[^\]]*\])*)\.__pane_info__', base_form))
    r.sample({'inherited record': base_form[:140]})
    if srcs and srcs <= {'cls', 'super()'}:
        r.ok()
    else:
        r.fail(f.qualname, f"options start from {base_form[:100]}", f.loc(c),
               "the options a class inherits must be read from the class itself (attribute lookup walks every base in MRO order); reading "
               "them from one chosen base loses the options whenever that base is a plain mixin or a second base carries them")
    # every keyword of the update is None when the class statement gives no option: decided by executing the function abstractly
    # (noneval.py) with every class argument at its default, through helpers, tuple unpacking and locals
    from ..noneval import NONE, NoneEval
    ev = NoneEval(model)
    seen: t.Dict[str, t.Set[t.Any]] = {}

    def observe(st: ast.stmt, env: t.Dict[str, t.Any]) -> None:
        if any(x is c for x in ast.walk(st)):
            for k_ in c.keywords:
                if k_.arg is not None:
                    seen.setdefault(k_.arg, set()).add(ev.value(k_.value, dict(env), f))
    ev.run(f, ev.defaults(f), observe)
    if not seen:
        raise AnalysisError(f"{f.loc(c)}: the option update is not reached when no class option is given")
    for k in c.keywords:
        if k.arg is None:
            continue
        r.instances += 1
        vals = seen.get(k.arg, set())
        verdict = vals == {NONE}
        r.sample({k.arg: unparse(k.value)[:60], 'when unspecified': sorted(map(str, vals))})
        if verdict:
            r.ok()
        else:
            _v2, why = _none_when_unspecified(model, f, cfg, nz, rd, n, k.value, defaults)
            r.fail(f.qualname, f"{k.arg}={unparse(k.value)[:70]}", f.loc(k.value),
                   f"{why or 'the value is not None when the class argument is omitted'}: a subclass that does not restate `{k.arg}` overrides "
                   f"the inherited value instead of inheriting it")
    return r


def _none_when_unspecified(model: Model, f: FuncInfo, cfg: CFG, nz: Normalizer, rd: t.Any, n: Node, v: ast.expr,
                           defaults: t.Dict[str, t.Optional[ast.expr]]) -> t.Tuple[bool, str]:
    if isinstance(v, ast.Constant) and v.value is None:
        return True, ''
    if isinstance(v, ast.IfExp):
        # X if <param> is not None else None
        test = nz.literal(v.test, n)
        if re.match(r'^(None is \$\w+|\$\w+ is None)$', test[0]):
            none_branch = v.body if test[1] else v.orelse
            if isinstance(none_branch, ast.Constant) and none_branch.value is None:
                return True, ''
        return False, "the value is not None when the class argument is omitted"
    if isinstance(v, ast.Name):
        for d in rd.at(n, v.id):
            if d.kind == 'param':
                dv = defaults.get(v.id)
                if not (isinstance(dv, ast.Constant) and dv.value is None):
                    return False, f"class argument `{v.id}` defaults to {unparse(dv) if dv is not None else 'a required value'}, not None"
            elif d.kind == 'assign':
                if isinstance(d.value, ast.Constant) and d.value.value is None and not d.path:
                    continue        # `x = None` first, filled in under a test below
                # a rebinding must be conditional on some class argument having been given
                ok = False
                for (aid, lb) in cfg.conditions_of(d.node):
                    a = [x for x in cfg.nodes if x.id == aid][0]
                    if a.kind == 'cond':
                        text, pos = nz.literal(a.ast, a)
                        if re.match(r'^(None is \$\w+|\$\w+ is None)$', text) and (pos != (lb == 'T')):
                            ok = True
                if not ok:
                    return False, f"`{v.id}` is rebound unconditionally before being forwarded"
            else:
                return False, f"`{v.id}` is not a class argument"
        return True, ''
    return False, "the value is computed by a call even when the class argument is omitted (a call result such as () is not None)"


def rule_c17_r2(model: Model) -> RuleResult:
    r = RuleResult('C17-R2', 'type-variable substitution recurses into every form of the type grammar', floor=2)
    f = model.func('pane.util.replace_typevars')
    cfg = cfg_of(model, f)
    nz = Normalizer(model, f, cfg, param_map=_pm(f))
    r.analysed.add(f.qualname)
    lits = [nz.literal(n.ast, n)[0] for n in cfg.nodes if n.kind == 'cond']
    r.sample({'replace_typevars tests': lits})
    forms = {
        'TypeVar': any('typing.TypeVar' in x for x in lits),
        'tuple type literal': any('collections.abc.Sequence' in x for x in lits),
        'union (incl. X | Y)': any('UNION_ORIGINS' in x or 'types.UnionType' in x for x in lits),
        'mapping type literal': any('collections.abc.Mapping' in x or 'builtins.dict' in x for x in lits),
    }
    for form, ok in forms.items():
        r.instances += 1
        if ok:
            r.ok()
        else:
            r.fail(f.qualname, f"{form} not traversed", f.loc(),
                   f"type variables inside a {form} are not substituted when a generic dataclass is subscripted "
                   f"(x: {{'a': T}} keeps ~T in G[int])")
    return r


def rule_c17_r3(model: Model) -> RuleResult:
    r = RuleResult('C17-R3', 'field specs are merged over the MRO in order, a redeclared field overriding in place', floor=2)
    f = model.func(f'{CLS}._process')
    cfg = cfg_of(model, f)
    nz = Normalizer(model, f, cfg, param_map=_pm(f))
    r.analysed.add(f.qualname)
    loops = [n for n in cfg.live_nodes() if n.kind == 'iter']
    mro = [n for n in loops if '__mro__' in unparse(n.ast.iter)]  # type: ignore[attr-defined]
    r.instances += 1
    if len(mro) == 1 and nz.expr(mro[0].ast.iter, mro[0]) in ('reversed($cls.__mro__[1::])', 'reversed(cls.__mro__[1::])'):  # type: ignore[attr-defined]
        r.ok()
    else:
        r.fail(f.qualname, f"MRO loop {[unparse(n.ast.iter) for n in mro]}", f.loc(), "bases are not visited from the most distant to the nearest (reversed(cls.__mro__[1:]))")
    # all writes to `specs`
    bad = []
    n_upd = 0
    # the merged spec table: the local whose items are turned into Fields by make_field
    specs_name = None
    for c in ast.walk(f.node):
        if isinstance(c, (ast.ListComp, ast.GeneratorExp)) and 'make_field' in unparse(c.elt) and c.generators:
            it = c.generators[0].iter
            if isinstance(it, ast.Call) and isinstance(it.func, ast.Attribute) and it.func.attr == 'items' and isinstance(it.func.value, ast.Name):
                specs_name = it.func.value.id
    if specs_name is None:
        raise AnalysisError(f"{f.loc()}: _process: the merged spec table (iterated with make_field) was not found")
    def keeps_order(v: ast.AST, name: str) -> bool:
        """``v`` is the table ``name`` itself or a value rewrite of it (same keys, same order)."""
        if isinstance(v, ast.Name) and v.id == name:
            return True
        if isinstance(v, ast.DictComp) and len(v.generators) == 1 and not v.generators[0].ifs \
                and unparse(v.generators[0].iter) == f'{name}.items()' and isinstance(v.key, ast.Name):
            return True
        if isinstance(v, ast.Name):
            # a second table built empty and filled, key by key and unconditionally, by one loop over the items of the first
            other = v.id
            inits = [st for st in ast.walk(f.node) if isinstance(st, (ast.Assign, ast.AnnAssign)) and st.value is not None
                     and any(isinstance(tg, ast.Name) and tg.id == other for tg in (st.targets if isinstance(st, ast.Assign) else [st.target]))]
            if not inits or not all(isinstance(st.value, ast.Dict) and not st.value.keys for st in inits):
                return False
            stores = [st for st in ast.walk(f.node) if isinstance(st, ast.Assign) and len(st.targets) == 1
                      and isinstance(st.targets[0], ast.Subscript) and unparse(st.targets[0].value) == other]
            if len(stores) != 1 or any(isinstance(c_, ast.Call) and isinstance(c_.func, ast.Attribute) and unparse(c_.func.value) == other
                                       and c_.func.attr in ('pop', 'update', 'clear', 'setdefault', 'popitem') for c_ in ast.walk(f.node)):
                return False
            st = stores[0]
            loop = next((a_ for a_ in ancestors(st) if isinstance(a_, ast.For)), None)
            if loop is None or unparse(loop.iter) != f'{name}.items()' or st not in loop.body:
                return False        # (a store nested in an `if` would drop keys)
            ktg = loop.target.elts[0] if isinstance(loop.target, ast.Tuple) and loop.target.elts else None
            return isinstance(ktg, ast.Name) and isinstance(st.targets[0].slice, ast.Name) and st.targets[0].slice.id == ktg.id
        return False

    def writes(g: FuncInfo, name: str, depth: int = 0) -> t.Tuple[t.List[t.Tuple[FuncInfo, ast.AST]], int]:
        """(disallowed writes to the table ``name`` inside ``g``, number of in-place updates), following helpers the table is handed to."""
        bad_: t.List[t.Tuple[FuncInfo, ast.AST]] = []
        upd = 0
        for st in ast.walk(g.node):
            if isinstance(st, (ast.Assign, ast.AnnAssign)):
                tgts = st.targets if isinstance(st, ast.Assign) else [st.target]
                for tg in tgts:
                    if isinstance(tg, ast.Name) and tg.id == name and st.value is not None:
                        v = st.value
                        if isinstance(v, ast.Dict) and not v.keys:
                            continue
                        if keeps_order(v, name):
                            continue      # value rewrite, keys and order preserved
                        if isinstance(v, ast.Call) and depth < 2:
                            hq = model.resolve(v.func, g.module, g)
                            h = model.functions.get(hq or '')
                            pos = [i_ for i_, a_ in enumerate(v.args) if isinstance(a_, ast.Name) and a_.id == name]
                            if h is not None and isinstance(h.node, ast.FunctionDef) and h.cls is None and len(pos) == 1 and pos[0] < len(h.params):
                                hp = h.params[pos[0]]
                                hb, hu = writes(h, hp, depth + 1)
                                rets = [x for x in ast.walk(h.node) if isinstance(x, ast.Return)]
                                if not hb and rets and all(x.value is not None and keeps_order(x.value, hp) for x in rets):
                                    upd += hu
                                    continue
                                bad_.extend(hb or [(g, st)])
                                continue
                        bad_.append((g, st))
            if isinstance(st, ast.For) and any(isinstance(x_, ast.Assign) and len(x_.targets) == 1 and isinstance(x_.targets[0], ast.Subscript)
                                               and unparse(x_.targets[0].value) == name for x_ in st.body) \
                    and not re.search(rf'\b{re.escape(name)}\b', unparse(st.iter)):
                upd += 1        # `for k, v in other.items(): table[k] = v` is table.update(other)
            if isinstance(st, ast.Call) and isinstance(st.func, ast.Attribute) and unparse(st.func.value) == name:
                if st.func.attr == 'update':
                    upd += 1
                elif st.func.attr in ('pop', 'clear', 'popitem', 'setdefault', '__delitem__'):
                    bad_.append((g, st))
            if isinstance(st, ast.Delete) and any(unparse(tg).startswith(f'{name}[') for tg in st.targets):
                bad_.append((g, st))
        return bad_, upd
    bad_pairs, n_upd = writes(f, specs_name)
    # (an update inside a helper called from two places counts for each call site)
    calls_of_helpers = sum(1 for st in ast.walk(f.node) if isinstance(st, (ast.Assign, ast.AnnAssign)) and isinstance(st.value, ast.Call)
                           and any(isinstance(a_, ast.Name) and a_.id == specs_name for a_ in st.value.args)
                           and model.functions.get(model.resolve(st.value.func, f.module, f) or '') is not None)
    if calls_of_helpers >= 2 and n_upd >= 2:
        pass
    elif calls_of_helpers >= 2 and n_upd >= 1:
        n_upd = max(n_upd, calls_of_helpers)

    class _B:       # adapter for the reporting code below
        def __init__(self, g: FuncInfo, a: ast.AST):
            self.g, self.ast = g, a
    bad = [_B(g, a) for (g, a) in bad_pairs]
    r.instances += 1
    r.sample({'specs.update calls': n_upd, 'other writes': [unparse(b.ast)[:60] for b in bad]})
    if bad:
        r.fail(f.qualname, f"specs rebuilt: {unparse(bad[0].ast)[:90]}", bad[0].g.loc(bad[0].ast),
               "the merged spec table is rebuilt or pruned instead of updated in place: a field redeclared by a base moves to the end "
               "instead of keeping its position (signature, tuple layout and repr follow the wrong order)")
    elif n_upd >= 2:
        r.ok()
    else:
        r.fail(f.qualname, f"{n_upd} specs.update calls", f.loc(), "inherited and own specs are not merged with dict.update (override in place)")
    return r


def rule_c17_r4(model: Model) -> RuleResult:
    r = RuleResult('C17-R4', 'subscripting binds the arguments to the free type variables of the class being subscripted', floor=1)
    f = model.func(f'{CLS}._make_subclass')
    cfg = cfg_of(model, f)
    nz = Normalizer(model, f, cfg, param_map=_pm(f))
    r.analysed.add(f.qualname)
    r.instances += 1
    form = None
    for n in cfg.live_nodes():
        for root in node_exprs(n):
            for d in walk_no_nested(root):
                if isinstance(d, ast.Dict):
                    for k, v in zip(d.keys, d.values):
                        if k is not None and nz.expr(k, n) == "'__pane_boundvars__'":
                            form = nz.expr(v, n)
    r.sample({'bound_vars': form})
    # (`{p: a for (p, a) in zip(ps, args)}` is dict(zip(ps, args)): element-wise pairing of the two sequences)
    want = ("zip(getattr(cls.__parameters__, ()), $params)", "dict(zip(getattr(cls.__parameters__, ()), $params))",
            "DICT(ELEM(getattr(cls.__parameters__, ())): ELEM($params))")
    if form is not None and form.replace('$cls', 'cls') in want:
        r.ok()
    elif form is None:
        raise AnalysisError(f"{f.loc()}: _make_subclass: bound_vars not found")
    else:
        r.fail(f.qualname, f"bound_vars = {form}", f.loc(),
               "the subscript arguments are zipped with something other than the free parameters of the class being subscripted: "
               "re-parameterising a partially bound generic leaves type variables unbound")
    return r


def rule_c15_r4(model: Model) -> RuleResult:
    """Tuple layout: positional values are converted by the converters of the fields they are bound to."""
    from .pairs import Extractor
    r = RuleResult('C15-R4', 'positional values are paired with the converters of exactly the init fields, in field order', floor=2)
    cls = model.cls(f'{CLS}.PaneConverter')
    for (mname, mode) in (('try_convert_tuple', 'try'), ('collect_errors_tuple', 'collect')):
        f = cls.methods.get(mname)
        if f is None:
            raise AnalysisError(f"PaneConverter.{mname} not found")
        ex = Extractor(model, cls, mode)
        ex.run(f)
        subs = sorted({('SUB', recv, arg, ' & '.join(ctx)) for (recv, arg, ctx, _loc) in ex.raw_subs})
        locs = {('SUB', recv, arg, ' & '.join(ctx)): loc for (recv, arg, ctx, loc) in ex.raw_subs}
        r.instances += 1
        r.analysed.add(f.qualname)
        r.sample({mname: [f"{k[1]} <- {k[2]} when {k[3]}" for k in subs]})
        if len(subs) != 1:
            r.fail(f.qualname, f"{len(subs)} delegations", f.loc(), "the positional path must convert each element with exactly one field converter")
            continue
        k = subs[0]
        ctx = set(k[3].split(' & ')) if k[3] else set()
        # unchecked construction binds positional values to the init fields (the signature has only those)
        if k[1] == 'ELEM(self.field_converters)' and k[2] == 'ELEM(VAL)' and 'TRUTHY(ELEM(self.fields).init)' in ctx:
            r.ok()
        else:
            r.fail(f.qualname, f"{k[1]} <- {k[2]} when {k[3]}", locs[k],
                   "positional values are zipped with converters of fields other than the ones they are bound to (the constructor binds them to the "
                   "init fields only): after an init=False field every value is validated against its neighbour's type")
    return r


def rule_c17_r6(model: Model) -> RuleResult:
    """C17: a class records only the fields it declares itself; the merged (inherited + own) table is rebuilt by every subclass from the MRO."""
    r = RuleResult('C17-R6', "the class record keeps the class's own field declarations only (filled from its own annotations, never from the bases)",
                   floor=2)
    f = model.func(f'{CLS}._process')
    cfg = cfg_of(model, f)
    nz = Normalizer(model, f, cfg, param_map=_pm(f))
    r.analysed.add(f.qualname)
    store = info = None
    for n in cfg.live_nodes():
        for root in node_exprs(n):
            for c in walk_no_nested(root):
                if isinstance(c, ast.Call) and (model.resolve(c.func, f.module, f) or '').endswith('.PaneInfo'):
                    store, info = n, c
    if store is None or info is None:
        raise AnalysisError(f"{f.loc()}: _process: PaneInfo(...) construction not found")
    kw = {k.arg: k.value for k in info.keywords if k.arg}
    if 'specs' not in kw:
        raise AnalysisError(f"{f.loc(info)}: PaneInfo(...) built without specs=")
    v = kw['specs']
    r.instances += 1
    if not isinstance(v, ast.Name):
        r.fail(f.qualname, f"specs={unparse(v)[:80]}", f.loc(info), "the recorded declarations are computed, not the class's own table")
        return r
    defs = cfg.reaching().at(store, v.id)
    empty = all(d.kind == 'assign' and not d.path and ((isinstance(d.value, ast.Dict) and not d.value.keys) or
                                                          (isinstance(d.value, ast.Call) and unparse(d.value) == 'dict()')) for d in defs)
    r.sample({'recorded table': v.id, 'starts empty': empty})
    if defs and empty:
        r.ok()
    else:
        r.fail(f.qualname, f"specs={v.id} is not a table started empty for this class", f.loc(info),
               "the class records inherited fields as if it declared them: with a diamond, a base that merely inherits a field overrides "
               "the redeclaration of a sibling base (wrong type and default)")
    # everything put into it comes from the class's own annotations
    r.instances += 1
    bad = []
    for n in cfg.live_nodes():
        st = n.ast
        touched = False
        if n.kind == 'stmt' and isinstance(st, (ast.Assign, ast.AugAssign)):
            tgts = st.targets if isinstance(st, ast.Assign) else [st.target]
            touched = any(isinstance(tg, ast.Subscript) and isinstance(tg.value, ast.Name) and tg.value.id == v.id for tg in tgts)
        if n.kind == 'stmt' and isinstance(st, ast.Expr) and isinstance(st.value, ast.Call) and isinstance(st.value.func, ast.Attribute) \
                and isinstance(st.value.func.value, ast.Name) and st.value.func.value.id == v.id and st.value.func.attr in ('update', 'setdefault', '__setitem__'):
            touched = True
        if not touched:
            continue
        if not any(d in cfg.reaching().at(n, v.id) for d in defs):
            continue            # another table that happens to share the name earlier in the function
        own = False
        for lp in n.loop_of:
            if isinstance(lp, ast.For):
                ln = next((x for x in cfg.live_nodes() if x.kind == 'iter' and x.ast is lp), None)
                form = nz.expr(lp.iter, ln) if ln is not None else ''
                if re.search(r'get_type_hints\(\$?cls\)|\$?cls\.__annotations__|\$?cls\.__dict__', form):
                    own = True
        if not own:
            bad.append(n)
    if bad:
        r.fail(f.qualname, f"{v.id} is filled outside the loop over the class's own annotations", f.loc(bad[0].ast),
               "entries that do not come from the class's own annotations are recorded as its declarations")
    else:
        r.ok()
    return r


def rule_c17_r7(model: Model) -> RuleResult:
    """C17: a parametrised base's bindings apply to the fields seen up to that base; they are not inherited by the classes below it."""
    r = RuleResult('C17-R7', "type-variable bindings are read from the namespace of the class that carries them, never through inheritance "
                             "(a subclass that re-uses or forwards a type variable is not re-bound)", floor=2)
    m = model.module(CLS)
    # the attribute that holds the bindings: the key _make_subclass puts into the namespace of a parametrised class
    mk = model.func(f'{CLS}._make_subclass')
    keys = set()
    for ns_ in _type_namespaces(mk):
        if True:
            for k, v in zip(ns_.keys, ns_.values):
                if isinstance(v, ast.Name) and k is not None:
                    kk = k.value if isinstance(k, ast.Constant) else (m.assign_values.get(k.id).value if isinstance(k, ast.Name)  # type: ignore[union-attr]
                                                                      and isinstance(m.assign_values.get(k.id), ast.Constant) else None)
                    # the bound-variables table is the dict built from zip(<parameters>, <arguments>)
                    defs = [d for d in cfg_of(model, mk).reaching().by_name.get(v.id, []) if d.value is not None]
                    if kk and any('zip(' in unparse(d.value) for d in defs):
                        keys.add(kk)
    if len(keys) != 1:
        raise AnalysisError(f"{mk.loc()}: attribute holding the type-variable bindings not identified ({sorted(keys)})")
    key = keys.pop()

    def is_key(e: ast.AST) -> bool:
        if isinstance(e, ast.Constant):
            return e.value == key
        if isinstance(e, ast.Name):
            v = m.assign_values.get(e.id)
            return isinstance(v, ast.Constant) and v.value == key
        return False
    for f in model.all_functions():
        if f.module is not m or not isinstance(f.node, ast.FunctionDef):
            continue
        for c in ast.walk(f.node):
            if not isinstance(c, ast.Call) or model.enclosing_function(c) is not f:
                continue
            inherited = isinstance(c.func, ast.Name) and c.func.id in ('getattr', 'hasattr') and len(c.args) >= 2 and is_key(c.args[1])
            own = isinstance(c.func, ast.Attribute) and c.func.attr == 'get' and c.args and is_key(c.args[0]) and (
                (isinstance(c.func.value, ast.Attribute) and c.func.value.attr == '__dict__') or
                (isinstance(c.func.value, ast.Call) and isinstance(c.func.value.func, ast.Name) and c.func.value.func.id == 'vars'))
            if not inherited and not own:
                continue
            r.instances += 1
            r.analysed.add(f.qualname)
            r.sample({'function': f.qualname, 'read': unparse(c)[:80], 'through inheritance': inherited})
            if inherited:
                r.fail(f.qualname, unparse(c)[:80], f.loc(c),
                       "the bindings of a parametrised base are found again on every class below it and applied a second time: a subclass that "
                       "re-uses the type variable (class X(G[int], Generic[T]): z: T) gets z: int, and forwarding with swapped variables "
                       "(class F(Two[U, T])) swaps twice")
            else:
                r.ok()
    return r


def rule_c17_r8(model: Model) -> RuleResult:
    """C17: substitution reaches the arguments of parametrised pane dataclasses used inside field types (Inner[T] in Outer[int])."""
    r = RuleResult('C17-R8', 'type-variable substitution re-parametrises pane dataclasses that occur in field types (any depth)', floor=1)
    f = model.func('pane.util.replace_typevars')
    cfg = cfg_of(model, f)
    nz = Normalizer(model, f, cfg, param_map=_pm(f))
    r.analysed.add(f.qualname)
    r.instances += 1
    # the attribute a parametrised class keeps its arguments in (same discovery as C17-R7)
    mk = model.func(f'{CLS}._make_subclass')
    m = model.module(CLS)
    keys = set()
    for c in ast.walk(mk.node):
        if isinstance(c, ast.Call) and isinstance(c.func, ast.Name) and c.func.id == 'type' and len(c.args) == 3 and isinstance(c.args[2], ast.Dict):
            for k in c.args[2].keys:
                if isinstance(k, ast.Constant):
                    keys.add(k.value)
                elif isinstance(k, ast.Name) and isinstance(m.assign_values.get(k.id), ast.Constant):
                    keys.add(m.assign_values[k.id].value)      # type: ignore[union-attr]
    forms = [nz.expr(n.ast.value, n) for n in cfg.live_nodes() if n.kind == 'return' and n.ast is not None and n.ast.value is not None]
    bkey = _boundvars_key(model)
    hit = [x for x in forms if re.search(r"\[(tuple\()?\(?(GEN|LIST)\(pane\.util\.replace_typevars\(", x) and repr(bkey) in x
           and ('__origin__' in x)]
    r.sample({'re-parametrising return': hit[:1]})
    if hit:
        r.ok()
    else:
        r.fail(f.qualname, 'no branch re-parametrises a parametrised pane dataclass', f.loc(),
               "a field typed Inner[T] keeps T when Outer[int] is built: Outer[int].from_data({'inner': {'v': 'x'}}) is accepted although v "
               "must be an int")
    return r


def _type_namespaces(mk: FuncInfo) -> t.List[ast.Dict]:
    """The namespace dictionaries handed to ``type(name, bases, namespace)`` in ``mk``: written in place, or held in a local first."""
    out: t.List[ast.Dict] = []
    for c in ast.walk(mk.node):
        if isinstance(c, ast.Call) and isinstance(c.func, ast.Name) and c.func.id == 'type' and len(c.args) == 3:
            a = c.args[2]
            if isinstance(a, ast.Dict):
                out.append(a)
            elif isinstance(a, ast.Name):
                for st in ast.walk(mk.node):
                    if isinstance(st, (ast.Assign, ast.AnnAssign)) and isinstance(getattr(st, 'value', None), ast.Dict):
                        tgts = st.targets if isinstance(st, ast.Assign) else [st.target]
                        if any(isinstance(tg, ast.Name) and tg.id == a.id for tg in tgts):
                            out.append(st.value)
    return out


def _boundvars_key(model: Model) -> str:
    """The namespace key under which a parametrised class keeps its {type variable: argument} table (found by role)."""
    mk = model.func(f'{CLS}._make_subclass')
    m = model.module(CLS)
    keys = set()
    for ns_ in _type_namespaces(mk):
        if True:
            for k, v in zip(ns_.keys, ns_.values):
                if isinstance(v, ast.Name) and k is not None:
                    kk = k.value if isinstance(k, ast.Constant) else (m.assign_values.get(k.id).value if isinstance(k, ast.Name)  # type: ignore[union-attr]
                                                                      and isinstance(m.assign_values.get(k.id), ast.Constant) else None)
                    defs = [d for d in cfg_of(model, mk).reaching().by_name.get(v.id, []) if d.value is not None]
                    if kk and any('zip(' in unparse(d.value) for d in defs):
                        keys.add(kk)
    if len(keys) != 1:
        raise AnalysisError(f"{mk.loc()}: attribute holding the type-variable bindings not identified ({sorted(keys)})")
    return keys.pop()


def rule_c17_r9(model: Model) -> RuleResult:
    """C17 / C13: a parametrised type is rebuilt from all of its arguments (Annotated keeps every annotation, Callable every slot ...)."""
    r = RuleResult('C17-R9', 'type-variable substitution rebuilds a type from all of its arguments, never from a chosen few', floor=1)
    f = model.func('pane.util.replace_typevars')
    cfg = cfg_of(model, f)
    nz = Normalizer(model, f, cfg, param_map=_pm(f))
    r.analysed.add(f.qualname)
    n_sub = 0
    for n in cfg.live_nodes():
        if n.kind != 'return' or n.ast is None or n.ast.value is None:
            continue
        form = nz.expr(n.ast.value, n)
        if '[' not in form:
            continue
        n_sub += 1
        r.instances += 1
        picks = re.findall(r'typing\.get_args\(\$ty\)\[(?:\d+|-\d+)\]', form)
        in_index = [p_ for p_ in picks if re.search(r'\]?\[[^\]]*' + re.escape(p_), form)]
        r.sample({'rebuilds': form[:120], 'argument picks': picks})
        if in_index and re.search(r'^[\w.()$ |]+\[.*typing\.get_args\(\$ty\)\[', form):
            r.fail(f.qualname, f"rebuilt from {sorted(set(picks))} only", f.loc(n.ast),
                   "a parametrised type is rebuilt from some of its arguments: e.g. Annotated[T, c1, c2] loses c2 when T is substituted, so "
                   "Box[int] accepts values that fail the second condition")
        else:
            r.ok()
    if n_sub == 0:
        raise AnalysisError(f"{f.loc()}: replace_typevars has no return that re-subscripts a type")
    return r
