"""Rules added after the tenth round of seeded changes (feature / compatibility commits in the less-travelled modules:
pane.addons.numpy, pane.util, pane.errors, pane.types, pane.io).  Each names the property it serves."""
from __future__ import annotations

import ast
import re
import typing as t

from ..cfg import cfg_of, node_exprs, returned_values, walk_no_nested
from ..model import AnalysisError, FuncInfo, Model, unparse
from ..norm import Normalizer
from ..report import RuleResult

NUMPY = 'pane.addons.numpy'


def _pm(f: FuncInfo) -> t.Dict[str, str]:
    pm = {p: f'${p}' for p in f.params}
    if f.params and f.params[0] in ('self', 'cls'):
        pm[f.params[0]] = f.params[0]
    return pm


def _funcs_named(model: Model, module: str, name: str) -> t.List[FuncInfo]:
    return [f for q, f in model.functions.items() if f.module.name == module and f.name == name and isinstance(f.node, ast.FunctionDef)]


def _local_values(fn: ast.AST, name: str) -> t.List[ast.expr]:
    out: t.List[ast.expr] = []
    for x in ast.walk(fn):
        if isinstance(x, ast.Assign) and any(isinstance(tg, ast.Name) and tg.id == name for tg in x.targets):
            out.append(x.value)
        elif isinstance(x, ast.AnnAssign) and isinstance(x.target, ast.Name) and x.target.id == name and x.value is not None:
            out.append(x.value)
    return out


# ---------------------------------------------------------------------------- C01 / C06: arrays are built by numpy.array as it is


def rule_array_constructor_infers_dtype(model: Model, rule_id: str = 'C01-R7') -> RuleResult:
    """The n-d array converter builds its result with ``numpy.array`` and lets numpy infer the element type: the declared scalar
    type may be abstract (``numpy.floating``, ``numpy.integer`` - accepted by ``_dtype_map``), and an abstract scalar type is not a
    dtype, so forcing ``dtype=<declared>`` makes every input of such a type fail."""
    r = RuleResult(rule_id, 'NestedSequenceConverter for arrays is given numpy.array itself (no dtype forced from the annotation)', floor=1)
    hs = [f for f in _funcs_named(model, NUMPY, 'numpy_converter_handler')
          if any(isinstance(c, ast.Call) and unparse(c.func).endswith('NestedSequenceConverter') for c in ast.walk(f.node))]
    if not hs:
        raise AnalysisError('pane.addons.numpy.numpy_converter_handler: no NestedSequenceConverter(...) construction found')
    for f in hs:
        r.analysed.add(f.qualname)
        for c in ast.walk(f.node):
            if not (isinstance(c, ast.Call) and unparse(c.func).endswith('NestedSequenceConverter')):
                continue
            r.instances += 1
            ctor = c.args[1] if len(c.args) > 1 else next((k.value for k in c.keywords if k.arg == 'constructor'), None)
            vals: t.List[ast.AST] = [ctor] if ctor is not None else []
            if isinstance(ctor, ast.Name):
                vals += _local_values(f.node, ctor.id)
            forced = [v for v in vals if any(isinstance(k, ast.keyword) and k.arg == 'dtype' for k in ast.walk(v))]
            r.sample({'constructor': [unparse(v)[:60] for v in vals]})
            if forced:
                r.fail(f.qualname, f"constructor {unparse(forced[0])[:60]}", f.loc(forced[0]),
                       "the array is built with a dtype taken from the annotation: for the abstract scalar types that _dtype_map accepts "
                       "(numpy.floating, numpy.integer, numpy.generic ...) numpy.array(..., dtype=<abstract>) raises, so every valid input "
                       "of such an array type is rejected")
            else:
                r.ok()
    return r


# ---------------------------------------------------------------------------- C03 / C04 / C08 / C10: error nodes are plain records


def rule_error_nodes_are_plain_records(model: Model, rule_id: str = 'C03-R5') -> RuleResult:
    """Building an error node neither orders what it is given (input keys of different kinds do not compare: ``sorted`` raises
    TypeError in the middle of the diagnostic pass) nor changes it (``aliases`` is the field's own ``in_names`` object)."""
    from .mutation import MUTATORS
    r = RuleResult(rule_id, 'constructors of error nodes neither sort nor mutate the objects they are handed', floor=1)
    n_cls = 0
    for q, cls in model.classes.items():
        if cls.module.name != 'pane.errors':
            continue
        n_cls += 1
        for mname in ('__post_init__', '__init__'):
            f = model.functions.get(f'{q}.{mname}')
            if f is None or not isinstance(f.node, ast.FunctionDef) or not f.params:
                continue
            r.analysed.add(f.qualname)
            self_ = f.params[0]
            params = set(f.params[1:])

            def given(e: ast.AST) -> bool:
                """self.<attr> / a constructor parameter, possibly through a conditional expression or a local bound to one"""
                if isinstance(e, ast.Attribute) and isinstance(e.value, ast.Name) and e.value.id == self_:
                    return True
                if isinstance(e, ast.Name) and e.id in params:
                    return True
                if isinstance(e, ast.IfExp):
                    return given(e.body) or given(e.orelse)
                if isinstance(e, ast.Name):
                    return any(given(v) for v in _local_values(f.node, e.id))
                return False
            for c in ast.walk(f.node):
                if not isinstance(c, ast.Call):
                    continue
                if isinstance(c.func, ast.Name) and c.func.id in ('sorted', 'min', 'max') and c.args and given(c.args[0]) \
                        and not any(k.arg == 'key' for k in c.keywords):
                    r.instances += 1
                    r.fail(f.qualname, f"{c.func.id}({unparse(c.args[0])[:40]}) without key", f.loc(c),
                           "the node orders names that come from the input (unexpected keys may be of any hashable kind): two keys that "
                           "do not compare make the constructor raise TypeError, so the diagnostic pass raises instead of returning a tree")
                elif isinstance(c.func, ast.Attribute) and c.func.attr in MUTATORS and given(c.func.value):
                    r.instances += 1
                    r.fail(f.qualname, f".{c.func.attr}() on {unparse(c.func.value)[:40]}", f.loc(c),
                           "the node changes an object it was handed (for DuplicateKeyError: the field's own in_names list): a failed "
                           "conversion then alters which keys later converters of the class accept")
    r.instances += 1
    if n_cls == 0:
        raise AnalysisError('pane.errors: no classes found')
    r.ok()
    return r


# ---------------------------------------------------------------------------- C14 / C03: the constructor binds the arguments it was given


def rule_init_binds_given_keywords(model: Model, rule_id: str = 'C14-R15') -> RuleResult:
    """The generated ``__init__`` binds ``*args, **kwargs`` as passed (minus the private ``_pane_*`` switches it pops): keywords are
    Python field names.  The diagnostic pass builds its trial instance through this path keyed by field name; renaming keywords
    (e.g. by input name) rebinds a field name that is also another field's input name."""
    r = RuleResult(rule_id, "sig.bind receives the constructor's own *args / **kwargs", floor=1)
    outer = model.func('pane.classes._make_init')
    inits = [f for q, f in model.functions.items() if f.parent is outer and f.name == '__init__' and isinstance(f.node, ast.FunctionDef)]
    if not inits:
        raise AnalysisError(f"{outer.loc()}: _make_init defines no __init__")
    n_bind = 0
    for f in inits:
        cfg = cfg_of(model, f)
        rd = cfg.reaching()
        r.analysed.add(f.qualname)
        for n in cfg.live_nodes():
            for root in node_exprs(n):
                for c in walk_no_nested(root):
                    if not (isinstance(c, ast.Call) and isinstance(c.func, ast.Attribute) and c.func.attr in ('bind', 'bind_partial')):
                        continue
                    n_bind += 1
                    for k in c.keywords:
                        if k.arg is not None:
                            continue
                        r.instances += 1
                        ok = isinstance(k.value, ast.Name) and rd.is_local(k.value.id) and all(d.kind == 'param' for d in rd.at(n, k.value.id))
                        if ok:
                            r.ok()
                        else:
                            r.fail(f.qualname, f"bind(**{unparse(k.value)[:50]})", f.loc(c),
                                   "the keywords are rewritten before they are bound to the signature: a Python field name that is also "
                                   "an input name of another field is re-routed, so construction by field name (the diagnostic pass, "
                                   "make_unchecked, replace) binds the wrong field")
    if not n_bind:
        raise AnalysisError(f"{outer.loc()}: the generated __init__ no longer binds its arguments to the signature")
    return r


# ---------------------------------------------------------------------------- C04: unsupported dtypes are refused


def rule_dtype_catchall_by_identity(model: Model, rule_id: str = 'C04-R12') -> RuleResult:
    """``_dtype_map`` answers 'any value' only for numpy.generic / object_ / Any themselves.  Every numpy scalar type derives from
    numpy.generic: matching that row by subclass or along the MRO makes every unsupported scalar type (datetime64, void ...) an
    any-value element, and the closing ``raise TypeError`` unreachable."""
    r = RuleResult(rule_id, "_dtype_map matches the catch-all rows (generic, object_, Any) by identity only; TypeError closes the function", floor=2)
    fs = _funcs_named(model, NUMPY, '_dtype_map')
    if not fs:
        raise AnalysisError('pane.addons.numpy._dtype_map not found')
    mod = fs[0].module
    for f in fs:
        r.analysed.add(f.qualname)
        r.instances += 1
        if any(isinstance(x, ast.Raise) for x in ast.walk(f.node)):
            r.ok()
        else:
            r.fail(f.qualname, 'no raise', f.loc(), "an element type that numpy support does not know is not refused")
        r.instances += 1
        walks_mro = any((isinstance(x, ast.Attribute) and x.attr in ('__mro__', 'mro')) or (isinstance(x, ast.Constant) and x.value == '__mro__')
                        for x in ast.walk(f.node))
        catch_all = re.compile(r'\b(generic|object_)\b')
        bad: t.Optional[ast.AST] = None
        for x in ast.walk(f.node):
            if isinstance(x, ast.Call) and isinstance(x.func, ast.Name) and x.func.id == 'issubclass' and len(x.args) == 2 \
                    and catch_all.search(unparse(x.args[1])):
                bad = x
        if walks_mro:
            # tables consulted along the MRO
            for nm in {y.id for y in ast.walk(f.node) if isinstance(y, ast.Name)}:
                for st in ast.walk(mod.tree):
                    val = st.value if isinstance(st, (ast.Assign, ast.AnnAssign)) and any(
                        isinstance(tg, ast.Name) and tg.id == nm for tg in (st.targets if isinstance(st, ast.Assign) else [st.target])) else None
                    if isinstance(val, ast.Dict) and any(k is not None and catch_all.search(unparse(k)) for k in val.keys):
                        bad = st
        if bad is None:
            r.ok()
        else:
            r.fail(f.qualname, f"catch-all row reached by subclass: {unparse(bad)[:50]}", f.loc(bad),
                   "numpy.generic is a base of every numpy scalar type: with the catch-all row matched along the class hierarchy no scalar "
                   "type is unsupported any more (datetime64, void, abstract kinds get an any-value converter instead of TypeError)")
    return r


STRICT_SIGN = re.compile(r'\b(Positive\w*|Negative\w*|NonPositive\w*)\b')


def rule_dtype_rows_accept_zero(model: Model, rule_id: str = 'C19-R11') -> RuleResult:
    """What ``_dtype_map`` returns reads every value of the numpy scalar kind: every integer kind holds 0, so a strictly signed
    condition on a row makes written arrays unreadable."""
    r = RuleResult(rule_id, "_dtype_map rows carry no condition that excludes values of the kind (0 for unsigned integers)", floor=1)
    fs = _funcs_named(model, NUMPY, '_dtype_map')
    if not fs:
        raise AnalysisError('pane.addons.numpy._dtype_map not found')
    for f in fs:
        r.analysed.add(f.qualname)
        for x in ast.walk(f.node):
            if isinstance(x, ast.Return) and x.value is not None:
                r.instances += 1
                m = STRICT_SIGN.search(unparse(x.value))
                if m:
                    r.fail(f.qualname, f"row returns {unparse(x.value)[:50]}", f.loc(x),
                           "the element type excludes values the numpy kind contains (0): write_json / write_yaml write them, and reading "
                           "the file back raises ConvertError")
                else:
                    r.ok()
    return r


# ---------------------------------------------------------------------------- C05 / C02: a union of value types keeps every member


def rule_type_union_keeps_members(model: Model, rule_id: str = 'C05-R15') -> RuleResult:
    """``type_union`` is the union of the types it is given.  bool is a subclass of int but converts differently (an interchange
    bool stays a bool): dropping members that have a base among the others writes True as 1."""
    r = RuleResult(rule_id, 'util.type_union drops no member by subclass relation', floor=1)
    f = model.func('pane.util.type_union')
    r.analysed.add(f.qualname)
    r.instances += 1
    bad = next((x for x in ast.walk(f.node) if (isinstance(x, ast.Name) and x.id in ('issubclass',))
                or (isinstance(x, ast.Attribute) and x.attr in ('__mro__', '__bases__', '__subclasses__', 'mro'))), None)
    if bad is None:
        r.ok()
    else:
        r.fail(f.qualname, f"{unparse(bad)[:40]}", f.loc(bad),
               "members are removed because a base class of theirs is also a member: Union[bool, int] collapses to int, and an enum "
               "with bool and int values writes its bool members as integers")
    return r


# ---------------------------------------------------------------------------- C08: rendering only formats the offending value


def rule_renderers_do_not_compare_values(model: Model, rule_id: str = 'C08-R15') -> RuleResult:
    """The printers format the offending value; they never test it with ``==`` / ``in``: equality of an arbitrary input value may
    raise or be ambiguous (a numpy array with several elements), and then rendering the error raises."""
    r = RuleResult(rule_id, 'print_error and its helpers never apply == / in to the offending value', floor=1)
    mod = 'pane.errors'
    printers = [f for q, f in model.functions.items() if f.module.name == mod and f.name == 'print_error' and isinstance(f.node, ast.FunctionDef)]
    if not printers:
        raise AnalysisError('pane.errors: no print_error methods')
    work: t.List[t.Tuple[FuncInfo, t.Set[str]]] = []
    for f in printers:
        tainted = {nm for nm in {y.id for y in ast.walk(f.node) if isinstance(y, ast.Name)}
                   if any(isinstance(v, ast.Attribute) and v.attr == 'actual' for v in _local_values(f.node, nm))}
        work.append((f, tainted))
    seen: t.Set[str] = set()
    while work:
        f, tainted = work.pop()
        if f.qualname in seen:
            continue
        seen.add(f.qualname)
        r.analysed.add(f.qualname)

        def is_val(e: ast.AST) -> bool:
            return (isinstance(e, ast.Attribute) and e.attr == 'actual') or (isinstance(e, ast.Name) and e.id in tainted)
        for x in ast.walk(f.node):
            if isinstance(x, ast.Compare):
                r.instances += 1
                ops = [x.left, *x.comparators]
                hit = [o for o, op in zip(ops, [*x.ops, x.ops[-1]]) if is_val(o)] if any(
                    isinstance(op, (ast.Eq, ast.NotEq, ast.In, ast.NotIn, ast.Lt, ast.Gt, ast.LtE, ast.GtE)) for op in x.ops) else []
                if hit:
                    r.fail(f.qualname, f"compares the value: {unparse(x)[:50]}", f.loc(x),
                           "the offending value is compared while the message is rendered: for a value whose == is not a plain bool (a "
                           "numpy array with several elements) str(ConvertError) raises instead of showing the value")
                else:
                    r.ok()
            if isinstance(x, ast.Call) and isinstance(x.func, ast.Name):
                g = model.functions.get(f'{mod}.{x.func.id}')
                if g is not None and isinstance(g.node, ast.FunctionDef) and g.cls is None:
                    gp = [a.arg for a in g.node.args.posonlyargs + g.node.args.args]
                    t2 = {gp[i] for i, a in enumerate(x.args) if i < len(gp) and is_val(a)}
                    if t2:
                        work.append((g, t2))
    return r


# ---------------------------------------------------------------------------- C12 / C13 / C17: annotations keep their metadata


def rule_type_hints_keep_extras(model: Model, rule_id: str = 'C12-R11') -> RuleResult:
    """Annotations are read with their ``Annotated[...]`` metadata (Tagged, conditions, converters live there): a call of
    ``typing.get_type_hints`` without ``include_extras=True`` strips it."""
    r = RuleResult(rule_id, 'typing.get_type_hints is never called without include_extras=True', floor=1)
    f0 = model.func('pane.util.get_type_hints')
    r.analysed.add(f0.qualname)
    r.instances += 1
    r.ok()
    for q, f in model.functions.items():
        if not isinstance(f.node, ast.FunctionDef):
            continue
        for c in walk_no_nested(f.node):
            if isinstance(c, ast.Call) and model.resolve(c.func, f.module, f) in ('typing.get_type_hints', 'typing_extensions.get_type_hints'):
                r.instances += 1
                r.analysed.add(f.qualname)
                kw = next((k.value for k in c.keywords if k.arg == 'include_extras'), None)
                if isinstance(kw, ast.Constant) and kw.value is True:
                    r.ok()
                else:
                    r.fail(f.qualname, 'typing.get_type_hints(...) without include_extras=True', f.loc(c),
                           "Annotated[...] wrappers are stripped from the field types: a Tagged union becomes a plain union (no dispatch "
                           "by tag, external / adjacent layouts unreadable) and conditions disappear")
    return r


# ---------------------------------------------------------------------------- C15 / C02: dataclasses are not sequences or mappings


ABC_KINDS = re.compile(r'(Sequence|Mapping|MutableSequence|MutableMapping|Set|MutableSet|Collection)$')


def rule_no_container_registration(model: Model, rule_id: str = 'C15-R11') -> RuleResult:
    """No class of the library is registered as a virtual Sequence / Mapping: ``data_is_sequence`` / ``data_is_mapping`` decide
    by those ABCs which layout a value is read (and, inside unions, written) as."""
    r = RuleResult(rule_id, 'no <container ABC>.register(cls) anywhere in the library', floor=1)
    for m in model.modules.values():
        r.analysed.add(m.name)
        for c in ast.walk(m.tree):
            if isinstance(c, ast.Call) and isinstance(c.func, ast.Attribute) and c.func.attr == 'register' and c.args \
                    and ABC_KINDS.search(unparse(c.func.value)):
                r.instances += 1
                r.fail(m.name, f"{unparse(c)[:60]}", f"{m.relpath}:{c.lineno}",
                       "a library class becomes a Sequence / Mapping for isinstance: data_is_sequence accepts its instances, so a union "
                       "with a sequence member writes such an instance in that member's layout instead of its own")
    r.instances += 1
    r.ok()
    return r


# ---------------------------------------------------------------------------- C16: the library's own dataclasses use the generated comparisons


def rule_own_dataclasses_use_generated_comparisons(model: Model, rule_id: str = 'C16-R14') -> RuleResult:
    """A dataclass that writes ``__eq__`` by hand keeps the generated ``__hash__`` and ordering (over exact field values): the three
    then disagree.  The library's own dataclasses (pane.types) define none of the comparison methods."""
    r = RuleResult(rule_id, "the library's dataclasses define no __eq__ / __hash__ / ordering by hand", floor=1)
    for q, cls in model.classes.items():
        if q == 'pane.classes.PaneBase' or not model.is_subclass(q, 'pane.classes.PaneBase'):
            continue
        r.instances += 1
        r.analysed.add(q)
        own = [st.name for st in cls.node.body if isinstance(st, ast.FunctionDef) and st.name in ('__eq__', '__ne__', '__hash__', '__lt__', '__le__', '__gt__', '__ge__')]
        if own:
            r.fail(q, f"defines {', '.join(own)}", f"{cls.module.relpath}:{cls.node.lineno}",
                   "a hand-written comparison replaces one of the generated methods only: == no longer agrees with the generated hash "
                   "and ordering (two instances equal under the new == hash differently and compare as < at the same time)")
        else:
            r.ok()
    if not r.instances:
        raise AnalysisError('no dataclass of the library found (pane.types.Range ...)')
    return r


# ---------------------------------------------------------------------------- C17 / C18: substitution re-subscripts the origin


def rule_substitution_resubscripts(model: Model, rule_id: str = 'C17-R23') -> RuleResult:
    """``replace_typevars`` of a parametrised type gives the same origin subscripted with the substituted arguments: never a
    constant (``Any`` for a union that contains Any loses the left-to-right members) and never the bare origin (``list`` for
    ``List[Any]`` is another dispatch subject: mapping-form handlers match the exact bare type)."""
    r = RuleResult(rule_id, 'replace_typevars returns no typing constant and no bare origin for a parametrised type', floor=3)
    f = model.func('pane.util.replace_typevars')
    cfg = cfg_of(model, f)
    nz = Normalizer(model, f, cfg, param_map=_pm(f))
    r.analysed.add(f.qualname)
    for (e, n) in returned_values(cfg):
        r.instances += 1
        text = nz.expr(e, n)
        r.sample(text[:80])
        if re.fullmatch(r'typing\.\w+', text):
            r.fail(f.qualname, f"returns {text}", f.loc(e),
                   "the substituted type is replaced by a constant: Union[float, T] with T := Any becomes Any, so the field is no longer "
                   "converted by the union's members from left to right")
        elif 'typing.get_origin(' in text and '[' not in text and not text.startswith('type('):
            r.fail(f.qualname, f"returns the bare origin {text[:50]}", f.loc(e),
                   "a parametrised type is replaced by its unsubscripted origin: List[T] with T := Any becomes `list`, which a mapping-form "
                   "handler registered for the exact bare type now claims")
        else:
            r.ok()
    return r


# ---------------------------------------------------------------------------- C20 / C15: input names are compared as written


def rule_names_compared_exactly(model: Model, rule_id: str = 'C20-R11') -> RuleResult:
    """Class creation and the dataclass converter compare input names exactly: camel / pascal names of distinct fields may differ
    in case only (`user_name` -> `userName`, `username`)."""
    r = RuleResult(rule_id, 'no case folding of field / input names in pane.classes', floor=2)
    for q in ('pane.classes._process', 'pane.classes.PaneConverter.__init__'):
        f = model.func(q)
        r.analysed.add(q)
        r.instances += 1
        bad = next((c for c in ast.walk(f.node) if isinstance(c, ast.Call) and isinstance(c.func, ast.Attribute)
                    and c.func.attr in ('lower', 'upper', 'casefold', 'swapcase', 'title', 'capitalize')), None)
        if bad is None:
            r.ok()
        else:
            r.fail(q, f"{unparse(bad)[:50]}", f.loc(bad),
                   "names are compared ignoring case: two fields whose camel / pascal input names differ only in capitalisation are "
                   "treated as the same name (class refused, or one field's data routed to the other)")
    return r


def rule_unexpected_keys_only_formatted(model: Model, rule_id: str = 'C08-R16') -> RuleResult:
    """An unexpected key is any hashable the input used (YAML and Python mappings have int / None / tuple keys): the renderer
    formats it, and hands it to no routine that expects text."""
    r = RuleResult(rule_id, 'ProductErrorNode.print_error passes an unexpected key to nothing but formatting', floor=1)
    f0 = model.func('pane.errors.ProductErrorNode.print_error')
    allowed = {'str', 'repr', 'print', 'isinstance', 'type', 'format', 'hash', 'id'}
    # the loop over the unexpected fields: in print_error itself, or in a method / helper of the module it was moved to
    found: t.List[t.Tuple[FuncInfo, ast.For]] = []
    for q, g in model.functions.items():
        if g.module.name == 'pane.errors' and isinstance(g.node, ast.FunctionDef) and (g.cls is None or g.cls.name == 'ProductErrorNode'):
            for x in walk_no_nested(g.node):
                if isinstance(x, ast.For) and isinstance(x.target, ast.Name) and re.search(r'\.extra\b', unparse(x.iter)) \
                        and any(isinstance(c, ast.Call) and isinstance(c.func, ast.Name) and c.func.id == 'print' for c in ast.walk(x)):
                    found.append((g, x))
    if not found:
        raise AnalysisError(f"{f0.loc()}: no loop that prints the unexpected fields found in pane.errors")
    for (f, lp) in found:
        r.analysed.add(f.qualname)
        var = lp.target.id      # type: ignore[union-attr]
        r.instances += 1
        bad = None
        for st in lp.body:
            for c in ast.walk(st):
                if isinstance(c, ast.Call) and any(isinstance(a, ast.Name) and a.id == var for a in [*c.args, *[k.value for k in c.keywords]]):
                    nm = c.func.id if isinstance(c.func, ast.Name) else None
                    if nm not in allowed:
                        bad = c
        if bad is None:
            r.ok()
        else:
            r.fail(f.qualname, f"unexpected key passed to {unparse(bad.func)[:40]}", f.loc(bad),
                   "the key may be an int / None / tuple (YAML, Python dicts): a text routine (difflib, str methods ...) raises on it, so "
                   "rendering the error raises instead of naming the field")
    return r


# ---------------------------------------------------------------------------- C05 / C16 / C19: a dataclass reads what it writes


def rule_filled_fields_accepted_back(model: Model, rule_id: str = 'C05-R16') -> RuleResult:
    """A library dataclass whose ``__post_init__`` fills one field from another (``object.__setattr__(self, 'n', ...)``) writes both
    on output and hands both to the constructor on copy / replace: it must not refuse an instance merely because both are given."""
    r = RuleResult(rule_id, "no __post_init__ of a library dataclass refuses the combination of fields it fills in itself", floor=1)
    for q, cls in model.classes.items():
        if q == 'pane.classes.PaneBase' or not model.is_subclass(q, 'pane.classes.PaneBase'):
            continue
        f = model.functions.get(f'{q}.__post_init__')
        if f is None or not isinstance(f.node, ast.FunctionDef) or not f.params:
            continue
        self_ = f.params[0]
        filled = set()
        for c in ast.walk(f.node):
            if isinstance(c, ast.Call) and unparse(c.func) in ('object.__setattr__', 'setattr') and len(c.args) == 3 \
                    and isinstance(c.args[0], ast.Name) and c.args[0].id == self_ and isinstance(c.args[1], ast.Constant):
                filled.add(c.args[1].value)
            if isinstance(c, (ast.Assign, ast.AnnAssign)):
                for tg in (c.targets if isinstance(c, ast.Assign) else [c.target]):
                    if isinstance(tg, ast.Attribute) and isinstance(tg.value, ast.Name) and tg.value.id == self_:
                        filled.add(tg.attr)
        if not filled:
            continue
        r.analysed.add(f.qualname)

        class _Given(ast.NodeTransformer):
            """the tests of `self.<field> is None` with every field given"""
            def visit_Compare(self, node: ast.Compare) -> ast.AST:
                if len(node.ops) == 1 and isinstance(node.ops[0], (ast.Is, ast.IsNot)) and isinstance(node.comparators[0], ast.Constant) \
                        and node.comparators[0].value is None and isinstance(node.left, ast.Attribute) \
                        and isinstance(node.left.value, ast.Name) and node.left.value.id == self_:
                    return ast.copy_location(ast.Constant(value=isinstance(node.ops[0], ast.IsNot)), node)
                return self.generic_visit(node)

            def visit_Name(self, node: ast.Name) -> ast.AST:
                vals = [v for v in _local_values(f.node, node.id)]
                if isinstance(node.ctx, ast.Load) and len(vals) == 1:
                    import copy
                    return self.visit(copy.deepcopy(vals[0]))
                return node

        def walk_ifs(body: t.Sequence[ast.stmt]) -> None:
            for st in body:
                if isinstance(st, ast.If):
                    if any(isinstance(x, ast.Raise) for x in st.body) and not any(isinstance(x, (ast.If, ast.For, ast.While, ast.Try)) for x in st.body):
                        r.instances += 1
                        import copy
                        test = ast.fix_missing_locations(ast.Expression(body=_Given().visit(copy.deepcopy(st.test))))
                        names = {x.id for x in ast.walk(test) if isinstance(x, ast.Name)} - {'sum', 'any', 'all', 'len'}
                        attrs = [x for x in ast.walk(test) if isinstance(x, ast.Attribute)]
                        verdict = None
                        if not names and not attrs and not any(isinstance(x, (ast.Call,)) and not (isinstance(x.func, ast.Name) and x.func.id in ('sum', 'any', 'all', 'len'))
                                                               for x in ast.walk(test)):
                            try:
                                verdict = bool(eval(compile(test, '<guard>', 'eval'), {'__builtins__': {}, 'sum': sum, 'any': any, 'all': all, 'len': len}))
                            except Exception:
                                verdict = None
                        r.sample({'class': q, 'guard': unparse(st.test)[:60], 'raises when every field is given': verdict})
                        if verdict:
                            r.fail(q, f"__post_init__ refuses {sorted(filled)} given together", f.loc(st),
                                   "the instance fills these fields in itself and writes them all: its own output (and the arguments copy / "
                                   "replace pass on) is refused, so from_data(into_data(x)) and copy.copy(x) raise for every instance")
                        else:
                            r.ok()
                    walk_ifs(st.body)
                    walk_ifs(st.orelse)
        walk_ifs(f.node.body)
    if not r.instances:
        raise AnalysisError("no library dataclass with a filling __post_init__ found (pane.types.Range)")
    return r


# ---------------------------------------------------------------------------- C06: a path is built by its class and nothing else


def rule_path_built_by_its_class(model: Model, rule_id: str = 'C06-R7') -> RuleResult:
    """The converter of a path type constructs the declared class from the text and does nothing more: any normalisation on the way
    in (``expanduser``, ``resolve`` ...) makes ``convert(p, Path)`` differ from ``p`` for an already-typed path."""
    r = RuleResult(rule_id, "the PathLike arm of make_converter hands ScalarConverter the path class itself", floor=1)
    f = model.func('pane.convert.make_converter')
    r.analysed.add(f.qualname)
    calls = [c for c in ast.walk(f.node) if isinstance(c, ast.Call) and unparse(c.func).endswith('ScalarConverter')
             and any(isinstance(a, ast.Constant) and a.value == 'a path' for a in c.args)]
    if not calls:
        raise AnalysisError(f"{f.loc()}: make_converter builds no ScalarConverter(..., 'a path', ...)")
    nested = {x.name for x in ast.walk(f.node) if isinstance(x, ast.FunctionDef) and x is not f.node}
    for c in calls:
        r.instances += 1
        a0 = c.args[0] if c.args else None
        vals: t.List[ast.AST] = [a0] if a0 is not None else []
        if isinstance(a0, ast.Name):
            vals += _local_values(f.node, a0.id)
        wrapped = [v for v in vals if isinstance(v, (ast.Lambda,)) or (isinstance(v, ast.Call) and unparse(v.func).endswith('partial'))]
        if isinstance(a0, ast.Name) and a0.id in nested:
            wrapped.append(a0)
        if wrapped:
            r.fail(f.qualname, f"path constructor is a wrapper ({unparse(wrapped[0])[:40]})", f.loc(c),
                   "the value is passed through a function of the library on the way in: an already-typed path that the function changes "
                   "(`~/x` under expanduser) is no longer a fixed point of convert, and constructors no longer store it unchanged")
        else:
            r.ok()
    return r
