"""C01-R1 / C18-R1: decision-list analysis of ``make_converter`` (DESIGN §3, §20).

``make_converter`` is an ordered decision list.  Its control-flow graph is interpreted *abstractly* over a
finite catalogue of type **kinds**: a kind is a description of a type expression by its position in the
stdlib class lattice and the shape of its arguments (no object of the analysed repository exists, nothing of
the repository is executed; facts such as ``issubclass(str, Sequence)`` are read off stdlib classes the way a
type checker consults typeshed).  For every kind the first admitting arm must be the documented one.

The same walk yields the order of the dispatch landmarks (call-level handlers, HasConverter, scalar tables,
registered global handlers, structural arms), which is C18's precedence rule.
"""
from __future__ import annotations

import ast
import importlib
import inspect
import typing as t

from .. import anchors
from ..cfg import CFG, Node, cfg_of
from ..model import AnalysisError, FuncInfo, Model, unparse
from ..report import RuleResult

MK = 'pane.convert.make_converter'
STDLIB_MODULES = ('builtins', 'typing', 'types', 'collections', 'collections.abc', 'os', 'pathlib', 're', 'datetime',
                  'decimal', 'fractions', 'enum', 'inspect', 'numbers')


class Undecided(Exception):
    pass


class _Raised(Exception):
    """An explicit ``raise`` reached while interpreting a helper function called from the dispatch."""

    def __init__(self, cls: str, node: t.Any):
        self.cls = cls
        self.node = node


# ---------------------------------------------------------------------------- abstract values


class KClass:
    """A class: either a real stdlib class or a synthetic user class given by its bases."""

    def __init__(self, name: str, real: t.Optional[type] = None, bases: t.Sequence['KClass'] = (),
                 has_converter: bool = False, abstract: bool = False):
        self.name = name
        self.real = real
        self.bases = list(bases)
        self.has_converter = has_converter
        self.abstract = abstract

    def __repr__(self) -> str:
        return f"<{self.name}>"


def issub(a: KClass, b: KClass) -> bool:
    if a is b or (a.real is not None and a.real is b.real):
        return True
    if a.real is not None and b.real is not None:
        return issubclass(a.real, b.real)
    if a.real is None:
        return any(issub(x, b) for x in a.bases)
    return False


class TypeV:
    """Abstract type expression."""

    def __init__(self, name: str, kclass: t.Optional[KClass] = None, special: t.Optional[str] = None,
                 origin: t.Optional['TypeV'] = None, args: t.Tuple[t.Any, ...] = (), flags: t.Sequence[str] = (),
                 attrs: t.Optional[t.Dict[str, t.Any]] = None, has_args_attr: bool = False):
        self.name = name
        self.kclass = kclass
        self.special = special
        self.origin = origin
        self.args = args
        self.flags = set(flags)
        self.attrs = attrs or {}
        self.has_args_attr = has_args_attr

    def __repr__(self) -> str:
        return f"T({self.name})"


class Marker:
    def __init__(self, name: str):
        self.name = name

    def __repr__(self) -> str:
        return f"M({self.name})"


class TableV:
    def __init__(self, name: str, keys: t.List[t.Any], values: t.List[ast.expr], module: t.Any):
        self.name = name
        self.keys = keys
        self.values = values
        self.module = module


class ConvResult:
    def __init__(self, kind: str, cls: str = '', args: t.Sequence[t.Any] = (), kwargs: t.Optional[t.Dict[str, t.Any]] = None,
                 node: t.Optional[Node] = None, detail: str = ''):
        self.kind = kind      # conv | raise | recur | annotated | hasconverter
        self.cls = cls
        self.args = list(args)
        self.kwargs = kwargs or {}
        self.node = node
        self.detail = detail
        self.base: t.Any = None   # hasconverter: the class whose _converter() is asked

    def __repr__(self) -> str:
        if self.kind == 'conv':
            return f"{self.cls}({', '.join(map(repr, self.args))})"
        return f"{self.kind}:{self.cls or self.detail}"


ELLIPSIS = TypeV('...', special='Ellipsis')
ANY = TypeV('typing.Any', special='typing.Any')
ANYTYPE = TypeV('type(typing.Any)', special='type(typing.Any)')

_real_cache: t.Dict[str, t.Any] = {}


def real_object(qual: str) -> t.Any:
    """Stdlib object named by ``qual`` (stdlib modules only), or None."""
    if qual in _real_cache:
        return _real_cache[qual]
    obj = None
    for mod in sorted(STDLIB_MODULES, key=len, reverse=True):
        if qual == mod:
            obj = importlib.import_module(mod)
            break
        if qual.startswith(mod + '.'):
            try:
                o: t.Any = importlib.import_module(mod)
                for part in qual[len(mod) + 1:].split('.'):
                    o = getattr(o, part)
                obj = o
            except AttributeError:
                obj = None
            break
    _real_cache[qual] = obj
    return obj


_kclass_cache: t.Dict[int, KClass] = {}


def kclass_of_real(c: type) -> KClass:
    k = _kclass_cache.get(id(c))
    if k is None:
        k = KClass(f"{c.__module__}.{c.__qualname__}", real=c)
        _kclass_cache[id(c)] = k
    return k


def T_real(c: type) -> TypeV:
    return TypeV(f"{c.__module__}.{c.__qualname__}".replace('builtins.', ''), kclass=kclass_of_real(c))


# ---------------------------------------------------------------------------- evaluator


class Interp:
    def __init__(self, model: Model, func: FuncInfo):
        self.model = model
        self.func = func
        self.cfg = cfg_of(model, func)
        self.family = {c.qualname: c for c in model.converter_family()}
        self.trace: t.List[Node] = []
        self.iter_log: t.Dict[int, t.Any] = {}     # loop node id -> what its iterable evaluated to (first time)
        self._depth = 0

    # -- name resolution

    def lookup(self, name: str, env: t.Dict[str, t.Any]) -> t.Any:
        if name in env:
            return env[name]
        q = self.model.resolve(ast.Name(id=name, ctx=ast.Load()), self.func.module, self.func)
        if q is None:
            raise Undecided(f"unbound name {name}")
        return self.qual_value(q)

    def qual_value(self, q: str) -> t.Any:
        if q == 'typing.Any':
            return ANY
        if q == 'builtins.Ellipsis':
            return ELLIPSIS
        if q == 'builtins.None':
            return None
        if q == 'builtins.NotImplemented':
            return Marker('NotImplemented')
        if q in ('typing.Union', 'typing.Annotated', 'typing.Literal', 'types.UnionType', 'typing.Optional', 'typing.ClassVar', 'typing.Final'):
            return TypeV(q, special=q)
        if q in ('typing.TypeVar', 'typing.ForwardRef', 'pane.convert.HasConverter'):
            return Marker(q)
        if q in self.family or q == 'pane.converters.Converter':
            return Marker(q)
        if q.startswith('pane.'):
            mod, _, nm = q.rpartition('.')
            m = self.model.module_of(mod)
            if m is not None and nm in m.assign_values:
                v = m.assign_values[nm]
                if isinstance(v, ast.Dict):
                    return self.table(q, v, m)
                if isinstance(v, ast.Call) and self.model.resolve(v.func, m) == 'typing.cast' and len(v.args) == 2 and isinstance(v.args[1], ast.Dict):
                    return self.table(q, v.args[1], m)
                if isinstance(v, ast.List) and not v.elts:
                    return Marker(q)          # _GLOBAL_HANDLERS
                sub = Interp.__new__(Interp)
                sub.__dict__.update(self.__dict__)
                sub.func = _ModuleScope(m)    # type: ignore[assignment]
                return sub.ev(v, {})
            if m is not None and nm in m.toplevel:
                return Marker(q)
            return Marker(q)
        obj = real_object(q)
        if obj is None:
            raise Undecided(f"cannot resolve {q}")
        if isinstance(obj, type):
            return T_real(obj)
        if inspect.ismodule(obj):
            return obj
        org = t.get_origin(obj)
        if isinstance(org, type) and q.startswith('typing.'):
            # typing alias (typing.Sequence, typing.Tuple ...): a distinct object that behaves as its origin class
            tv = T_real(org)
            al = TypeV(q, kclass=tv.kclass, special=None)
            al.flags.add('typing_alias')
            return al
        if callable(obj):
            return Marker(q)
        raise Undecided(f"unsupported stdlib object {q}")

    def table(self, q: str, d: ast.Dict, m: t.Any) -> TableV:
        sub = Interp.__new__(Interp)
        sub.__dict__.update(self.__dict__)
        sub.func = _ModuleScope(m)  # type: ignore[assignment]
        keys = [sub.ev(k, {}) for k in d.keys if k is not None]
        return TableV(q, keys, list(d.values), m)

    # -- expressions

    def ev(self, e: ast.AST, env: t.Dict[str, t.Any]) -> t.Any:
        if isinstance(e, ast.Constant):
            if e.value is Ellipsis:
                return ELLIPSIS
            return e.value
        if isinstance(e, ast.Name):
            return self.lookup(e.id, env)
        if isinstance(e, ast.Attribute):
            base = self.ev(e.value, env)
            if isinstance(base, TypeV) and e.attr in base.attrs:
                return base.attrs[e.attr]
            if isinstance(base, TableV) and e.attr in ('get', 'keys', 'values', 'items'):
                return ('bound', base, e.attr)
            if isinstance(base, TypeV) and e.attr == '_converter':
                return ('bound', base, '_converter')
            if inspect.ismodule(base):
                return self.qual_value(f"{base.__name__}.{e.attr}")
            if isinstance(base, TypeV) and base.kclass is not None and e.attr in ('__module__', '__name__', '__qualname__'):
                real = base.kclass.real
                if real is not None:
                    return getattr(real, e.attr)
                return 'user_module' if e.attr == '__module__' else base.kclass.name
            raise Undecided(f"attribute {unparse(e)}")
        if isinstance(e, ast.Tuple):
            out: t.List[t.Any] = []
            for x in e.elts:
                if isinstance(x, ast.Starred):
                    out.extend(self.ev(x.value, env))
                else:
                    out.append(self.ev(x, env))
            return tuple(out)
        if isinstance(e, ast.BoolOp):
            if isinstance(e.op, ast.And):
                v: t.Any = True
                for x in e.values:
                    v = self.ev(x, env)
                    if not self.truth(v):
                        return v
                return v
            v = False
            for x in e.values:
                v = self.ev(x, env)
                if self.truth(v):
                    return v
            return v
        if isinstance(e, ast.UnaryOp) and isinstance(e.op, ast.Not):
            return not self.truth(self.ev(e.operand, env))
        if isinstance(e, ast.UnaryOp) and isinstance(e.op, ast.USub):
            return -self.ev(e.operand, env)
        if isinstance(e, ast.IfExp):
            return self.ev(e.body, env) if self.truth(self.ev(e.test, env)) else self.ev(e.orelse, env)
        if isinstance(e, ast.Compare):
            left = self.ev(e.left, env)
            for op, rexp in zip(e.ops, e.comparators):
                right = self.ev(rexp, env)
                if not self.compare(op, left, right):
                    return False
                left = right
            return True
        if isinstance(e, ast.Subscript):
            base = self.ev(e.value, env)
            if isinstance(e.slice, ast.Slice):
                lo = self.ev(e.slice.lower, env) if e.slice.lower else None
                hi = self.ev(e.slice.upper, env) if e.slice.upper else None
                if isinstance(base, tuple):
                    return base[lo:hi]
                raise Undecided(f"slice of {base!r}")
            idx = self.ev(e.slice, env)
            if isinstance(base, tuple) and isinstance(idx, int):
                try:
                    return base[idx]
                except IndexError:
                    raise Undecided(f"index {idx} out of range in {unparse(e)}")
            if isinstance(base, TableV):
                for k, v in zip(base.keys, base.values):
                    if self.same(k, idx):
                        return ('row', base, k, v)
                raise Undecided(f"key {idx!r} not in {base.name}")
            if isinstance(base, TypeV) and base.special == 'typing.Union':
                members = idx if isinstance(idx, tuple) else (idx,)
                return TypeV('Union[...]', origin=base, args=tuple(members), has_args_attr=True)
            raise Undecided(f"subscript {unparse(e)}")
        if isinstance(e, ast.Call):
            return self.call(e, env)
        if isinstance(e, ast.Lambda):
            return Marker('lambda')
        if isinstance(e, ast.JoinedStr):
            return 'fstr'
        raise Undecided(f"expression {type(e).__name__}: {unparse(e)[:60]}")

    def truth(self, v: t.Any) -> bool:
        if isinstance(v, (TypeV, Marker, TableV, ConvResult)):
            return True
        if isinstance(v, (bool, int, str, tuple, list)) or v is None:
            return bool(v)
        raise Undecided(f"truth of {v!r}")

    def same(self, a: t.Any, b: t.Any) -> bool:
        if isinstance(a, TypeV) and isinstance(b, TypeV):
            if 'typing_alias' in a.flags or 'typing_alias' in b.flags:
                return a is b or (a.name == b.name)
            if a.kclass is not None and b.kclass is not None:
                return a.kclass is b.kclass or (a.kclass.real is not None and a.kclass.real is b.kclass.real)
            if a.special is not None and b.special is not None:
                return a.special == b.special
            return a is b
        if isinstance(a, Marker) and isinstance(b, Marker):
            return a.name == b.name
        if isinstance(a, (TypeV, Marker)) or isinstance(b, (TypeV, Marker)):
            return False
        return a is b or a == b

    @staticmethod
    def _is_none_obj(v: t.Any) -> bool:
        return v is None or (isinstance(v, TypeV) and 'noneobj' in v.flags)

    def equal(self, a: t.Any, b: t.Any) -> bool:
        if isinstance(a, tuple) and isinstance(b, tuple):
            return len(a) == len(b) and all(self.equal(x, y) for x, y in zip(a, b))
        if isinstance(a, tuple) != isinstance(b, tuple):
            return False
        return self.same(a, b)

    def compare(self, op: ast.cmpop, a: t.Any, b: t.Any) -> bool:
        if isinstance(op, (ast.Is, ast.IsNot)) and (self._is_none_obj(a) or self._is_none_obj(b)):
            # the `None` object written where a type is expected (`(int, None)`): it is None, and nothing else is
            r_ = self._is_none_obj(a) and self._is_none_obj(b)
            return r_ if isinstance(op, ast.Is) else not r_
        if isinstance(op, ast.Is):
            return self.same(a, b)
        if isinstance(op, ast.IsNot):
            return not self.same(a, b)
        if isinstance(op, ast.Eq):
            return self.equal(a, b)
        if isinstance(op, ast.NotEq):
            return not self.equal(a, b)
        if isinstance(op, (ast.In, ast.NotIn)):
            if isinstance(b, TableV):
                r = any(self.same(k, a) for k in b.keys)
            elif isinstance(b, tuple):
                r = any(self.equal(k, a) for k in b)
            else:
                raise Undecided(f"membership in {b!r}")
            return r if isinstance(op, ast.In) else not r
        if isinstance(a, int) and isinstance(b, int):
            return {ast.Lt: a < b, ast.LtE: a <= b, ast.Gt: a > b, ast.GtE: a >= b}[type(op)]
        raise Undecided(f"comparison {type(op).__name__} of {a!r}, {b!r}")

    def classes(self, v: t.Any) -> t.List[t.Any]:
        return list(v) if isinstance(v, tuple) else [v]

    def call(self, e: ast.Call, env: t.Dict[str, t.Any]) -> t.Any:
        f = e.func
        fname = None
        if isinstance(f, (ast.Name, ast.Attribute)):
            root = f
            while isinstance(root, ast.Attribute):
                root = root.value
            if isinstance(root, ast.Name) and root.id not in env:
                fname = self.model.resolve(f, self.func.module, self.func if isinstance(self.func, FuncInfo) else None)
        args = []
        for a in e.args:
            if isinstance(a, ast.Starred):
                args.extend(self.ev(a.value, env))
            else:
                args.append(self.ev(a, env))
        kwargs = {k.arg: self.ev(k.value, env) for k in e.keywords if k.arg}
        if fname == 'builtins.isinstance':
            return self.isinstance_(args[0], self.classes(args[1]))
        if fname == 'builtins.issubclass':
            x = args[0]
            if not isinstance(x, TypeV) or x.kclass is None:
                raise Undecided(f"issubclass() of a non-class {x!r}")
            for c in self.classes(args[1]):
                if isinstance(c, Marker) and c.name == 'pane.convert.HasConverter':
                    if x.kclass.has_converter:
                        return True
                elif isinstance(c, TypeV) and c.kclass is not None:
                    if issub(x.kclass, c.kclass):
                        return True
                else:
                    raise Undecided(f"issubclass against {c!r}")
            return False
        if fname == 'builtins.type':
            x = args[0]
            if x is None or (isinstance(x, TypeV) and 'noneobj' in x.flags):
                return T_real(type(None))
            if isinstance(x, TypeV):
                if x is ANY or x.special == 'typing.Any':
                    return ANYTYPE
                if 'maplit' in x.flags:
                    return TypeV('type(<mapping literal>)', kclass=kclass_of_real(dict), flags=['typeof_literal'])
                if 'tuplit' in x.flags:
                    return TypeV('type(<tuple literal>)', kclass=kclass_of_real(tuple), flags=['typeof_literal'])
                # the class of some other type expression (a string forward reference, an alias object ...): an opaque class
                return TypeV(f'type({x.name})', flags=['typeof_value'])
            raise Undecided(f"type({x!r})")
        if fname in ('builtins.tuple', 'builtins.list') and len(args) == 1 and isinstance(args[0], (tuple, list)):
            return tuple(args[0])
        if fname == 'builtins.len':
            if isinstance(args[0], tuple):
                return len(args[0])
            raise Undecided(f"len({args[0]!r})")
        if fname == 'builtins.hasattr':
            x, nm = args
            if isinstance(x, TypeV) and nm == '__args__':
                return x.has_args_attr
            if inspect.ismodule(x):
                return hasattr(x, nm)
            raise Undecided(f"hasattr({x!r}, {nm!r})")
        if fname == 'builtins.getattr' and len(args) in (2, 3) and isinstance(args[0], TypeV) and isinstance(args[1], str):
            x, nm = args[0], args[1]
            if nm in x.attrs:
                return x.attrs[nm]
            if nm == '__origin__' and x.origin is not None:
                return x.origin           # typing aliases advertise what get_origin() answers
            if nm == '__args__' and x.has_args_attr:
                return tuple(x.args)
            if nm in ('__origin__', '__args__', '__bound__', '__constraints__', '__metadata__') and len(args) == 3:
                return args[2]
            raise Undecided(f"getattr({x!r}, {nm!r})")
        if fname == 'typing.get_origin':
            x = args[0]
            return x.origin if isinstance(x, TypeV) else None
        if fname == 'typing.get_args':
            x = args[0]
            return tuple(x.args) if isinstance(x, TypeV) else ()
        if fname == 'typing.cast':
            return args[1]
        if fname == 'inspect.isabstract':
            x = args[0]
            if isinstance(x, TypeV) and x.kclass is not None:
                return inspect.isabstract(x.kclass.real) if x.kclass.real is not None else x.kclass.abstract
            raise Undecided(f"isabstract({x!r})")
        if fname == MK:
            return ConvResult('recur', args=args, kwargs=kwargs)
        if fname == 'pane.convert._annotated_converter':
            return ConvResult('annotated', args=args, kwargs=kwargs)
        if fname is not None and (fname in self.family):
            return ConvResult('conv', cls=fname.split('.')[-1], args=args, kwargs=kwargs)
        if fname is not None and fname.startswith('builtins.') and real_object(fname) is not None and \
                isinstance(real_object(fname), type) and issubclass(real_object(fname), BaseException):
            return Marker(fname)
        fv = None
        if isinstance(f, ast.Attribute) or fname is None:
            try:
                fv = self.ev(f, env)
            except Undecided:
                if fname is None:
                    raise
        if isinstance(fv, tuple) and fv and fv[0] == 'bound':
            _, base, meth = fv
            if meth == 'get' and isinstance(base, TableV):
                for k, v in zip(base.keys, base.values):
                    if self.same(k, args[0]):
                        sub = Interp.__new__(Interp)
                        sub.__dict__.update(self.__dict__)
                        sub.func = _ModuleScope(base.module)  # type: ignore[assignment]
                        return sub.ev(v, {})
                return args[1] if len(args) > 1 else None
            if meth == 'keys' and isinstance(base, TableV):
                return tuple(base.keys)
            if meth == '_converter':
                res = ConvResult('hasconverter', args=args, kwargs=kwargs)
                res.base = base
                return res
        if isinstance(fv, tuple) and fv and fv[0] == 'row':
            # _BASIC_WITH_ARGS[base](*args)
            _, tbl, key, vexp = fv
            sub = Interp.__new__(Interp)
            sub.__dict__.update(self.__dict__)
            sub.func = _ModuleScope(tbl.module)  # type: ignore[assignment]
            cls = sub.ev(vexp, {})
            if isinstance(cls, Marker):
                return ConvResult('conv', cls=cls.name.split('.')[-1], args=args, kwargs=kwargs)
        if fname is not None and fname.startswith('warnings.'):
            return None
        if fname is not None and fname in self.model.functions and self.model.functions[fname].cls is None \
                and isinstance(self.model.functions[fname].node, ast.FunctionDef) and self._depth < 4:
            # a module-level helper of the package (e.g. an extracted "abstract -> concrete" function): interpret it
            g = self.model.functions[fname]
            sub = Interp(self.model, g)
            sub._depth = self._depth + 1
            env2: t.Dict[str, t.Any] = {}
            for p_, a in zip(g.params, args):
                env2[p_] = a
            env2.update(kwargs)
            kind, val = sub._exec(env2)
            self.trace.extend(sub.trace)
            self.iter_log.update(sub.iter_log)
            if kind == 'raise':
                raise _Raised(val[0], val[1])
            return val[0]
        raise Undecided(f"call {unparse(e)[:70]}")

    def isinstance_(self, x: t.Any, classes: t.List[t.Any]) -> bool:
        for c in classes:
            if isinstance(c, Marker):
                if c.name == 'typing.TypeVar' and isinstance(x, TypeV) and 'typevar' in x.flags:
                    return True
                if c.name == 'typing.ForwardRef' and isinstance(x, TypeV) and 'fwdref' in x.flags:
                    return True
                continue
            if isinstance(c, TypeV) and c.kclass is not None and c.kclass.real is not None:
                rc = c.kclass.real
                if rc is type:
                    if isinstance(x, TypeV) and x.kclass is not None and 'typing_alias' not in x.flags:
                        return True
                    continue
                if isinstance(x, TypeV):
                    if 'maplit' in x.flags and issubclass(dict, rc):
                        return True
                    if 'tuplit' in x.flags and issubclass(tuple, rc):
                        return True
                    if 'strval' in x.flags and issubclass(str, rc):
                        return True
                    continue
                if isinstance(x, tuple) and issubclass(tuple, rc):
                    return True
                if isinstance(x, str) and issubclass(str, rc):
                    return True
                continue
            raise Undecided(f"isinstance against {c!r}")
        return False

    # -- statements / walk

    def run(self, ty: TypeV, max_steps: int = 4000) -> ConvResult:
        params = self.func.params
        env: t.Dict[str, t.Any] = {params[0]: ty}
        if len(params) > 1:
            env[params[1]] = Marker('handlers')
        try:
            kind, val = self._exec(env, max_steps)
        except _Raised as e:
            return ConvResult('raise', cls=e.cls, node=e.node)
        if kind == 'raise':
            return ConvResult('raise', cls=val[0], node=val[1])
        n = val[1]
        v = val[0]
        if v is None:
            return ConvResult('raise', detail='returns None', node=n)
        if isinstance(v, tuple) and v and v[0] == 'row':
            _, tbl, key, vexp = v
            sub = Interp.__new__(Interp)
            sub.__dict__.update(self.__dict__)
            sub.func = _ModuleScope(tbl.module)  # type: ignore[assignment]
            try:
                rv = sub.ev(vexp, {})
            except Undecided:
                rv = None
            if isinstance(rv, ConvResult):
                rv.node = n
                rv.detail = f"row {key!r} of {tbl.name}"
                return rv
            return ConvResult('conv', cls='<table row>', args=[key], node=n, detail=f"row {key!r} of {tbl.name}")
        if isinstance(v, ConvResult):
            v.node = n
            return v
        raise Undecided(f"return value {v!r}")

    def _exec(self, env: t.Dict[str, t.Any], max_steps: int = 4000) -> t.Tuple[str, t.Any]:
        """Walk the CFG of self.func: ('return', (value, node)) or ('raise', (class name, node))."""
        n = self.cfg.entry
        iters: t.Dict[int, t.List[t.Any]] = {}
        self.trace = []
        steps = 0
        while True:
            steps += 1
            if steps > max_steps:
                raise Undecided("walk does not terminate")
            self.trace.append(n)
            if n.kind in ('entry',):
                n = n.edge('next')[0]
                continue
            if n.kind == 'stmt':
                self.exec_stmt(n.ast, env)
                n = n.edge('next')[0]
                continue
            if n.kind == 'cond':
                v = self.truth(self.ev(n.ast, env))
                nxt = n.edge('T' if v else 'F')
                if not nxt:
                    raise Undecided("dangling branch")
                n = nxt[0]
                continue
            if n.kind == 'iter':
                st = n.ast
                if n.id not in iters:
                    itv = self.ev(st.iter, env)   # type: ignore[attr-defined]
                    self.iter_log.setdefault(n.id, itv)
                    if isinstance(itv, Marker) and itv.name in ('handlers', anchors.global_handlers(self.model)):
                        iters[n.id] = []          # no call-level handlers; global handlers answer NotImplemented
                    elif isinstance(itv, tuple):
                        iters[n.id] = list(itv)
                    elif isinstance(itv, TableV):
                        iters[n.id] = list(itv.keys)      # iterating a dict yields its keys, in order
                    else:
                        raise Undecided(f"iteration over {itv!r}")
                if iters[n.id]:
                    item = iters[n.id].pop(0)
                    tgt = st.target    # type: ignore[attr-defined]
                    if not isinstance(tgt, ast.Name):
                        raise Undecided("destructuring loop target")
                    env[tgt.id] = item
                    n = n.edge('T')[0]
                else:
                    del iters[n.id]
                    n = n.edge('F')[0]
                continue
            if n.kind == 'return':
                if n.ast is None or n.ast.value is None:
                    return 'return', (None, n)
                return 'return', (self.ev(n.ast.value, env), n)
            if n.kind == 'raise':
                c = self.cfg.raised_class(n.ast)
                return 'raise', ((c or '?').split('.')[-1], n)
            if n.kind in ('handler', 'with'):
                raise Undecided(f"unexpected {n.kind} node on the dispatch path")
            raise Undecided(f"node kind {n.kind}")

    def exec_stmt(self, st: ast.AST, env: t.Dict[str, t.Any]) -> None:
        if isinstance(st, (ast.Import, ast.ImportFrom, ast.Pass)):
            return
        if isinstance(st, ast.Expr):
            if isinstance(st.value, ast.Constant):
                return
            if isinstance(st.value, ast.Call):
                q = self.model.resolve(st.value.func, self.func.module, self.func)
                if q is not None and q.startswith('warnings.'):
                    return
            self.ev(st.value, env)
            return
        if isinstance(st, ast.AnnAssign):
            if st.value is not None and isinstance(st.target, ast.Name):
                env[st.target.id] = self.ev(st.value, env)
            return
        if isinstance(st, ast.Assign):
            v = self.ev(st.value, env)
            for tg in st.targets:
                if isinstance(tg, ast.Name):
                    env[tg.id] = v
                elif isinstance(tg, ast.Subscript):
                    continue      # a store into a table does not influence the rest of this walk (who-may-write is C10's rule)
                else:
                    raise Undecided(f"assignment target {unparse(tg)}")
            return
        raise Undecided(f"statement {type(st).__name__}")


class _ModuleScope:
    """Stands in for a FuncInfo when evaluating module-level expressions."""

    def __init__(self, module: t.Any):
        self.module = module
        self.local_imports: t.Dict[str, str] = {}
        self.parent = None
        self.params: t.List[str] = []


# ---------------------------------------------------------------------------- kind catalogue


def _user(name: str, *bases: type, has_converter: bool = False, abstract: bool = False) -> TypeV:
    return TypeV(name, kclass=KClass(name, bases=[kclass_of_real(b) for b in bases], has_converter=has_converter, abstract=abstract))


A = TypeV('A', kclass=KClass('user.ArgA'))
B = TypeV('B', kclass=KClass('user.ArgB'))


def _generic(name: str, origin: type, *args: t.Any) -> TypeV:
    return TypeV(name, origin=T_real(origin), args=tuple(args), has_args_attr=True)


def catalogue() -> t.List[t.Tuple[TypeV, t.Callable[[ConvResult], t.Optional[str]], str]]:
    """(kind, expectation predicate -> error text or None, documented behaviour)."""
    import collections
    import collections.abc as cabc
    import datetime
    import decimal
    import enum
    import fractions
    import os
    import pathlib
    import re

    def conv(cls: str, target: t.Optional[t.Any] = None, argpos: int = 0, extra: t.Optional[t.Callable[[ConvResult], t.Optional[str]]] = None):
        def check(r: ConvResult) -> t.Optional[str]:
            if r.kind != 'conv' or r.cls != cls:
                return f"dispatched to {r!r}, documented: {cls}" + (f" producing {getattr(target, '__name__', target)}" if target is not None else '')
            if target is not None:
                if len(r.args) <= argpos:
                    return f"{cls} built without a target type"
                a = r.args[argpos]
                ok = isinstance(a, TypeV) and a.kclass is not None and (
                    (isinstance(target, type) and a.kclass.real is target) or (isinstance(target, TypeV) and a.kclass is target.kclass))
                if not ok:
                    return f"{cls} built for target {a!r}, documented target: {getattr(target, '__name__', target)}"
            return extra(r) if extra else None
        return check

    def raises(cls: str = 'TypeError'):
        def check(r: ConvResult) -> t.Optional[str]:
            return None if (r.kind == 'raise' and r.cls == cls) else f"dispatched to {r!r}, documented: {cls} before any data is looked at"
        return check

    def kind(k: str):
        def check(r: ConvResult) -> t.Optional[str]:
            return None if r.kind == k else f"dispatched to {r!r}, documented: {k}"
        return check

    def scalar(ty: type):
        def check(r: ConvResult) -> t.Optional[str]:
            if r.kind != 'conv' or 'row' not in r.detail:
                return f"dispatched to {r!r}, documented: the built-in scalar converter for {ty.__name__}"
            a = r.args[0] if r.args else None
            if r.cls in ('ScalarConverter', 'DatetimeConverter'):
                if not (isinstance(a, TypeV) and a.kclass is not None and a.kclass.real is ty):
                    return f"scalar table row for {ty.__name__} builds {r!r}"
            elif r.cls == 'NoneConverter':
                if ty is not type(None):
                    return f"scalar table row for {ty.__name__} builds NoneConverter"
            else:
                return f"scalar table row for {ty.__name__} builds {r!r}"
            return None
        return check

    def elem_arg(pos: int, expect: t.Any):
        def check(r: ConvResult) -> t.Optional[str]:
            a = r.args[pos] if len(r.args) > pos else None
            if a is not expect and not (isinstance(a, TypeV) and isinstance(expect, TypeV) and a.special == expect.special and a.special):
                return f"element type argument {pos} is {a!r}, expected {expect!r}"
            return None
        return check

    def delegate(base_ty: type, sub: TypeV):
        def check(r: ConvResult) -> t.Optional[str]:
            if r.kind != 'conv' or r.cls != 'DelegateConverter':
                return f"dispatched to {r!r}, documented: delegate to the {base_ty.__name__} converter, then construct the subclass"
            a0, a1 = (r.args + [None, None])[:2]
            if not (isinstance(a0, TypeV) and a0.kclass is not None and a0.kclass.real is base_ty):
                return f"delegates to {a0!r}, documented: {base_ty.__name__}"
            if a1 is not sub:
                return f"constructs {a1!r} instead of the subclass"
            return None
        return check

    tv = lambda name, **attrs: TypeV(name, flags=['typevar'], attrs=attrs)  # noqa: E731
    out: t.List[t.Tuple[TypeV, t.Callable[[ConvResult], t.Optional[str]], str]] = []
    add = lambda k, c, d: out.append((k, c, d))  # noqa: E731

    add(ANY, conv('AnyConverter'), 'Any accepts everything')
    add(ANYTYPE, conv('AnyConverter'), 'type(Any) accepts everything')
    add(tv('TypeVar(bound)', __bound__=A, __constraints__=()), kind('recur'), 'bound TypeVar is read as its bound')
    add(tv('TypeVar(free)', __bound__=None, __constraints__=()), kind('recur'), 'free TypeVar is read as Any')
    add(tv('TypeVar(A, B)', __bound__=None, __constraints__=(A, B)), kind('recur'), 'constrained TypeVar is read as the union')
    add(TypeV('{name: type}', flags=['maplit']), conv('StructConverter'), 'mapping literal is a struct type')
    add(TypeV('(type, type)', flags=['tuplit']), conv('TupleConverter'), 'tuple literal is a tuple type')
    add(TypeV("ForwardRef('X')", flags=['fwdref']), raises(), 'unresolved forward reference is refused')
    add(TypeV("'X'", flags=['strval']), raises(), 'string annotation is refused')
    add(TypeV('Annotated[A, ...]', origin=TypeV('typing.Annotated', special='typing.Annotated'), args=(A, Marker('cond')), has_args_attr=True),
        kind('annotated'), 'Annotated dispatches on its annotations')
    add(TypeV('Union[A, B]', origin=TypeV('typing.Union', special='typing.Union'), args=(A, B), has_args_attr=True),
        conv('UnionConverter'), 'typing.Union is an untagged union')
    add(TypeV('A | B', origin=TypeV('types.UnionType', special='types.UnionType'), args=(A, B), has_args_attr=True),
        conv('UnionConverter'), 'PEP 604 union is an untagged union')
    add(TypeV("Literal['a']", origin=TypeV('typing.Literal', special='typing.Literal'), args=('a',), has_args_attr=True),
        conv('LiteralConverter'), 'Literal accepts its values')
    add(TypeV('ClassVar[A]', origin=TypeV('typing.ClassVar', special='typing.ClassVar'), args=(A,), has_args_attr=True),
        raises(), 'other special forms are refused')
    add(_user('class with _converter', has_converter=True), kind('hasconverter'), 'HasConverter protocol')
    # the object None where a type is expected (a member of a tuple / struct type literal): as in typing, it stands for NoneType
    def none_as_type(r: ConvResult) -> t.Optional[str]:
        if r.kind == 'recur' and r.args and isinstance(r.args[0], TypeV) and r.args[0].kclass is not None and r.args[0].kclass.real is type(None):
            return None
        if r.kind == 'conv' and r.cls == 'NoneConverter':
            return None
        return f"dispatched to {r!r}, documented: read as NoneType"
    add(TypeV('None (the object, in a type literal)', flags=['noneobj']), none_as_type, 'None stands for its type')
    # a generic dataclass bound to arguments (G[int]): a subclass made by the package which advertises the class it was made from
    # as __origin__ (typing.get_origin() does not know it); its own _converter() is the one that has the substituted field types
    g_unbound = _user('class G(PaneBase, Generic[T])', has_converter=True)
    g_bound = TypeV('G[int] (bound generic dataclass)', kclass=KClass('user.G[int]', bases=[g_unbound.kclass], has_converter=True),
                    attrs={'__origin__': g_unbound})

    def own_converter(r: ConvResult) -> t.Optional[str]:
        if r.kind != 'hasconverter':
            return f"dispatched to {r!r}, documented: the class's own _converter()"
        if r.base is not g_bound:
            return f"asks {r.base!r} for the converter instead of the bound class (the substituted field types are lost)"
        return None
    add(g_bound, own_converter, 'bound generic dataclass is converted by its own converter')
    for sc in (int, float, complex, str, bytes, bytearray, bool, type(None), datetime.datetime, datetime.date, datetime.time,
               decimal.Decimal, fractions.Fraction):
        add(T_real(sc), scalar(sc), f'built-in scalar {sc.__name__}')
    add(T_real(re.Pattern), conv('PatternConverter'), 're.Pattern')
    add(_generic('re.Pattern[str]', re.Pattern, T_real(str)), conv('PatternConverter'), 're.Pattern[str]')
    add(_user('class E(enum.Enum)', enum.Enum), conv('EnumConverter'), 'Enum by member value')
    add(_user('class IE(enum.IntEnum)', enum.IntEnum), conv('EnumConverter'), 'IntEnum is an Enum, not "any int"')
    add(_user('class SE(str, enum.Enum)', str, enum.Enum), conv('EnumConverter'), 'str-mixin Enum is an Enum')
    add(T_real(os.PathLike), conv('ScalarConverter', pathlib.PurePath), 'os.PathLike produces a PurePath')
    add(T_real(pathlib.PurePath), conv('ScalarConverter', pathlib.PurePath), 'PurePath')
    add(T_real(pathlib.Path), conv('ScalarConverter', pathlib.Path), 'Path')
    add(T_real(pathlib.PurePosixPath), conv('ScalarConverter', pathlib.PurePosixPath), 'PurePosixPath')
    add(_generic('Tuple[A, B]', tuple, A, B), conv('TupleConverter', tuple), 'fixed tuple')
    add(_generic('Tuple[A]', tuple, A), conv('TupleConverter', tuple), 'fixed 1-tuple')
    add(_generic('Tuple[()]', tuple), conv('TupleConverter', tuple), 'empty tuple type')
    add(_generic('Tuple[A, ...]', tuple, A, ELLIPSIS), conv('SequenceConverter', tuple, extra=elem_arg(1, A)), 'variadic tuple')
    add(T_real(tuple), conv('SequenceConverter', tuple, extra=elem_arg(1, ANY)), 'bare tuple')
    # the unsubscripted typing aliases: distinct objects whose origin is the class, without arguments (and without __args__)
    add(TypeV('typing.Tuple (bare alias)', origin=T_real(tuple), args=(), has_args_attr=False),
        conv('SequenceConverter', tuple, extra=elem_arg(1, ANY)), 'bare typing.Tuple is a variadic tuple of anything')
    add(TypeV('typing.List (bare alias)', origin=T_real(list), args=(), has_args_attr=False),
        conv('SequenceConverter', list, extra=elem_arg(1, ANY)), 'bare typing.List')
    add(TypeV('typing.Dict (bare alias)', origin=T_real(dict), args=(), has_args_attr=False),
        conv('DictConverter', dict, extra=elem_arg(1, ANY)), 'bare typing.Dict')
    add(T_real(list), conv('SequenceConverter', list, extra=elem_arg(1, ANY)), 'bare list')
    add(_generic('List[A]', list, A), conv('SequenceConverter', list, extra=elem_arg(1, A)), 'list')
    add(_generic('Sequence[A]', cabc.Sequence, A), conv('SequenceConverter', tuple, extra=elem_arg(1, A)), 'Sequence produces a tuple')
    add(_generic('MutableSequence[A]', cabc.MutableSequence, A), conv('SequenceConverter', list, extra=elem_arg(1, A)), 'MutableSequence produces a list')
    add(_generic('Deque[A]', collections.deque, A), conv('SequenceConverter', collections.deque, extra=elem_arg(1, A)), 'deque')
    add(_generic('Set[A]', set, A), conv('SequenceConverter', set, extra=elem_arg(1, A)), 'set')
    add(_generic('FrozenSet[A]', frozenset, A), conv('SequenceConverter', frozenset, extra=elem_arg(1, A)), 'frozenset')
    add(_generic('AbstractSet[A]', cabc.Set, A), conv('SequenceConverter', frozenset, extra=elem_arg(1, A)), 'abstract Set produces a frozenset')
    add(_generic('MutableSet[A]', cabc.MutableSet, A), conv('SequenceConverter', set, extra=elem_arg(1, A)), 'MutableSet produces a set')
    add(T_real(cabc.Collection), raises(), 'abstract collection without a concrete default is refused')
    add(T_real(dict), conv('DictConverter', dict, extra=elem_arg(1, ANY)), 'bare dict')
    add(_generic('Dict[A, B]', dict, A, B), conv('DictConverter', dict, extra=lambda r: elem_arg(1, A)(r) or elem_arg(2, B)(r)), 'dict')
    add(_generic('Mapping[A, B]', cabc.Mapping, A, B), conv('DictConverter', dict, extra=lambda r: elem_arg(1, A)(r) or elem_arg(2, B)(r)), 'Mapping produces a dict')
    add(_generic('MutableMapping[A, B]', cabc.MutableMapping, A, B), conv('DictConverter', dict, extra=lambda r: elem_arg(1, A)(r) or elem_arg(2, B)(r)), 'MutableMapping produces a dict')
    add(_generic('OrderedDict[A, B]', collections.OrderedDict, A, B), conv('DictConverter', collections.OrderedDict), 'OrderedDict')
    add(_generic('Counter[A]', collections.Counter, A), conv('DictConverter', collections.Counter, extra=lambda r: elem_arg(1, A)(r) or (
        None if (len(r.args) > 2 and isinstance(r.args[2], TypeV) and r.args[2].kclass is not None and r.args[2].kclass.real is int) else 'Counter values are not int')), 'Counter counts ints')
    add(_generic('DefaultDict[A, B]', collections.defaultdict, A, B), conv('DictConverter', collections.defaultdict, extra=lambda r: (
        None if (len(r.args) > 3 and r.args[3] is not None) or r.kwargs.get('constructor') is not None else 'defaultdict built without its special constructor')), 'defaultdict')
    for base_ty in (int, float, str, bytes, decimal.Decimal, fractions.Fraction, datetime.datetime):
        sub = _user(f'class S({base_ty.__name__})', base_ty)
        add(sub, delegate(base_ty, sub), f'subclass of {base_ty.__name__} delegates to the scalar converter')
    add(_user('class Plain'), raises(), 'arbitrary class is refused')
    return out


# ---------------------------------------------------------------------------- rules


LANDMARKS = ['call-level handlers', 'HasConverter', 'scalar table', 'args table', 'global handlers',
             'enum', 'pathlike', 'tuple', 'sequence/set', 'mapping', 'scalar-subclass delegate']


def classify_landmark(model: Model, func: FuncInfo, n: Node, iter_log: t.Optional[t.Dict[int, t.Any]] = None) -> t.Optional[str]:
    if n.kind == 'iter':
        if iter_log is not None and isinstance(iter_log.get(n.id), Marker) and iter_log[n.id].name == anchors.global_handlers(model):
            return 'global handlers'
        s = unparse(n.ast.iter)      # type: ignore[attr-defined]
        q = model.resolve(n.ast.iter, func.module, func)  # type: ignore[attr-defined]
        if len(func.params) > 1 and s == func.params[1]:
            return 'call-level handlers'
        if q == anchors.global_handlers(model):
            return 'global handlers'
        if anchors.short(anchors.scalar_table(model)) in s:
            return 'scalar-subclass delegate'
        return None
    if n.kind != 'cond':
        return None
    test: ast.AST = n.ast
    # a local flag bound once to the test (`is_collection = issubclass(...)`): classify the test itself
    for _i in range(3):
        inner = test.operand if isinstance(test, ast.UnaryOp) and isinstance(test.op, ast.Not) else test
        if isinstance(inner, ast.Name):
            cfg_ = cfg_of(model, func)
            defs_ = cfg_.reaching().at(n, inner.id) if cfg_.reaching().is_local(inner.id) else []
            if len(defs_) == 1 and defs_[0].kind == 'assign' and defs_[0].value is not None and not defs_[0].path:
                test = defs_[0].value
                continue
        break
    s = unparse(test)
    names = {model.resolve(x, func.module, func) for x in ast.walk(test) if isinstance(x, (ast.Name, ast.Attribute))}
    if s.startswith('issubclass('):
        if 'pane.convert.HasConverter' in names:
            return 'HasConverter'
        if 'enum.Enum' in names:
            return 'enum'
        if 'os.PathLike' in names:
            return 'pathlike'
        if 'builtins.tuple' in names and 'collections.abc.Sequence' not in names:
            return 'tuple'
        if 'collections.abc.Sequence' in names or 'collections.abc.Set' in names:
            return 'sequence/set'
        if 'builtins.dict' in names or 'typing.Mapping' in names or 'collections.abc.Mapping' in names:
            return 'mapping'
    if ' in ' in s and isinstance(test, ast.Compare):
        if anchors.scalar_table(model) in names:
            return 'scalar table'
        if anchors.args_table(model) in names:
            return 'args table'
    return None


def rule_dispatch(model: Model, rule_id: str = 'C01-R1') -> RuleResult:
    r = RuleResult(rule_id, 'first admitting arm of make_converter is the documented one, for every type kind', floor=58)
    func = model.func(MK)
    r.analysed.add(func.qualname)
    try:
        cat = catalogue()
        for (kd, check, doc) in cat:
            it = Interp(model, func)
            res = it.run(kd)
            r.instances += 1
            err = check(res)
            r.sample({'kind': kd.name, 'first_admitting_arm': repr(res), 'line': res.node.lineno if res.node else None})
            if err is None:
                r.ok()
            else:
                loc = func.loc(res.node.ast) if res.node is not None and res.node.ast is not None else func.loc()
                r.fail(MK, f"kind {kd.name}: {err}", loc, f"{doc}: {err}")
    except Undecided as e:
        raise AnalysisError(f"{func.loc()}: make_converter uses a construct the dispatch analysis cannot decide: {e}")
    return r


def rule_c01_r1(model: Model) -> RuleResult:
    return rule_dispatch(model, 'C01-R1')


def rule_c18_r1_order(model: Model) -> RuleResult:
    """Precedence = order of the landmarks on the fall-through path of an arbitrary class."""
    r = RuleResult('C18-R1', 'custom-converter precedence: order of the dispatch landmarks in make_converter', floor=11)
    func = model.func(MK)
    r.analysed.add(func.qualname)
    try:
        it = Interp(model, func)
        it.run(_user('class Plain'))
    except Undecided as e:
        raise AnalysisError(f"{func.loc()}: dispatch walk undecided: {e}")
    seen: t.List[t.Tuple[str, Node]] = []
    for n in it.trace:
        lm = classify_landmark(model, func, n, it.iter_log)
        if lm is not None and lm not in [s for s, _ in seen]:
            seen.append((lm, n))
    order = [s for s, _ in seen]
    r.instances = len(order)
    r.sample({'fall-through order': order})
    for lm in LANDMARKS:
        if lm not in order:
            r.fail(MK, f"landmark {lm} missing", func.loc(), f"the dispatch no longer consults '{lm}' for an ordinary class")
    # documented precedence: the first five landmarks in this order, and all of them before every structural arm; the order
    # of the structural arms among themselves is decided per kind by C01-R1 (first admitting arm), not here
    head = LANDMARKS[:5]
    structural = LANDMARKS[5:]
    pos = {lm: i for i, lm in enumerate(order)}
    bad = None
    for a, b in zip(head, head[1:]):
        if a in pos and b in pos and pos[a] > pos[b]:
            bad = (b, a)
    for hd in head:
        for st in structural:
            if hd in pos and st in pos and pos[st] < pos[hd] and bad is None:
                bad = (st, hd)
    if bad is None:
        r.ok(len(order))
    else:
        node = seen[pos[bad[0]]][1]
        r.fail(MK, f"order {' < '.join(order)}", func.loc(node.ast),
               f"'{bad[0]}' is consulted before '{bad[1]}'; documented precedence: {' < '.join(head)} < structural arms")
    # every kind that gets past the scalar tables meets the registered handlers: the loop over them is reached with the
    # handler list itself (not an emptied or filtered stand-in), whatever the type is
    gh = anchors.global_handlers(model)
    gh_loops = [n for n in cfg_of(model, func).live_nodes() if n.kind == 'iter'
                and any(model.resolve(x, func.module, func) == gh for x in ast.walk(n.ast.iter))]      # type: ignore[attr-defined]
    if gh_loops:
        skipped = []
        try:
            for (kd, _check, _doc) in catalogue():
                it2 = Interp(model, func)
                it2.run(kd)
                for lp in gh_loops:
                    if lp.id in it2.iter_log:
                        v = it2.iter_log[lp.id]
                        if not (isinstance(v, Marker) and v.name == gh):
                            skipped.append((kd.name, lp))
        except Undecided as e:
            raise AnalysisError(f"{func.loc()}: dispatch walk undecided: {e}")
        r.instances += 1
        if skipped:
            names = sorted({k for k, _ in skipped})
            r.fail(MK, f"registered handlers not consulted for {names[:6]}{' ...' if len(names) > 6 else ''}", func.loc(skipped[0][1].ast),
                   "for these kinds the loop over the registered (global) handlers runs over something else than the handler list: a handler "
                   "registered for such a type is never asked, and the structural converter wins")
        else:
            r.ok()
    # handlers (call-level and registered) are asked about *classes*: the special forms of typing (Union, Literal, Annotated ...)
    # are dispatched before any handler loop is reached - a handler written as the documentation shows (`issubclass(ty, Foo)`)
    # raises TypeError when handed `typing.Union`
    cfg_ = cfg_of(model, func)
    h_loops = [n for n in cfg_.live_nodes() if n.kind == 'iter' and (
        unparse(n.ast.iter) in ('handlers',) or any(model.resolve(x, func.module, func) == gh for x in ast.walk(n.ast.iter)))]  # type: ignore[attr-defined]
    if h_loops:
        reached = []
        try:
            for (kd, _check, _doc) in catalogue():
                special = isinstance(kd.origin, TypeV) and kd.origin.special is not None and kd.origin.kclass is None
                if not special:
                    continue
                it3 = Interp(model, func)
                it3.run(kd)
                for lp in h_loops:
                    if lp.id in it3.iter_log:
                        reached.append((kd.name, lp))
        except Undecided as e:
            raise AnalysisError(f"{func.loc()}: dispatch walk undecided: {e}")
        r.instances += 1
        r.sample({'special forms that reach a handler loop': sorted({k for k, _ in reached})})
        if reached:
            r.fail(MK, f"handlers are asked about the special form {sorted({k for k, _ in reached})[:4]}", func.loc(reached[0][1].ast),
                   "a handler receives `typing.Union` / `typing.Literal` instead of a class: one written with issubclass(ty, ...) raises "
                   "TypeError while the converter of a union is built, so Optional[...] fields stop converting whenever such a handler is in effect")
        else:
            r.ok()
    return r
