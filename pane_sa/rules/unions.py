"""C11 (untagged unions: left-most accepting member wins) and C12 (tagged unions) — DESIGN §13, §14."""
from __future__ import annotations

import ast
import re
import typing as t

from ..cfg import CFG, Node, cfg_of, node_exprs, walk_no_nested
from ..family import PI, family, find_subcalls, subconv_attrs, walk_with_bindings
from ..model import AnalysisError, FuncInfo, Model, unparse
from ..norm import Normalizer
from ..report import RuleResult

UNION = 'pane.converters.UnionConverter'
TAGGED = 'pane.converters.TaggedUnionConverter'
ORDER_BREAKERS = re.compile(r'\b(set|frozenset|sorted|reversed|builtins\.set|builtins\.sorted|builtins\.reversed|builtins\.frozenset|random\.\w+)\(')


def _pm(f: FuncInfo) -> t.Dict[str, str]:
    pm = {p: f'${p}' for p in f.params}
    if f.params and f.params[0] in ('self', 'cls'):
        pm[f.params[0]] = f.params[0]
    return pm


def rule_c11_r1(model: Model) -> RuleResult:
    r = RuleResult('C11-R1', 'union members reach the member loop in declaration order, one converter per member', floor=4)
    # (a) make_converter Union arm passes get_args(ty) unchanged
    mk = model.func('pane.convert.make_converter')
    cfg = cfg_of(model, mk)
    nz = Normalizer(model, mk, cfg, param_map=_pm(mk))
    r.analysed.add(mk.qualname)
    arms = []
    for n in cfg.live_nodes():
        for root in node_exprs(n):
            for c in walk_no_nested(root):
                if isinstance(c, ast.Call) and model.resolve(c.func, mk.module, mk) == UNION:
                    arms.append((n, c))
    if not arms:
        raise AnalysisError(f"{mk.loc()}: make_converter has no UnionConverter(...) arm")
    for (n, c) in arms:
        r.instances += 1
        a0 = nz.expr(c.args[0], n) if c.args else '?'
        r.sample({'union arm passes': a0})
        if a0 == 'typing.get_args($ty)':
            r.ok()
        else:
            r.fail(mk.qualname, f"UnionConverter({a0})", mk.loc(c), "the union arm does not pass the members exactly as declared (typing.get_args(ty))")
    # (b) UnionConverter.__init__: converters = 1:1 ordered image of the members
    init = model.func(f'{UNION}.__init__')
    icfg = cfg_of(model, init)
    inz = Normalizer(model, init, icfg, param_map=_pm(init))
    r.analysed.add(init.qualname)
    defs = []
    for n in icfg.live_nodes():
        if n.kind == 'stmt' and isinstance(n.ast, (ast.Assign, ast.AugAssign, ast.AnnAssign)):
            tgts = n.ast.targets if isinstance(n.ast, ast.Assign) else [n.ast.target]
            for tg in tgts:
                if isinstance(tg, ast.Attribute) and isinstance(tg.value, ast.Name) and tg.value.id == 'self' and tg.attr == 'converters':
                    defs.append(n)
    if not defs:
        raise AnalysisError(f"{init.loc()}: UnionConverter.__init__ does not assign self.converters")
    want = re.compile(r'^(tuple|list)\((GEN|LIST)\(pane\.convert\.make_converter\(ELEM\(\$types\), (handlers=)?\$handlers\)\)\)$')
    for n in defs:
        r.instances += 1
        form = inz.expr(n.ast.value, n)
        r.sample({'self.converters': form})
        if isinstance(n.ast, ast.Assign) and want.match(form):
            r.ok()
        else:
            r.fail(init.qualname, f"self.converters = {form[:120]}", init.loc(n.ast),
                   "the member converters are not the one-to-one, order-preserving image of the declared members "
                   "(members reordered, filtered, collapsed or de-duplicated): the left-most accepting member no longer decides")
    # (d) type-variable substitution rebuilds a union from its members in declaration order, keeping the first of duplicates
    rt = model.func('pane.util.replace_typevars')
    rcfg = cfg_of(model, rt)
    rnz = Normalizer(model, rt, rcfg, param_map=_pm(rt))
    r.analysed.add(rt.qualname)
    allowed = {'tuple', 'list', 'PHI', 'GEN', 'LIST', 'dict.fromkeys', 'pane.util.flatten_union_args', 'pane.util.replace_typevars', 'ELEM',
               'typing.get_args', 'next', 'iter', 'typing.get_origin', 'TRUTHY', 'type', 'DICT', 'KEY', 'VALUE', 'itertools.chain',
               'itertools.chain.from_iterable', 'typing.cast'}
    allowed_methods = {'keys', 'get'}
    n_union = 0
    for n in rcfg.live_nodes():
        if n.kind != 'return' or n.ast is None or n.ast.value is None:
            continue
        form = rnz.expr(n.ast.value, n)
        if 'flatten_union_args' not in form and 'typing.Union' not in form:
            continue
        n_union += 1
        r.instances += 1
        heads = set(re.findall(r'(?<![\w.$)\]])([A-Za-z_][\w.]*)\(', form))
        meths = set(re.findall(r'[)\]]\.(\w+)\(', form)) | {h.rsplit('.', 1)[1] for h in heads if h.startswith('$')}
        bad = sorted(h for h in heads if h not in allowed and not h.startswith('$')) + sorted(m_ for m_ in meths if m_ not in allowed_methods)
        filtered = ' if ' in form
        r.sample({'rebuilt union members': form[:160]})
        if bad or filtered:
            what = (f"members pass through {bad}" if bad else 'members are filtered')
            r.fail(rt.qualname, what, rt.loc(n.ast),
                   "substituting type variables rebuilds the union with its members reordered, or de-duplicated other than by keeping the "
                   "first occurrence (only tuple / list / dict.fromkeys / flatten_union_args keep the declared left-to-right order): "
                   "another member accepts first, e.g. Union[T, float, int][int] converts 3 to 3.0")
        else:
            r.ok()
    if n_union == 0:
        raise AnalysisError(f"{rt.loc()}: replace_typevars: no return that rebuilds a union found")
    # (c) flatten_union_args preserves order
    fl = model.func('pane.util.flatten_union_args')
    r.instances += 1
    r.analysed.add(fl.qualname)
    src = unparse(fl.node)
    if ORDER_BREAKERS.search(src):
        r.fail(fl.qualname, 'order-breaking call', fl.loc(), "flatten_union_args passes members through a set / sorted / reversed")
    else:
        r.ok()
    return r


def _member_loop(model: Model, f: FuncInfo) -> t.Tuple[CFG, Normalizer, Node]:
    cfg = cfg_of(model, f)
    nz = Normalizer(model, f, cfg)
    loops = [n for n in cfg.live_nodes() if n.kind == 'iter' and 'self.converters' in nz.expr(n.ast.iter, n)]  # type: ignore[attr-defined]
    if len(loops) != 1:
        raise AnalysisError(f"{f.loc()}: expected exactly one loop over self.converters in {f.qualname}, found {len(loops)}")
    return cfg, nz, loops[0]


def rule_c11_r2(model: Model) -> RuleResult:
    r = RuleResult('C11-R2', 'members are tried in order and the first success returns at once (convert, diagnose and serialise alike)', floor=6)
    cls = model.cls(UNION)
    attrs = subconv_attrs(model, cls)
    for mname in ('try_convert', 'collect_errors', 'into_data'):
        f = model.func(f'{UNION}.{mname}')
        r.analysed.add(f.qualname)
        cfg0 = cfg_of(model, f)
        nz0 = Normalizer(model, f, cfg0)
        loops0 = [n for n in cfg0.live_nodes() if n.kind == 'iter' and 'self.converters' in nz0.expr(n.ast.iter, n)]  # type: ignore[attr-defined]
        if len(loops0) > 1:
            r.instances += 1
            r.fail(f.qualname, f"{len(loops0)} loops over the members", f.loc(loops0[0].ast),
                   "the members are searched more than once, by different tests: a member found by the first search (e.g. isinstance "
                   "against the declared class, which a subclass instance also passes) pre-empts the member the probing would select")
            continue
        cfg, nz, lp = _member_loop(model, f)
        r.instances += 1
        it_form = nz.expr(lp.ast.iter, lp)  # type: ignore[attr-defined]
        elem = nz.iter_elem(lp.ast.iter, (), lp, {}, 0)  # type: ignore[attr-defined]
        elem1 = nz.iter_elem(lp.ast.iter, (1,), lp, {}, 0)  # type: ignore[attr-defined]
        r.sample({'method': mname, 'iterates': it_form})
        if ORDER_BREAKERS.search(it_form) or 'ELEM(self.converters)' not in (elem, elem1) or \
                it_form not in ('self.converters', 'enumerate(self.converters)'):
            r.fail(f.qualname, f"for ... in {it_form}", f.loc(lp.ast), "members are not tried strictly in declaration order, each exactly once")
        else:
            r.ok()
        # the success exit lies inside the loop, after the member's try_convert, and uses that member's result
        r.instances += 1
        subs = [sc for sc in find_subcalls(model, cls, f, nz, cfg, attrs) if sc.method == 'try_convert' and lp.ast in sc.node.loop_of]
        if not subs:
            r.fail(f.qualname, 'no member try_convert in loop', f.loc(lp.ast), "the member loop does not consult the members' fast pass")
            continue
        # ways of leaving the loop early (return inside it, or break): every normal edge from a node of the body to a node outside it
        leaves = []
        for a_ in cfg.live_nodes():
            if lp.ast not in a_.loop_of or a_ is lp or a_.kind == 'raise':
                continue
            for (lb_, b_) in a_.succ:
                if lb_ != 'exc' and lp.ast not in b_.loop_of and b_ is not lp and b_.kind != 'raise_exit':
                    leaves.append(a_)
        good = False
        for rn in leaves:
            if any(cfg.node_dominates(sc.node, rn) or sc.node is rn for sc in subs):
                good = True
        if good:
            r.ok()
        else:
            r.fail(f.qualname, 'no return after a member succeeds', f.loc(lp.ast),
                   "a member's success does not end the search inside the loop: a later member can overwrite the result (last wins)")
        # nothing is accumulated across members in the fast pass / serialiser
        if mname == 'try_convert':
            r.instances += 1
            after = [n for n in cfg.live_nodes() if n.kind in ('raise', 'return') and lp.ast not in n.loop_of]
            if all(n.kind == 'raise' and cfg.raised_class(n.ast) == PI for n in after) and after:
                r.ok()
            else:
                r.fail(f.qualname, 'exit after the loop', f.loc(), "when no member accepts, the fast pass must reject (raise ParseInterrupt), not return a value")
    return r


def rule_c11_r3(model: Model) -> RuleResult:
    r = RuleResult('C11-R3', 'every member is offered the original input', floor=3)
    cls = model.cls(UNION)
    attrs = subconv_attrs(model, cls)
    for mname in ('try_convert', 'collect_errors', 'into_data'):
        f = model.func(f'{UNION}.{mname}')
        cfg = cfg_of(model, f)
        nz = Normalizer(model, f, cfg)
        r.analysed.add(f.qualname)
        for sc in find_subcalls(model, cls, f, nz, cfg, attrs):
            r.instances += 1
            r.sample({'method': mname, 'call': f"{sc.recv}.{sc.method}({sc.arg})"})
            if sc.arg == 'VAL':
                r.ok()
            else:
                r.fail(f.qualname, f"{sc.recv}.{sc.method}({sc.arg[:80]})", f.loc(sc.call),
                       "a member is offered something other than the value passed in (an earlier member's converted result)")
    return r


# ---------------------------------------------------------------------------- C12


def rule_c12_r1(model: Model) -> RuleResult:
    r = RuleResult('C12-R1', 'the three tagged layouts are written exactly as they are read', floor=9)
    w = model.func(f'{TAGGED}.into_data')
    wcfg = cfg_of(model, w)
    wnz = Normalizer(model, w, wcfg)
    r.analysed.add(w.qualname)
    TAGV = 'VAL.<self.tag>'

    def tagnorm(s: str) -> str:
        return s.replace('getattr(VAL, self.tag)', TAGV)

    def layout_of(cfg: CFG, nz: Normalizer, n: Node) -> str:
        lits = set()
        for a in cfg.nodes:
            if a.kind == 'cond':
                text, pos = nz.literal(a.ast, a)
                for lb in ('T', 'F'):
                    if a.edge(lb) and cfg.edge_dominates(a, lb, n):
                        lits.add(('' if pos == (lb == 'T') else 'not ') + text)
        if 'False is self.external' in lits:
            return 'internal'
        if 'True is self.external' in lits:
            return 'external'
        if 'not False is self.external' in lits and 'not True is self.external' in lits:
            return 'adjacent'
        return '?'

    writers: t.Dict[str, str] = {}
    from ..cfg import returned_values
    internal_forms: t.List[str] = []
    for (val_e, n) in returned_values(wcfg):
        lay_ = layout_of(wcfg, wnz, n)
        form_ = tagnorm(wnz.expr(val_e, n))
        if lay_ == 'internal':
            internal_forms.append(form_)
        writers[lay_] = form_
    conv = f"self.converters[self.tag_map[{TAGV}]].into_data(VAL)"
    expected_w = {
        'internal': conv,
        'external': '{' + f"{TAGV}: {conv}" + '}',
        'adjacent': '{' + f"self.external.0: {TAGV}, self.external.1: {conv}" + '}',
    }
    for lay, want in expected_w.items():
        r.instances += 1
        got = writers.get(lay)
        r.sample({'layout': lay, 'writes': got})
        if got is None:
            r.fail(w.qualname, f"{lay} layout not written", w.loc(), f"into_data has no branch for the {lay} layout")
        elif got == want or (lay == 'adjacent' and got == '{' + f"self.external.1: {conv}, self.external.0: {TAGV}" + '}'):
            r.ok()
        elif lay == 'internal' and internal_forms and all(
                x in (conv, '{' + f"self.tag: {TAGV}, **: {conv}" + '}', '{' + f"**: {conv}, self.tag: {TAGV}" + '}') for x in internal_forms):
            # the variant's own output, with the tag added under the key the reader pops where the variant does not write it (C12-R9)
            r.ok()
        else:
            r.fail(w.qualname, f"{lay}: {got[:150]}", w.loc(),
                   f"the {lay} layout is not written as it is read (expected normal form {want}): the same type refuses its own output")
    # readers: (tag, body) per layout
    expected_r = {
        'internal': ('VAL.pop(self.tag)', 'VAL'),
        'external': ('KEY(VAL)', 'VALUE(VAL)'),
        'adjacent': ('VAL[self.external.0]', 'VAL[self.external.1]'),
    }
    for mname in ('try_convert', 'collect_errors'):
        f = model.func(f'{TAGGED}.{mname}')
        cfg = cfg_of(model, f)
        nz = Normalizer(model, f, cfg)
        r.analysed.add(f.qualname)
        found: t.Dict[str, t.Tuple[str, str]] = {}
        gates: t.Dict[str, t.Set[str]] = {}
        # the tag variable is the one the tag map is looked up with; the body variable is what the variant receives
        tag_var = body_var = None
        for n in cfg.live_nodes():
            for root in node_exprs(n):
                for sub in walk_no_nested(root):
                    if isinstance(sub, ast.Subscript) and unparse(sub.value) == 'self.tag_map' and isinstance(sub.slice, ast.Name):
                        tag_var = sub.slice.id
                    # ... or through a helper of the class whose result is that look-up (self._index_of(tag))
                    if isinstance(sub, ast.Call) and isinstance(sub.func, ast.Attribute) and isinstance(sub.func.value, ast.Name) \
                            and sub.func.value.id == 'self' and len(sub.args) == 1 and isinstance(sub.args[0], ast.Name) and not sub.keywords \
                            and nz.expr(sub, n).startswith('self.tag_map['):
                        tag_var = sub.args[0].id
                    if isinstance(sub, ast.Call) and isinstance(sub.func, ast.Attribute) and sub.func.attr in ('try_convert', 'collect_errors') \
                            and unparse(sub.func.value).startswith('self.converters[') and sub.args and isinstance(sub.args[0], ast.Name):
                        body_var = sub.args[0].id
        if tag_var is None:
            raise AnalysisError(f"{f.loc()}: {mname}: the tag-map lookup `self.tag_map[<tag>]` was not found")
        rd = cfg.reaching()
        for d in rd.defs:
            if d.name == tag_var and d.kind in ('assign', 'walrus') and d.node.id in cfg.reachable():
                lay = layout_of(cfg, nz, d.node)
                bodyf = [nz._def_form(b, 0) for b in rd.defs if b.node is d.node and b.name == body_var and b is not d]
                prev = found.get(lay, ('', ''))
                found[lay] = (nz._def_form(d, 0), bodyf[0] if bodyf else prev[1])
        for lay, (wt, wb) in expected_r.items():
            r.instances += 1
            got = found.get(lay)
            r.sample({'method': mname, 'layout': lay, 'reads': got})
            if got is None:
                r.fail(f.qualname, f"{lay} layout not read", f.loc(), f"{mname} has no branch extracting the tag for the {lay} layout")
                continue
            body = got[1] or ('VAL' if lay == 'internal' else '')
            if got[0] == wt and (body == wb or lay == 'internal'):
                r.ok()
            else:
                r.fail(f.qualname, f"{lay}: tag={got[0]}, body={body}", f.loc(),
                       f"the {lay} layout is read differently from how it is written (expected tag={wt}, body={wb})")
        # shape gates of the external / adjacent layouts
        lits: t.Set[str] = set()
        for a in cfg.nodes:
            if a.kind == 'cond':
                text, pos = nz.literal(a.ast, a)
                lits.add(text)
        for need in ('1 == len(VAL)', '2 == len(VAL)'):
            r.instances += 1
            if need in lits:
                r.ok()
            else:
                r.fail(f.qualname, f"missing shape test {need}", f.loc(), f"{mname} does not check the number of keys of an externally / adjacently tagged mapping")
    return r


def rule_c12_r2(model: Model) -> RuleResult:
    r = RuleResult('C12-R2', 'the variant is selected by the tag alone: one delegation, chosen through the tag map, no fallback loop', floor=3)
    cls = model.cls(TAGGED)
    attrs = subconv_attrs(model, cls)
    for mname in ('try_convert', 'collect_errors', 'into_data'):
        f = model.func(f'{TAGGED}.{mname}')
        cfg = cfg_of(model, f)
        nz = Normalizer(model, f, cfg)
        r.analysed.add(f.qualname)
        r.instances += 1
        subs = [sc for sc in find_subcalls(model, cls, f, nz, cfg, attrs)]
        loops = [n for n in cfg.live_nodes() if n.kind == 'iter' and 'self.converters' in nz.expr(n.ast.iter, n)]  # type: ignore[attr-defined]
        r.sample({'method': mname, 'delegations': [f"{s.recv}.{s.method}" for s in subs]})
        bad = [s for s in subs if not s.recv.startswith('self.converters[self.tag_map[')]
        if loops:
            r.fail(f.qualname, 'loop over self.converters', f.loc(loops[0].ast), "variants are tried in turn: the body, not the tag, decides which variant is produced")
        elif bad:
            r.fail(f.qualname, f"{bad[0].recv}.{bad[0].method}", f.loc(bad[0].call), "a variant is consulted that was not selected through the tag map")
        elif not subs:
            r.fail(f.qualname, 'no delegation', f.loc(), "the selected variant is never consulted")
        else:
            r.ok()
    return r


def rule_c12_r3(model: Model) -> RuleResult:
    r = RuleResult('C12-R3', 'duplicate tag values are refused when the converter is built', floor=1)
    f = model.func(f'{TAGGED}.__init__')
    cfg = cfg_of(model, f)
    nz = Normalizer(model, f, cfg, param_map=_pm(f))
    r.analysed.add(f.qualname)
    stores = []
    for n in cfg.live_nodes():
        if n.kind == 'stmt' and isinstance(n.ast, ast.Assign):
            for tg in n.ast.targets:
                if isinstance(tg, ast.Subscript) and nz.expr(tg.value, n) == 'self.tag_map':
                    stores.append((n, nz.expr(tg.slice, n)))
    if not stores:
        raise AnalysisError(f"{f.loc()}: TaggedUnionConverter.__init__ has no store into self.tag_map")
    for (n, key) in stores:
        r.instances += 1
        ok = False
        for a in cfg.nodes:
            if a.kind != 'cond':
                continue
            text, pos = nz.literal(a.ast, a)
            if text == f"{key} in self.tag_map":
                lb_dup = 'T' if pos else 'F'
                lb_new = 'F' if pos else 'T'
                raises = any(m.kind == 'raise' for m in a.edge(lb_dup)) or any(
                    cfg.edge_dominates(a, lb_dup, x) for x in cfg.nodes if x.kind == 'raise' and cfg.raised_class(x.ast) == 'builtins.TypeError')
                if a.edge(lb_new) and cfg.edge_dominates(a, lb_new, n) and raises:
                    ok = True
        r.sample({'store': f"self.tag_map[{key}]", 'guarded_by_uniqueness_test': ok})
        if ok:
            r.ok()
        else:
            r.fail(f.qualname, f"self.tag_map[{key}] = ...", f.loc(n.ast), "a tag value shared by two variants silently overwrites the earlier variant instead of raising TypeError")
    return r


def rule_c12_r5(model: Model) -> RuleResult:
    r = RuleResult('C12-R5', 'Tagged refuses a non-union and hands over the flattened members in declaration order', floor=1)
    f = model.func('pane.annotations.Tagged._converter')
    cfg = cfg_of(model, f)
    nz = Normalizer(model, f, cfg, param_map=_pm(f))
    r.analysed.add(f.qualname)
    r.instances += 1
    lits = {nz.literal(n.ast, n)[0] for n in cfg.nodes if n.kind == 'cond'}
    raises = [n for n in cfg.live_nodes() if n.kind == 'raise' and cfg.raised_class(n.ast) == 'builtins.TypeError']
    if any('typing.get_origin($inner_type)' in x and 'UNION_ORIGINS' in x or 'typing.Union' in x for x in lits) and raises:
        r.ok()
    else:
        r.fail(f.qualname, 'no union test', f.loc(), "Tagged no longer refuses a non-Union inner type with TypeError")
    calls = [(n, c) for n in cfg.live_nodes() for root in node_exprs(n) for c in walk_no_nested(root)
             if isinstance(c, ast.Call) and model.resolve(c.func, f.module, f) == TAGGED]
    r.instances += 1
    if len(calls) != 1:
        raise AnalysisError(f"{f.loc()}: Tagged._converter builds {len(calls)} TaggedUnionConverter objects")
    n, c = calls[0]
    form = nz.expr(c.args[0], n) if c.args else '?'
    r.sample({'members': form})
    if form in ('tuple(pane.util.flatten_union_args(typing.get_args($inner_type)))', 'pane.util.flatten_union_args(typing.get_args($inner_type))') \
            and not ORDER_BREAKERS.search(form.replace('tuple(', 'T(')):
        r.ok()
    else:
        r.fail(f.qualname, f"members {form[:100]}", f.loc(c), "the variants are not passed as the flattened union members in declaration order")
    kws = {k.arg: nz.expr(k.value, n) for k in c.keywords}
    r.instances += 1
    if kws.get('tag') == 'self.tag' and kws.get('external') == 'self.external' and kws.get('handlers') == '$handlers':
        r.ok()
    else:
        r.fail(f.qualname, f"keywords {kws}", f.loc(c), "tag / external / handlers are not forwarded to the tagged-union converter")
    return r


def rule_c12_r6(model: Model) -> RuleResult:
    """C12 / C05: a tagged union keeps its layout when it is itself a member of a union (Optional[...] of it)."""
    r = RuleResult('C12-R6', "the writer of an enclosing union can select a tagged-union member for the values that member serialises "
                             "(otherwise the tag layout is lost under Optional[...])", floor=1)
    uw = model.func(f'{UNION}.into_data')
    ucfg = cfg_of(model, uw)
    unz = Normalizer(model, uw, ucfg)
    ucls = model.cls(UNION)
    probes = [sc for sc in find_subcalls(model, ucls, uw, unz, ucfg, subconv_attrs(model, ucls)) if sc.method == 'try_convert' and sc.arg == 'VAL']
    r.analysed.add(uw.qualname)
    if not probes:
        r.instances += 1
        r.ok()
        r.note("the union writer does not select members by parsing the typed value; nothing to check")
        return r
    for cls in family(model):
        if cls.qualname == UNION or not model.is_subclass(cls.qualname, UNION):
            continue
        w = cls.methods.get('into_data')
        rd_ = cls.methods.get('try_convert')
        if w is None or rd_ is None:
            continue
        wcfg = cfg_of(model, w)
        wnz = Normalizer(model, w, wcfg)
        # the writer reads attributes of the value (an object, not interchange data) ...
        reads_attrs = False
        for n in wcfg.live_nodes():
            for root in node_exprs(n):
                for x in walk_no_nested(root):
                    if isinstance(x, ast.Call) and isinstance(x.func, ast.Name) and x.func.id == 'getattr' and x.args and wnz.expr(x.args[0], n) == 'VAL':
                        reads_attrs = True
        if not reads_attrs:
            continue
        r.instances += 1
        r.analysed.update([w.qualname, rd_.qualname])
        # ... while every accepting exit of its reader lies behind a mapping / sequence gate on the same value
        rcfg = cfg_of(model, rd_)
        rnz = Normalizer(model, rd_, rcfg)
        gates = []
        for a in rcfg.nodes:
            if a.kind == 'cond' and a.ast is not None:
                text, pos = rnz.literal(a.ast, a)
                if re.match(r'^pane\.converters\.data_is_(mapping|sequence)\(VAL\)$', text):
                    gates.append((a, 'T' if pos else 'F'))
        rets = [n for n in rcfg.live_nodes() if n.kind == 'return' and n.ast is not None and n.ast.value is not None]
        gated = bool(rets) and all(any(rcfg.edge_dominates(a, lb, n) for (a, lb) in gates) for n in rets)
        r.sample({'member class': cls.name, 'writer reads attributes of the value': reads_attrs, 'reader accepts interchange data only': gated,
                  'union writer selects by': f"{probes[0].recv}.try_convert(VAL)"})
        if gated:
            r.fail(cls.qualname, "writer of an enclosing union never selects a tagged member for a variant instance", uw.loc(probes[0].node.ast),
                   "UnionConverter.into_data picks the member whose try_convert accepts the typed value; the tagged union's try_convert accepts "
                   "mappings only, so for a dataclass variant it is never picked and the value is written by its runtime type: "
                   "into_data(A(), Optional[Annotated[Union[A, B], Tagged('kind', external=True)]]) gives {'kind': 'a', ...} (internal layout), "
                   "which from_data of the same type rejects")
        else:
            r.ok()
    if r.instances == 0:
        raise AnalysisError(f"{uw.loc()}: no union subclass with an attribute-reading writer found (TaggedUnionConverter vanished?)")
    return r


def rule_c12_r7(model: Model) -> RuleResult:
    """C12: the variant is chosen by a tag of the declared kind: equality alone would let True / 1.0 select the variant tagged 1."""
    r = RuleResult('C12-R7', "wherever a tag taken from the data is looked up in the tag table, its kind is compared with the declared tag's "
                             "(an equal tag of another kind is refused)", floor=1)
    cls = model.cls(TAGGED)
    n_sites = 0
    for f in cls.methods.values():
        if f.name in ('__init__', 'into_data') or not isinstance(f.node, ast.FunctionDef):
            continue
        cfg = cfg_of(model, f)
        nz = Normalizer(model, f, cfg, param_map=_pm(f))
        for n in cfg.live_nodes():
            for root in node_exprs(n):
                for x in walk_no_nested(root):
                    if isinstance(x, ast.Subscript) and isinstance(x.ctx, ast.Load) and nz.expr(x.value, n) == 'self.tag_map':
                        n_sites += 1
                        r.instances += 1
                        r.analysed.add(f.qualname)
                        key = nz.expr(x.slice, n)
                        # a test of the key's kind whose passing edge dominates every normal return
                        tests = []
                        for a in cfg.nodes:
                            if a.kind == 'cond' and a.ast is not None:
                                text, pos = nz.literal(a.ast, a)
                                if re.search(r'\btype\(' + re.escape(key) + r'\)', text) and ' is ' in text:
                                    tests.append((a, 'T' if pos else 'F'))
                        rets = [m for m in cfg.live_nodes() if m.kind == 'return' and m.ast is not None and m.ast.value is not None]
                        ok = bool(tests) and bool(rets) and all(any(cfg.edge_dominates(a, lb, m) for (a, lb) in tests) for m in rets)
                        r.sample({'function': f.qualname, 'lookup': f"self.tag_map[{key}]", 'kind test': ok})
                        if ok:
                            r.ok()
                        else:
                            r.fail(f.qualname, f"self.tag_map[{key}] without a test of the tag's kind", f.loc(x),
                                   "the tag table is keyed by == / hash: {'k': True} and {'k': 1.0} select the variant declared with tag 1 "
                                   "instead of being refused as ill-kinded tags")
    if n_sites == 0:
        raise AnalysisError(f"{cls.qualname}: no look-up of a data tag in self.tag_map found")
    return r
