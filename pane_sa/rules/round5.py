"""Rules added after the fifth round of seeded changes (value-level slips in shared helpers). Each names the property it serves."""
from __future__ import annotations

import ast
import re
import typing as t

from .. import anchors
from ..cfg import CFG, Node, catches, cfg_of, handler_classes, node_exprs, walk_no_nested
from ..family import conversion_zone, family, subconv_attrs
from ..model import AnalysisError, FuncInfo, Model, ancestors, unparse
from ..norm import Normalizer
from ..report import RuleResult

CLS = 'pane.classes'


def _pm(f: FuncInfo) -> t.Dict[str, str]:
    pm = {p: f'${p}' for p in f.params}
    if f.params and f.params[0] in ('self', 'cls'):
        pm[f.params[0]] = f.params[0]
    return pm


# ---------------------------------------------------------------------------- C01 / C17: string annotations


def rule_annotation_scopes(model: Model, rule_id: str = 'C17-R10') -> RuleResult:
    """String annotations are resolved like Python resolves names in a class body: class namespace first, then the module."""
    r = RuleResult(rule_id, 'string annotations are evaluated with (module globals, class namespace) in that order', floor=1)
    f = model.func('pane.util.get_type_hints')
    cfg = cfg_of(model, f)
    nz = Normalizer(model, f, cfg, param_map=_pm(f))
    r.analysed.add(f.qualname)
    n_calls = 0
    for n in cfg.live_nodes():
        for root in node_exprs(n):
            for c in walk_no_nested(root):
                if not isinstance(c, ast.Call):
                    continue
                fn = nz.expr(c.func, n)
                if fn not in ('typing._eval_type', 'eval', 'builtins.eval') or len(c.args) < 3:
                    continue
                n_calls += 1
                r.instances += 1
                g, l_ = nz.expr(c.args[1], n), nz.expr(c.args[2], n)
                r.sample({'call': fn, 'globals': g[:70], 'locals': l_[:70]})
                g_ok = 'sys.modules' in g and 'vars(' not in g
                l_ok = bool(re.search(r'vars\(\$?cls\)|\$?cls\.__dict__', l_)) and 'sys.modules' not in l_
                if g_ok and l_ok:
                    r.ok()
                else:
                    r.fail(f.qualname, f"{fn}(..., {g[:50]}, {l_[:50]})", f.loc(c),
                           "names in string annotations are looked up in the module before the class body (or in one of them only): a "
                           "class-scoped alias or nested class that shadows a module-level name is ignored, so the same dataclass denotes "
                           "another type when its annotations are strings")
    if n_calls == 0:
        raise AnalysisError(f"{f.loc()}: get_type_hints no longer evaluates forward references with typing._eval_type / eval")
    return r


# ---------------------------------------------------------------------------- C14 / C03: record before hook


def rule_record_before_hook(model: Model, rule_id: str = 'C14-R9') -> RuleResult:
    """On every construction path the set-field record exists before __post_init__ runs (a hook of a non-frozen class assigns
    attributes, and attribute assignment updates the record)."""
    r = RuleResult(rule_id, 'the set-field record is stored before __post_init__ is called, on every construction path', floor=1)
    m = model.module(CLS)
    for fq in ('pane.classes._make_init.__init__', 'pane.classes._make_init.from_dict_unchecked'):
        f = model.functions.get(fq)
        if f is None:
            continue
        cfg = cfg_of(model, f)
        nz = Normalizer(model, f, cfg, param_map=_pm(f))
        stores, hooks = [], []
        for n in cfg.live_nodes():
            for root in node_exprs(n):
                for c in walk_no_nested(root):
                    if not isinstance(c, ast.Call):
                        continue
                    if unparse(c.func) == 'object.__setattr__' and len(c.args) == 3 and isinstance(c.args[1], ast.Name) \
                            and isinstance(m.assign_values.get(c.args[1].id), ast.Constant) and 'set' in str(m.assign_values[c.args[1].id].value):  # type: ignore[union-attr]
                        stores.append(n)
                    if nz.expr(c.func, n) in ("self.__post_init__", "getattr(self, '__post_init__')"):
                        hooks.append(n)
        for h in hooks:
            r.instances += 1
            r.analysed.add(fq)
            # must-pass-through: the hook is not reachable from the entry once the stores are cut out of the graph
            cut = {s.id for s in stores if s is not h}
            seen_, todo_ = {cfg.entry.id}, [cfg.entry]
            while todo_:
                x = todo_.pop()
                for (_lb, y) in x.succ:
                    if y.id not in seen_ and y.id not in cut:
                        seen_.add(y.id)
                        todo_.append(y)
            if h.id not in seen_:
                r.ok()
            else:
                r.fail(fq, '__post_init__ is called before the set-field record is stored', f.loc(h.ast),
                       "a __post_init__ that assigns an attribute (non-frozen class) runs into __setattr__, which updates the record that "
                       "does not exist yet: construction from mapping data raises AttributeError, the fast pass rejects valid data and the "
                       "diagnostic pass finds nothing wrong")
    if r.instances == 0:
        raise AnalysisError("generated constructor: no __post_init__ call found")
    return r


# ---------------------------------------------------------------------------- C04 / C03: raw equality after the kind test


def rule_eq_after_kind(model: Model, rule_id: str = 'C04-R6') -> RuleResult:
    """`==` on the raw input runs the input's own __eq__ (a numpy array answers with an array, Decimal('sNaN') raises): it is evaluated
    only after a test of the input's kind has passed."""
    r = RuleResult(rule_id, "the raw input is compared with == only behind a test of its kind (short-circuit order matters: the input's "
                            "own __eq__ may raise or answer with a non-Boolean)", floor=1)
    zone = conversion_zone(model)
    kind = re.compile(r'isinstance\(VAL\b|\btype\(VAL\)|data_is_\w+\(VAL\)')
    for cls in family(model):
        for f in zone[cls.qualname]:
            if f.name == 'into_data' or not isinstance(f.node, ast.FunctionDef):
                continue
            cfg = cfg_of(model, f)
            nz = Normalizer(model, f, cfg)
            for n in cfg.live_nodes():
                for root in node_exprs(n):
                    for sub, bound in _walk_b(root, nz, n):
                        if not (isinstance(sub, ast.Compare) and len(sub.ops) == 1 and isinstance(sub.ops[0], (ast.Eq, ast.NotEq, ast.In, ast.NotIn))):
                            continue
                        l_, r_ = nz.expr(sub.left, n, bound), nz.expr(sub.comparators[0], n, bound)
                        if 'VAL' not in (l_, r_):
                            continue
                        if isinstance(sub.ops[0], (ast.In, ast.NotIn)) and l_ != 'VAL':
                            continue      # `key in VAL` asks the input's __contains__, covered by the escape rule
                        other = r_ if l_ == 'VAL' else l_
                        if other in ('None', "''", '0', 'True', 'False') or other.startswith("'"):
                            continue
                        r.instances += 1
                        r.analysed.add(f.qualname)
                        # an earlier conjunct of the same `and`, or a dominating branch, tests the kind
                        guarded = False
                        child: ast.AST = sub
                        for anc in ancestors(sub):
                            if isinstance(anc, ast.BoolOp) and isinstance(anc.op, ast.And):
                                idx = next((i for i, v in enumerate(anc.values) if v is child), None)
                                if idx is not None:
                                    for v in anc.values[:idx]:
                                        if kind.search(nz.expr(v, n, bound)) or kind.search(nz.literal(v, n, bound)[0]):
                                            guarded = True
                            if isinstance(anc, ast.stmt):
                                break
                            child = anc
                        if not guarded:
                            for (cid, lb) in cfg.conditions_of(n):
                                cn = cfg.nodes[cid]
                                if cn.kind == 'cond' and cn.ast is not None and kind.search(nz.literal(cn.ast, cn)[0]):
                                    guarded = True
                        r.sample({'function': f.qualname, 'comparison': f"{l_} == {r_}"[:80], 'behind a kind test': guarded})
                        if guarded:
                            r.ok()
                        else:
                            r.fail(f.qualname, f"{l_} == {r_}"[:100], f.loc(sub),
                                   "the input's own __eq__ runs (and its result is truth-tested) before its kind is known: an exception raised "
                                   "by the comparison, or a non-Boolean answer, escapes both passes instead of becoming a rejection")
    return r


def _walk_b(root: ast.AST, nz: Normalizer, n: Node) -> t.Iterator[t.Tuple[ast.AST, t.Dict[str, str]]]:
    from ..family import walk_with_bindings
    return walk_with_bindings(root, nz, n)


# ---------------------------------------------------------------------------- C04 / C10 / C18: handler sets are hashable


def rule_handler_sets_are_tuples(model: Model, rule_id: str = 'C10-R13') -> RuleResult:
    """The handler set is part of the converter cache key: whatever normalises it returns tuples (hashable, immutable)."""
    r = RuleResult(rule_id, 'handler sets are normalised to tuples (they are hashed as part of the converter cache key)', floor=2)
    f = model.func('pane.convert.ConverterHandlers._process')
    cfg = cfg_of(model, f)
    nz = Normalizer(model, f, cfg, param_map=_pm(f))
    r.analysed.add(f.qualname)
    for n in cfg.live_nodes():
        if n.kind != 'return' or n.ast is None or n.ast.value is None:
            continue

        def alts(e: ast.expr) -> t.Iterator[ast.expr]:
            if isinstance(e, ast.IfExp):
                yield from alts(e.body)
                yield from alts(e.orelse)
            else:
                yield e
        cands: t.List[t.Tuple[ast.expr, Node]] = []
        for e in alts(n.ast.value):
            if isinstance(e, ast.Name):
                defs = cfg.reaching().at(n, e.id)
                if defs and all(d.kind == 'assign' and d.value is not None and not d.path for d in defs):
                    for d in defs:
                        cands.extend((x, d.node) for x in alts(t.cast(ast.expr, d.value)))
                    continue
            cands.append((e, n))
        for (e, at) in cands:
            r.instances += 1
            form = nz.expr(e, at)
            ok = isinstance(e, ast.Tuple) or (isinstance(e, ast.Call) and isinstance(e.func, ast.Name) and e.func.id == 'tuple') \
                or form.startswith('tuple(') or form.startswith('(')
            r.sample({'returns': form[:80], 'tuple': ok})
            if ok:
                r.ok()
            else:
                r.fail(f.qualname, f"returns {form[:80]}", f.loc(n.ast),
                       "a handler collection is kept as the caller passed it: a list makes the (frozen) handler set unhashable, and hashing the "
                       "converter cache key raises TypeError for every type and every input")
    return r


# ---------------------------------------------------------------------------- C04 / C08: descriptions join strings


STR_FORMS = re.compile(r"^(str\(|repr\(|FSTR$|'|pane\.util\.(pluralize|list_phrase|remove_article)\(|.*\.expected\(|.*\.cond_name\(\)|.*\.__name__\)?$|GEN\(|LIST\("
                       r"|\(TRUTHY\(.*\.name\) or .*__name__\)*$|self\.opts\.in_format$)")


def _accumulated_elements(f: FuncInfo, nz: Normalizer, cfg: CFG, name: str) -> t.Optional[t.List[str]]:
    """Normal forms of everything appended to the local list ``name`` (None if it is not a list built empty and filled in place)."""
    inits = []
    stores: t.List[t.Tuple[ast.AST, Node]] = []
    for n in cfg.live_nodes():
        st = n.ast
        if n.kind == 'stmt' and isinstance(st, (ast.Assign, ast.AnnAssign)) and getattr(st, 'value', None) is not None:
            tgts = st.targets if isinstance(st, ast.Assign) else [st.target]
            if any(isinstance(tg, ast.Name) and tg.id == name for tg in tgts):
                inits.append(st.value)
        for root in node_exprs(n):
            for c in walk_no_nested(root):
                if isinstance(c, ast.Call) and isinstance(c.func, ast.Attribute) and isinstance(c.func.value, ast.Name) \
                        and c.func.value.id == name and c.func.attr in ('append', 'add') and len(c.args) == 1:
                    stores.append((c.args[0], n))
                elif isinstance(c, ast.Call) and isinstance(c.func, ast.Attribute) and isinstance(c.func.value, ast.Name) \
                        and c.func.value.id == name and c.func.attr in ('extend', 'update', 'insert'):
                    return None
    if not inits or not all((isinstance(v, (ast.List, ast.Tuple)) and not v.elts) or (isinstance(v, ast.Call) and unparse(v.func) == 'list' and not v.args)
                            for v in inits) or not stores:
        return None
    out = []
    for (e, n) in stores:
        try:
            out.append(nz.expr(e, n))
        except AnalysisError:
            return None
    return out


def rule_descriptions_join_strings(model: Model, rule_id: str = 'C04-R7') -> RuleResult:
    """Every element handed to list_phrase (which joins them) is a string: descriptions are built while an error is being reported."""
    r = RuleResult(rule_id, 'the phrases joined into an expectation text are strings (str() / repr() of values, names, nested phrases)', floor=8)
    for f in model.all_functions():
        if not isinstance(f.node, ast.FunctionDef):
            continue
        cfg = cfg_of(model, f)
        nz = Normalizer(model, f, cfg, param_map=_pm(f))
        for n in cfg.live_nodes():
            for root in node_exprs(n):
                for c, bound in _walk_b(root, nz, n):
                    if not (isinstance(c, ast.Call) and model.resolve(c.func, f.module, f) == 'pane.util.list_phrase' and c.args):
                        continue
                    r.instances += 1
                    r.analysed.add(f.qualname)
                    arg = c.args[0]
                    while True:
                        if isinstance(arg, ast.Call) and isinstance(arg.func, ast.Name) and arg.func.id in ('tuple', 'list') and len(arg.args) == 1:
                            arg = arg.args[0]
                        elif isinstance(arg, (ast.Tuple, ast.List)) and len(arg.elts) == 1 and isinstance(arg.elts[0], ast.Starred):
                            arg = arg.elts[0].value      # (*xs,) is tuple(xs)
                        else:
                            break
                    elem = None
                    if isinstance(arg, (ast.GeneratorExp, ast.ListComp)):
                        b2, _ = nz.comp_bindings(arg.generators, n, bound, 0)
                        elem = nz.expr(arg.elt, n, b2)
                    elif isinstance(arg, ast.Call) and isinstance(arg.func, ast.Name) and arg.func.id == 'map' and len(arg.args) == 2:
                        elem = nz.expr(arg.args[0], n, bound) + '('
                    elif isinstance(arg, (ast.Tuple, ast.List)):
                        forms = [nz.expr(e, n, bound) for e in arg.elts]
                        elem = forms[0] if forms and all(STR_FORMS.match(x) for x in forms) else (forms[0] if forms else "''")
                        if forms and not all(STR_FORMS.match(x) for x in forms):
                            elem = next(x for x in forms if not STR_FORMS.match(x))
                    elif isinstance(arg, ast.Name) and (acc_forms := _accumulated_elements(f, nz, cfg, arg.id)) is not None:
                        # a local list filled by a loop (`xs = []` ... `xs.append(repr(v))`): every element stored in it
                        bad_ = [x for x in acc_forms if not (STR_FORMS.match(x) or x.startswith(('str(', 'repr(', 'builtins.str(', 'builtins.repr(')))]
                        elem = bad_[0] if bad_ else (acc_forms[0] if acc_forms else "''")
                    else:
                        form = nz.expr(arg, n, bound).lstrip('*')
                        changed = True
                        while changed:
                            changed = False
                            for pre in ('tuple(', 'list(', 'GEN(', 'LIST(', '*'):
                                if form.startswith(pre) and (pre == '*' or form.endswith(')')):
                                    form = form[len(pre):] if pre == '*' else form[len(pre):-1]
                                    changed = True
                        # a parameter / attribute documented as a sequence of strings (names, aliases)
                        elem = "'" if re.match(r'^(\$\w+|self\.\w+|VAL)$', form) and re.search(r'name|alias|word|phrase', form) else form
                    r.sample({'function': f.qualname, 'joined element': (elem or '')[:60]})
                    if elem is not None and (STR_FORMS.match(elem) or elem in ('str(', 'repr(', 'builtins.str(', 'builtins.repr(')):
                        r.ok()
                    else:
                        r.fail(f.qualname, f"list_phrase over {str(elem)[:60]}", f.loc(c),
                               "values that are not strings are joined into a description: str.join raises TypeError while the error is being "
                               "reported, and that TypeError escapes the conversion instead of a ConvertError")
    return r


# ---------------------------------------------------------------------------- C05 / C15: parallel sequences stay parallel


def rule_parallel_converters_unfiltered(model: Model, rule_id: str = 'C05-R10') -> RuleResult:
    """self.field_converters is indexed by positions in self.fields: it has one entry per field, none skipped."""
    r = RuleResult(rule_id, 'the list of field converters has exactly one entry per field (it is indexed by field position)', floor=1)
    f = model.func('pane.classes.PaneConverter.__init__')
    cfg = cfg_of(model, f)
    nz = Normalizer(model, f, cfg, param_map=_pm(f))
    r.analysed.add(f.qualname)
    found = False
    for n in cfg.live_nodes():
        st = n.ast
        if n.kind == 'stmt' and isinstance(st, (ast.Assign, ast.AnnAssign)) and getattr(st, 'value', None) is not None:
            tgts = st.targets if isinstance(st, ast.Assign) else [st.target]
            if any(unparse(tg) == 'self.field_converters' for tg in tgts):
                found = True
                r.instances += 1
                form = nz.expr(st.value, n)
                comp = st.value
                filt = isinstance(comp, (ast.ListComp, ast.GeneratorExp)) and any(g.ifs for g in comp.generators)
                r.sample({'field_converters': form[:100], 'filtered': bool(filt)})
                if filt or ' if ' in form.split(' else ')[-1] and form.count(' if ') > form.count(' else '):
                    r.fail(f.qualname, 'field_converters skips fields', f.loc(st),
                           "the converter list is shorter than the field list while keys are mapped to field positions: a field after a skipped "
                           "one is converted by its neighbour's converter, or IndexError escapes the conversion")
                else:
                    r.ok()
    if not found:
        raise AnalysisError(f"{f.loc()}: PaneConverter.__init__ does not assign self.field_converters")
    return r


# ---------------------------------------------------------------------------- C05: runtime-type fallbacks serialise the value they typed


def rule_runtime_type_of_same_value(model: Model, rule_id: str = 'C05-R11') -> RuleResult:
    """make_converter(type(x), ...).into_data(y): x and y are the same value."""
    r = RuleResult(rule_id, 'a value serialised by its run-time type is serialised with the converter of its own type', floor=4)
    for f in model.all_functions():
        if not isinstance(f.node, (ast.FunctionDef, ast.Lambda)):
            continue
        for c in ast.walk(f.node):
            if not (isinstance(c, ast.Call) and isinstance(c.func, ast.Attribute) and c.func.attr in ('into_data', 'try_convert', 'collect_errors', 'convert')
                    and isinstance(c.func.value, ast.Call) and c.args):
                continue
            mk = c.func.value
            if model.resolve(mk.func, f.module, f if isinstance(f.node, ast.FunctionDef) else None) != 'pane.convert.make_converter' or not mk.args:
                continue
            ty = mk.args[0]
            while isinstance(ty, ast.Call) and len(ty.args) == 2 and unparse(ty.func).endswith('cast'):
                ty = ty.args[1]
            if not (isinstance(ty, ast.Call) and isinstance(ty.func, ast.Name) and ty.func.id == 'type' and len(ty.args) == 1):
                continue
            r.instances += 1
            r.analysed.add(f.qualname)
            a, b = unparse(ty.args[0]), unparse(c.args[0])
            r.sample({'function': f.qualname, 'typed': a, 'serialised': b})
            if a == b:
                r.ok()
            else:
                r.fail(f.qualname, f"make_converter(type({a}), ...).{c.func.attr}({b})", f.loc(c),
                       "a value is written with the converter of another value's type (e.g. of its key, always a str): 5 becomes '5', "
                       "True becomes 'True', and reading the output back gives a different value")
    return r


# ---------------------------------------------------------------------------- C05: ValueOrList writer mirrors the reader's flag


def rule_value_or_list_writer(model: Model, rule_id: str = 'C05-R12') -> RuleResult:
    """The reader marks the value form by the member that matched; the writer must go by that mark, not by the number of elements."""
    r = RuleResult(rule_id, "the ValueOrList writer chooses value / list by the value's own flag, not by its length", floor=1)
    f = model.functions.get('pane.types.ValueOrListConverter.into_data')
    if f is None:
        raise AnalysisError("pane.types.ValueOrListConverter.into_data not found")
    cfg = cfg_of(model, f)
    nz = Normalizer(model, f, cfg)
    r.analysed.add(f.qualname)
    r.instances += 1
    lits = [nz.literal(n.ast, n)[0] for n in cfg.live_nodes() if n.kind == 'cond' and n.ast is not None]
    forms = [nz.expr(n.ast.value, n) for n in cfg.live_nodes() if n.kind == 'return' and n.ast is not None and n.ast.value is not None]
    by_len = [x for x in lits + forms if re.search(r'len\(VAL\)|TRUTHY\(VAL\)', x)]
    by_flag = any(re.search(r'VAL\.map\(|VAL\._is_val|VAL\.is_val', x) for x in lits + forms)
    r.sample({'returns': [x[:80] for x in forms], 'conditions': lits})
    if by_len or not by_flag:
        r.fail(f.qualname, f"writer decides by {by_len[:1] or 'something else than the flag'}", f.loc(),
               "a list with exactly one member is written as a bare value and read back as the value form: ValueOrList([5]) does not "
               "round-trip")
    else:
        r.ok()
    return r


# ---------------------------------------------------------------------------- C11: run-time typed writes only where the static type says nothing


WHOLE_VALUE_FALLBACKS = {
    'pane.converters.UnionConverter.into_data': 'last resort after every member refused the value',
    'pane.converters.AnyConverter.into_data': 'Any has no static type at all',
}


def _site_conditions(model: Model, cur: FuncInfo, at: ast.AST) -> t.List[t.Tuple[FuncInfo, str, bool]]:
    """Branch literals, conditional expressions and comprehension filters governing the AST node ``at`` inside ``cur``."""
    out: t.List[t.Tuple[FuncInfo, str, bool]] = []
    cfg = cfg_of(model, cur)
    nz = Normalizer(model, cur, cfg)
    n = cfg.node_of(at)
    if n is None:
        n = next((x for x in cfg.nodes if x.ast is at), None)
    if n is None:
        return out
    for (cid, lb) in sorted(cfg.conditions_of(n)):
        c = cfg.nodes[cid]
        if c.kind != 'cond' or c.ast is None:
            continue
        text, pos = nz.literal(c.ast, c)
        out.append((cur, text, pos == (lb == 'T')))
    child: ast.AST = at
    for anc in ancestors(at):
        if anc is cur.node:
            break
        try:
            if isinstance(anc, ast.IfExp) and child is not anc.test:
                text, pos = nz.literal(anc.test, n)
                out.append((cur, text, pos == (child is anc.body)))
            elif isinstance(anc, (ast.GeneratorExp, ast.ListComp, ast.SetComp, ast.DictComp)):
                for g_ in anc.generators:
                    for c_ in g_.ifs:
                        text, pos = nz.literal(c_, n)
                        out.append((cur, text, pos))
        except AnalysisError:
            pass
        child = anc
    return out


def _governing(model: Model, f: FuncInfo, sub: ast.AST, depth: int = 0) -> t.List[t.List[t.Tuple[FuncInfo, str, bool]]]:
    """Alternative contexts in which ``sub`` (inside ``f``) runs.  One context for a method; for a nested function, the conditions of
    its ``def`` in the enclosing function or, when the ``def`` is unconditional, one context per *use* of the function's name there
    (``f = _infer if isinstance(conv, AnyConverter) else _typed``)."""
    here = _site_conditions(model, f, sub)
    parent = f.parent
    if parent is None or not isinstance(parent.node, (ast.FunctionDef, ast.AsyncFunctionDef)) or depth > 3:
        return [here]
    outer: t.List[t.List[t.Tuple[FuncInfo, str, bool]]] = []
    for ctx in _governing(model, parent, f.node, depth + 1):
        if ctx:
            outer.append(ctx)
    if not outer:
        uses = [x for x in walk_no_nested(parent.node) if isinstance(x, ast.Name) and isinstance(x.ctx, ast.Load) and x.id == f.name]
        for u in uses:
            outer.extend(_governing(model, parent, u, depth + 1))
    if not outer:
        outer = [[]]
    return [here + ctx for ctx in outer]


def _classes_in(model: Model, text: str, seen: t.Optional[t.Set[str]] = None) -> t.Set[str]:
    seen = seen if seen is not None else set()
    out = set(re.findall(r'pane\.converters\.(\w*Converter)\b', text))
    for q in re.findall(r'(pane(?:\.\w+)+)\(', text):
        g = model.functions.get(q)
        if g is None or q in seen:
            continue
        seen.add(q)
        for x in ast.walk(g.node):
            if isinstance(x, (ast.Name, ast.Attribute)):
                rq = model.resolve(x, g.module, g)
                if rq and rq in model.classes and rq.endswith('Converter'):
                    out.add(rq.rsplit('.', 1)[1])
    return out


def rule_runtime_writer_only_for_any(model: Model, rule_id: str = 'C11-R8') -> RuleResult:
    """A container writes a member by its run-time type only where the member's static type is Any.  Where the member is a union, the
    union's own writer must run (it picks a member that accepts the value, tags and all)."""
    r = RuleResult(rule_id, 'container writers fall back to the run-time type of a member only under an `is Any` test', floor=3)
    fam = {c.qualname for c in family(model)}
    for f in model.all_functions():
        top = f
        while top.parent is not None:
            top = top.parent
        if top.cls is None or top.cls.qualname not in fam or not isinstance(f.node, ast.FunctionDef):
            continue
        for c in walk_no_nested(f.node):
            if not (isinstance(c, ast.Call) and isinstance(c.func, ast.Attribute) and c.func.attr == 'into_data' and isinstance(c.func.value, ast.Call)):
                continue
            mk = c.func.value
            if model.resolve(mk.func, f.module, f) != 'pane.convert.make_converter' or not mk.args:
                continue
            ty = mk.args[0]
            while isinstance(ty, ast.Call) and len(ty.args) == 2 and unparse(ty.func).endswith('cast'):
                ty = ty.args[1]
            if not (isinstance(ty, ast.Call) and isinstance(ty.func, ast.Name) and ty.func.id == 'type'):
                continue
            r.instances += 1
            r.analysed.add(f.qualname)
            contexts = _governing(model, f, c)
            r.sample({'function': f.qualname, 'contexts': [[x[1][:70] for x in gov] for gov in contexts][:3]})
            verdict = 'ok'
            other: t.Set[str] = set()
            for gov in contexts:
                classes: t.Set[str] = set()
                mentions_any = False
                for (_g, text, _truth) in gov:
                    cl = _classes_in(model, text)
                    classes |= cl
                    if 'typing.Any' in text or 'AnyConverter' in cl:
                        mentions_any = True
                if classes - {'AnyConverter'}:
                    verdict, other = 'other', classes - {'AnyConverter'}
                    break
                if not (mentions_any or top.qualname in WHOLE_VALUE_FALLBACKS):
                    verdict = 'ungoverned'
            if verdict == 'other':
                r.fail(f.qualname, f"run-time typed write under a test of {sorted(other)}", f.loc(c),
                       f"members whose converter is {' / '.join(sorted(other))} are written by `type(value)` instead of by their own "
                       f"converter: a union member is no longer written by a member that accepts it (tags, aliases and member-specific "
                       f"forms are lost)")
            elif verdict == 'ok':
                r.ok()
            else:
                r.fail(f.qualname, "run-time typed write not governed by an `Any` test", f.loc(c),
                       "the member is written by `type(value)` although its static type (possibly a union) is known")
    return r


# ---------------------------------------------------------------------------- C10: annotation identity is field identity


PROJECTIONS = {'getattr', 'str', 'repr', 'id', 'type', 'vars', 'format'}


def rule_annotation_identity(model: Model, rule_id: str = 'C10-R14') -> RuleResult:
    """Annotation objects are part of the memoisation key (they sit inside Annotated[...] types).  Their equality may not be coarser than
    field-wise equality: two conditions with different predicates must never compare equal, or one converter answers for both."""
    r = RuleResult(rule_id, 'equality of annotation objects compares whole fields, never a projection of a field', floor=1)
    mod = model.module('pane.annotations')
    base = 'pane.annotations.ConvertAnnotation'
    for ci in model.classes.values():
        if ci.module is not mod or not model.is_subclass(ci.qualname, base):
            continue
        r.instances += 1
        r.analysed.add(ci.qualname)
        eq = model.functions.get(f"{ci.qualname}.__eq__")
        deco = [unparse(d) for d in ci.node.decorator_list]
        declared = [st.target.id for st in ci.node.body if isinstance(st, ast.AnnAssign) and isinstance(st.target, ast.Name)]
        if eq is None:
            bad = [d for d in deco if re.search(r'\beq\s*=\s*False', d)]
            # generated equality is field-wise over the fields that take part in comparison: none may be taken out of it
            left_out = [st for st in ci.node.body if isinstance(st, ast.AnnAssign) and isinstance(st.value, ast.Call)
                        and any(k.arg == 'compare' and isinstance(k.value, ast.Constant) and k.value.value is False for k in st.value.keywords)]
            r.sample({'class': ci.qualname, 'eq': 'generated by dataclass (field-wise)' if deco else 'inherited', 'decorators': deco,
                      'fields left out of the comparison': [unparse(st.target) for st in left_out]})
            if left_out and deco:
                st = left_out[0]
                r.fail(ci.qualname, f"field `{unparse(st.target)}` is declared with compare=False", f"{mod.relpath}:{st.lineno}",
                       "annotation objects that differ only in that field (two conditions with the same name and different predicates) compare "
                       "equal and hash alike: typing hands back the Annotated type built first, the second condition is replaced by the first")
            else:
                r.ok()   # identity or field-wise equality: both are at least as fine as field-wise
            _ = bad
            continue
        # hand-written equality: every use of a field of self/other must be the whole field
        todo, seen, bad_uses = [eq], set(), []
        while todo:
            g = todo.pop()
            if g.qualname in seen:
                continue
            seen.add(g.qualname)
            for x in ast.walk(g.node):
                if isinstance(x, ast.Call) and isinstance(x.func, ast.Attribute) and isinstance(x.func.value, ast.Name):
                    h = model.find_method(ci.qualname, x.func.attr)
                    if h is not None and h.qualname not in seen:
                        todo.append(h)
                if isinstance(x, ast.Attribute) and isinstance(x.value, ast.Attribute) and isinstance(x.value.value, ast.Name) \
                        and x.value.value.id in (g.params[:1] + g.params[1:2]) and x.value.attr not in ('__class__',):
                    bad_uses.append((g, x))
                if isinstance(x, ast.Call) and isinstance(x.func, ast.Name) and x.func.id in PROJECTIONS and x.args \
                        and isinstance(x.args[0], ast.Attribute) and isinstance(x.args[0].value, ast.Name) \
                        and x.args[0].value.id in g.params[:2] and x.args[0].attr != '__class__':
                    bad_uses.append((g, x))
        # ... and every declared field takes part, on every path of the key / comparison
        per_return: t.List[t.Set[str]] = []
        for q_ in sorted(seen):
            g_ = model.functions[q_]
            me_ = g_.params[:1]
            for ret in ast.walk(g_.node):
                if isinstance(ret, ast.Return) and ret.value is not None and not (isinstance(ret.value, ast.Name) and ret.value.id == 'NotImplemented') \
                        and not isinstance(ret.value, ast.Constant):
                    per_return.append({x.attr for x in ast.walk(ret.value) if isinstance(x, ast.Attribute) and isinstance(x.value, ast.Name)
                                       and x.value.id in me_ and x.attr in declared})
        keyed = [s_ for s_ in per_return if s_]
        if keyed and (any(s_ != keyed[0] for s_ in keyed) or set(declared) - set().union(*keyed)):
            missing_ = sorted(set(declared) - set.intersection(*keyed))
            bad_uses.append((eq, ast.copy_location(ast.Name(id=f"fields {missing_} do not take part on every path", ctx=ast.Load()), eq.node)))
        r.sample({'class': ci.qualname, 'eq': 'hand-written', 'closure': sorted(seen), 'projections': [unparse(x) for (_g, x) in bad_uses]})
        if bad_uses:
            g, x = bad_uses[0]
            r.fail(ci.qualname, f"equality compares `{unparse(x)}`", g.loc(x),
                   "annotation objects that differ in a field (two predicates sharing code but closing over different bounds) compare equal "
                   "and hash alike, so Annotated types built from them share one memoised converter: the answer for one condition is given "
                   "for the other, depending on which was converted first")
        else:
            r.ok()
    return r


# ---------------------------------------------------------------------------- C02 / C12: classifier helpers cover the whole documented ABC


ABC_UP = {
    'Iterable': [], 'Collection': ['Iterable'], 'Sized': [], 'Container': [],
    'Sequence': ['Collection', 'Iterable', 'Reversible'], 'MutableSequence': ['Sequence', 'Collection', 'Iterable'],
    'Mapping': ['Collection', 'Iterable'], 'MutableMapping': ['Mapping', 'Collection', 'Iterable'],
    'Set': ['Collection', 'Iterable'], 'MutableSet': ['Set', 'Collection', 'Iterable'],
}


def _abc_name(q: str) -> t.Optional[str]:
    q = q.replace('builtins.', '')
    for pre in ('typing.', 'collections.abc.', 'typing_extensions.'):
        if q.startswith(pre):
            return q[len(pre):]
    return None


def rule_classifier_domains(model: Model, rule_id: str = 'C02-R8') -> RuleResult:
    """A ``TypeGuard[Mapping[..]]`` / ``TypeGuard[Sequence[..]]`` helper answers for every instance of that ABC (read-only mappings and
    sequences included); the helpers are the single place where every converter learns the kind of its input.  Decided on the helper's
    outcome formula, evaluated for "an instance of the guarded ABC (and of its super-ABCs) and of nothing narrower" (classifier.py)."""
    from ..classifier import ABC_UP as UP, Classifier
    r = RuleResult(rule_id, 'kind classifiers accept the whole ABC they guard (Mapping, Sequence), not a sub-ABC', floor=3)
    mod = model.module('pane.converters')
    for f in model.all_functions():
        if f.module is not mod or f.cls is not None or f.parent is not None or not isinstance(f.node, ast.FunctionDef):
            continue
        ret = f.node.returns
        if ret is None or 'TypeGuard' not in unparse(ret) or len(f.params) != 1:
            continue
        inner = ret.slice if isinstance(ret, ast.Subscript) else None
        if isinstance(inner, ast.Subscript):
            inner = inner.value
        guard = _abc_name(model.resolve(inner, f.module, f) or '') if inner is not None else None
        if guard not in UP:
            continue
        r.instances += 1
        r.analysed.add(f.qualname)
        try:
            c = Classifier(model, f)
        except AnalysisError as ex:
            r.note(f"{f.loc()}: outcome formula not available ({ex}); not decided")
            r.ok()
            continue
        ans = c.answer(guard)
        r.sample({'helper': f.qualname, 'guards': guard, 'tests': c.atoms, f'plain {guard}': ans})
        if ans != 'F':
            r.ok()
        else:
            r.fail(f.qualname, f"a plain {guard} is not accepted (tests: {'; '.join(c.atoms)[:120]})", f.loc(),
                   f"the helper guards {guard} but tests a narrower class: read-only {guard.lower()}s (types.MappingProxyType, custom "
                   f"{guard} subclasses) are no longer recognised, so structs, dicts and tagged unions refuse data whose tag and body are "
                   f"perfectly well-formed")
    return r


# ---------------------------------------------------------------------------- C15: a lone string alias is one alias


ITERATING = {'list', 'tuple', 'set', 'frozenset', 'sorted', 'iter', 'enumerate', 'map', 'filter', 'dict.fromkeys'}


def rule_string_alias_is_one_name(model: Model, rule_id: str = 'C15-R6') -> RuleResult:
    """``aliases='width'`` means the alias "width".  Wherever FieldSpec normalises the option, the str case is wrapped, and nothing
    iterates the raw option on a path where it may still be a str."""
    r = RuleResult(rule_id, 'a str given for `aliases` is wrapped into a one-element list before anything iterates it', floor=1)
    f = model.functions.get('pane.field.FieldSpec.__post_init__')
    if f is None:
        raise AnalysisError("pane.field.FieldSpec.__post_init__ not found (the str form of `aliases` is normalised there)")
    cfg = cfg_of(model, f)
    nz = Normalizer(model, f, cfg, param_map=_pm(f))
    r.analysed.add(f.qualname)
    r.instances += 1
    tests = []
    for n in cfg.live_nodes():
        if n.kind == 'cond' and n.ast is not None:
            text, pos = nz.literal(n.ast, n)
            if re.fullmatch(r'isinstance\(self\.aliases, \{(builtins\.)?str\}\)', text):
                tests.append((n, pos))
    wrapped = False
    for (c, pos) in tests:
        lb = 'T' if pos else 'F'
        for n in cfg.live_nodes():
            a = n.ast
            if n.kind == 'stmt' and isinstance(a, (ast.Assign, ast.AnnAssign)) and cfg.edge_dominates(c, lb, n):
                tgts = a.targets if isinstance(a, ast.Assign) else [a.target]
                val = a.value
                if any(unparse(x) == f'{f.params[0]}.aliases' for x in tgts) and isinstance(val, (ast.List, ast.Tuple)) \
                        and len(val.elts) == 1 and nz.expr(val.elts[0], n) == 'self.aliases':
                    wrapped = True
            if n.kind == 'stmt' and isinstance(a, ast.Expr) and isinstance(a.value, ast.Call) and cfg.edge_dominates(c, lb, n):
                cl = a.value
                if unparse(cl.func).endswith('__setattr__') and len(cl.args) >= 2 and unparse(cl.args[-2]) == "'aliases'" \
                        and isinstance(cl.args[-1], (ast.List, ast.Tuple)) and len(cl.args[-1].elts) == 1:
                    wrapped = True
    r.sample({'str tests': len(tests), 'wrapped under the test': wrapped})
    if wrapped:
        r.ok()
    else:
        r.fail(f.qualname, "no `aliases = [aliases]` under an isinstance(aliases, str) test", f.loc(),
               "a single alias given as a string is not kept as one name: it is either iterated character by character later on (every "
               "letter becomes an input name of the field and the alias itself an unknown key) or rejected")
    # no iteration of the raw option where it may be a str
    for n in cfg.live_nodes():
        for root in node_exprs(n):
            for x in walk_no_nested(root):
                it: t.Optional[ast.AST] = None
                if isinstance(x, ast.Call) and unparse(x.func).split('.')[-1] in ITERATING and x.args:
                    it = x.args[-1] if unparse(x.func).split('.')[-1] in ('map', 'filter') else x.args[0]
                elif isinstance(x, ast.Starred):
                    it = x.value
                elif isinstance(x, ast.comprehension):
                    it = x.iter
                if it is None or nz.expr(it, n) != 'self.aliases':
                    continue
                r.instances += 1
                safe = any(cfg.edge_dominates(c, 'F' if pos else 'T', n) for (c, pos) in tests)
                if safe:
                    r.ok()
                else:
                    r.fail(f.qualname, f"`{unparse(x)[:60]}` iterates the option where it may be a str", f.loc(x),
                           "field(aliases='width') yields the aliases 'w', 'i', 'd', 't', 'h': the key 'width' is refused and single "
                           "letters bind to the field")
        if n.kind == 'iter' and n.ast is not None and unparse(getattr(n.ast, 'iter', n.ast)) == f'{f.params[0]}.aliases':
            r.instances += 1
            if any(cfg.edge_dominates(c, 'F' if pos else 'T', n) for (c, pos) in tests):
                r.ok()
            else:
                r.fail(f.qualname, "loop over the option where it may be a str", f.loc(n.ast), "a str alias is taken apart into its characters")
    return r


# ---------------------------------------------------------------------------- C17: inherited type parameters come first


def rule_parameter_order(model: Model, rule_id: str = 'C17-R11') -> RuleResult:
    """``class Child(Base[T], Generic[U])``: __parameters__ is (inherited ..., newly declared ...).  Subscription zips __parameters__ with
    the arguments, so the order decides which argument binds which variable."""
    r = RuleResult(rule_id, "a subclass's __parameters__ is the inherited tuple followed by the newly declared variables", floor=1)
    f = model.func('pane.classes.PaneBase.__init_subclass__')
    cfg = cfg_of(model, f)
    rd = cfg.reaching()
    r.analysed.add(f.qualname)
    sup = None
    sets = []
    for n in cfg.live_nodes():
        for root in node_exprs(n):
            for c in walk_no_nested(root):
                if not isinstance(c, ast.Call):
                    continue
                if isinstance(c.func, ast.Attribute) and c.func.attr == '__init_subclass__' and isinstance(c.func.value, ast.Call) \
                        and unparse(c.func.value.func) == 'super':
                    sup = n
                if isinstance(c.func, ast.Name) and c.func.id == 'setattr' and len(c.args) == 3 and isinstance(c.args[1], ast.Constant) \
                        and c.args[1].value == '__parameters__':
                    sets.append((n, c.args[2], c))
        a = n.ast
        if n.kind == 'stmt' and isinstance(a, ast.Assign) and any(isinstance(x, ast.Attribute) and x.attr == '__parameters__' for x in a.targets):
            sets.append((n, a.value, a))
    if sup is None or not sets:
        raise AnalysisError(f"{f.loc()}: __init_subclass__ no longer merges __parameters__ around super().__init_subclass__()")

    after_sup: t.Set[int] = set()
    todo_ = [m_ for (_lb, m_) in sup.succ]
    while todo_:
        x_ = todo_.pop()
        if x_.id in after_sup:
            continue
        after_sup.add(x_.id)
        todo_.extend(m_ for (_lb, m_) in x_.succ)

    def when_name(e: ast.Name, at: Node) -> t.Set[str]:
        ks: t.Set[str] = set()
        for d in rd.at(at, e.id):
            if d.kind not in ('assign', 'walrus') or d.value is None:
                continue
            if '__parameters__' not in unparse(d.value):
                # derived from other locals (a filtered / de-duplicated copy): follow them
                for x in ast.walk(d.value):
                    if isinstance(x, ast.Name) and x.id != e.id and rd.is_local(x.id):
                        ks |= when_name(x, d.node)
                continue
            if d.node is not sup and d.node.id not in after_sup:
                ks.add('old')        # evaluated before typing's __init_subclass__ can have run
            elif cfg.node_dominates(sup, d.node):
                ks.add('new')
            else:
                ks.add('?')
        return ks

    def when(e: ast.AST, at: Node) -> str:
        """'old' = read before typing's __init_subclass__ ran, 'new' = read after (possibly filtered against the old ones)."""
        ks: t.Set[str] = set()
        for x in ast.walk(e):
            if isinstance(x, ast.Name) and isinstance(x.ctx, ast.Load) and rd.is_local(x.id):
                ks |= when_name(x, at)
            elif (isinstance(x, ast.Attribute) and x.attr == '__parameters__') or (isinstance(x, ast.Constant) and x.value == '__parameters__'):
                ks.add('new' if cfg.node_dominates(sup, at) else 'old')
        if '?' in ks or not ks:
            return '?'
        return 'new' if 'new' in ks else 'old'

    for (n, val, site) in sets:
        r.instances += 1
        parts: t.List[ast.AST] = []

        def flat(e: ast.AST) -> None:
            if isinstance(e, ast.BinOp) and isinstance(e.op, ast.Add):
                flat(e.left)
                flat(e.right)
            elif isinstance(e, ast.Tuple) and all(isinstance(x, ast.Starred) for x in e.elts) and e.elts:
                for x in e.elts:
                    flat(x.value)      # (*a, *b)
            else:
                parts.append(e)
        flat(val)
        helper_filtered = False
        hq = model.resolve(val.func, f.module, f) if isinstance(val, ast.Call) else None
        hg = model.functions.get(hq or '')
        if hg is not None and hg.cls is None and hg.module is f.module and isinstance(hg.node, ast.FunctionDef) and isinstance(val, ast.Call) \
                and not val.keywords and len(val.args) == len(hg.params):
            # `_merge(old, new)`: which argument each part of the helper's result derives from (a small def-use closure inside the
            # helper: assignments, loop targets, elements appended to a list)
            derives: t.Dict[str, t.Set[int]] = {p_: {i_} for i_, p_ in enumerate(hg.params)}

            def src(e: ast.AST) -> t.Set[int]:
                # (filters of a comprehension say which elements are taken, not where they come from)
                out_: t.Set[int] = set()
                skip_: t.Set[int] = {id(y_) for x_ in ast.walk(e) if isinstance(x_, ast.comprehension) for i_ in x_.ifs for y_ in ast.walk(i_)}
                for x_ in ast.walk(e):
                    if isinstance(x_, ast.Name) and isinstance(x_.ctx, ast.Load) and id(x_) not in skip_:
                        out_ |= derives.get(x_.id, set())
                return out_
            for _round in range(4):
                for x_ in ast.walk(hg.node):
                    if isinstance(x_, ast.Assign) and len(x_.targets) == 1 and isinstance(x_.targets[0], ast.Name):
                        derives.setdefault(x_.targets[0].id, set()).update(src(x_.value))
                    elif isinstance(x_, ast.AnnAssign) and isinstance(x_.target, ast.Name) and x_.value is not None:
                        derives.setdefault(x_.target.id, set()).update(src(x_.value))
                    elif isinstance(x_, ast.AugAssign) and isinstance(x_.target, ast.Name):
                        derives.setdefault(x_.target.id, set()).update(src(x_.value))
                    elif isinstance(x_, (ast.For, ast.comprehension)) and isinstance(x_.target, ast.Name):
                        derives.setdefault(x_.target.id, set()).update(src(x_.iter))
                    elif isinstance(x_, ast.Call) and isinstance(x_.func, ast.Attribute) and isinstance(x_.func.value, ast.Name) \
                            and x_.func.attr in ('append', 'extend', 'add') and x_.args:
                        derives.setdefault(x_.func.value.id, set()).update(src(x_.args[0]))
            hrets = [x_ for x_ in ast.walk(hg.node) if isinstance(x_, ast.Return) and x_.value is not None]
            if len(hrets) == 1:
                parts = []
                flat(hrets[0].value)
                hparts = list(parts)
                if all(len(src(p_)) == 1 for p_ in hparts):
                    parts = [val.args[next(iter(src(p_)))] for p_ in hparts]
                    first = next(iter(src(hparts[0]))) if hparts else -1
                    helper_filtered = any(isinstance(c_, ast.Compare) and len(c_.ops) == 1 and isinstance(c_.ops[0], ast.NotIn)
                                          and src(c_.comparators[0]) == {first} for c_ in ast.walk(hg.node))
                else:
                    parts = [val]
        order = [when(p, n) for p in parts]
        r.sample({'value': unparse(val)[:100], 'order': order})
        if order == ['old', 'new']:
            r.ok()
        else:
            r.fail(f.qualname, f"__parameters__ = {unparse(val)[:80]}  ({' + '.join(order)})", f.loc(site),
                   "the inherited type variables no longer come first: Child[int, str] binds the arguments to the wrong variables, so a "
                   "field declared with T is converted as U's type")
            continue
        # the newly declared part leaves out what is inherited already: `class H(G[int, V], Generic[V])` names V twice
        r.instances += 1
        exprs: t.List[ast.AST] = []

        def defs_of(e: ast.AST, at: Node, depth: int = 0) -> None:
            exprs.append(e)
            for x in ast.walk(e):
                if isinstance(x, ast.Name) and isinstance(x.ctx, ast.Load) and rd.is_local(x.id) and depth < 3:
                    for d in rd.at(at, x.id):
                        if d.kind in ('assign', 'walrus') and d.value is not None and cfg.node_dominates(sup, d.node):
                            defs_of(d.value, d.node, depth + 1)
        defs_of(parts[1], n)
        filtered = helper_filtered
        for e in exprs:
            for x in ast.walk(e):
                if isinstance(x, (ast.GeneratorExp, ast.ListComp, ast.SetComp)):
                    for g_ in x.generators:
                        for c_ in g_.ifs:
                            for cmp_ in ast.walk(c_):
                                if isinstance(cmp_, ast.Compare) and len(cmp_.ops) == 1 and isinstance(cmp_.ops[0], ast.NotIn) \
                                        and when(cmp_.comparators[0], n) == 'old':
                                    filtered = True
                if isinstance(x, ast.Call) and unparse(x.func) in ('dict.fromkeys', 'collections.OrderedDict.fromkeys', 'OrderedDict.fromkeys'):
                    filtered = True
        if not filtered and isinstance(val, ast.Call) and 'fromkeys' in unparse(val.func):
            filtered = True
        r.sample({'newly declared part': unparse(parts[1])[:80], 'inherited variables left out': filtered})
        if filtered:
            r.ok()
        else:
            r.fail(f.qualname, f"__parameters__ = {unparse(val)[:80]}: variables that are inherited already are listed again", f.loc(site),
                   "class H(G[int, V], Generic[V]) gets the parameters (V, V): H[str] fails with 'Too few arguments', H[str, str] binds V twice")
    return r


# ---------------------------------------------------------------------------- C10 / C18: the memoiser hands every argument to the key function


def rule_keycache_forwards_everything(model: Model, rule_id: str = 'C10-R15') -> RuleResult:
    """``make_converter(ty, handlers=(...))``: the handlers may arrive by keyword.  KeyCache must give the key function and the wrapped
    function exactly the arguments it received, or two calls differing in a keyword share an entry."""
    r = RuleResult(rule_id, 'KeyCache passes (*args, **kwargs) unchanged to the key function and to the memoised function', floor=3)
    f = model.func('pane.util.KeyCache.__call__')
    a = f.node.args
    if a.vararg is None or a.kwarg is None:
        raise AnalysisError(f"{f.loc()}: KeyCache.__call__ no longer takes (*args, **kwargs)")
    va, kw = a.vararg.arg, a.kwarg.arg
    init = model.func('pane.util.KeyCache.__init__')
    # attributes of self that hold the two callables (role: assigned from the constructor's callable parameters)
    callables = set()
    for st in ast.walk(init.node):
        tg = None
        if isinstance(st, ast.Assign) and len(st.targets) == 1:
            tg, val = st.targets[0], st.value
        elif isinstance(st, ast.AnnAssign) and st.value is not None:
            tg, val = st.target, st.value
        if tg is not None and isinstance(tg, ast.Attribute) and isinstance(val, ast.Name) and val.id in init.params[1:3]:
            callables.add(tg.attr)
    if len(callables) < 2:
        raise AnalysisError(f"{init.loc()}: could not find the attributes holding the memoised function and its key function")
    r.analysed.add(f.qualname)
    cfg = cfg_of(model, f)
    rd = cfg.reaching()
    for n in cfg.live_nodes():
        for root in node_exprs(n):
            for c in walk_no_nested(root):
                if not (isinstance(c, ast.Call) and isinstance(c.func, ast.Attribute) and c.func.attr in callables
                        and isinstance(c.func.value, ast.Name) and c.func.value.id == f.params[0]):
                    continue
                r.instances += 1
                pos_ok = len(c.args) == 1 and isinstance(c.args[0], ast.Starred) and unparse(c.args[0].value) == va
                kw_ok = len(c.keywords) == 1 and c.keywords[0].arg is None and unparse(c.keywords[0].value) == kw
                rebound = [v for v in (va, kw) if any(d.kind != 'param' for d in rd.at(n, v))]
                r.sample({'call': unparse(c)})
                if pos_ok and kw_ok and not rebound:
                    r.ok()
                else:
                    r.fail(f.qualname, f"`{unparse(c)}`", f.loc(c),
                           "the memoiser does not hand all of its arguments on: calls that differ in a dropped argument (handlers passed by "
                           "keyword) get the same cache key / the same converter, so custom handlers are ignored or leak between calls")
    return r


# ---------------------------------------------------------------------------- C19: the two spellings of each I/O entry point agree


def _param_defaults(f: FuncInfo) -> t.Dict[str, str]:
    a = f.node.args
    pos = a.posonlyargs + a.args
    out: t.Dict[str, str] = {}
    for p_, d in zip(pos[len(pos) - len(a.defaults):], a.defaults):
        out[p_.arg] = unparse(d)
    for p_, d in zip(a.kwonlyargs, a.kw_defaults):
        if d is not None:
            out[p_.arg] = unparse(d)
    return out


def rule_io_siblings_agree(model: Model, rule_id: str = 'C19-R7') -> RuleResult:
    """``obj.write_yaml(f)`` and ``pane.io.write_yaml(obj, f)`` are the same operation: same-named options have the same default (the
    method forwards every option explicitly, so a diverging default in the free function shows only when it is called directly)."""
    r = RuleResult(rule_id, 'pane.io functions and the PaneBase methods of the same name give same-named options the same default', floor=4)
    io = model.module('pane.io')
    for f in model.all_functions():
        if f.module is not io or f.cls is not None or f.parent is not None or not isinstance(f.node, ast.FunctionDef):
            continue
        g = model.functions.get(f'pane.classes.PaneBase.{f.name}')
        if g is None or not isinstance(g.node, ast.FunctionDef):
            continue
        r.instances += 1
        r.analysed.update({f.qualname, g.qualname})
        df, dg = _param_defaults(f), _param_defaults(g)
        diff = {k: (df[k], dg[k]) for k in sorted(set(df) & set(dg)) if df[k] != dg[k]}
        r.sample({'pair': f.name, 'shared options': len(set(df) & set(dg)), 'differing': diff})
        if diff:
            k = next(iter(diff))
            r.fail(f.qualname, f"default of `{k}` is {diff[k][0]} here and {diff[k][1]} in PaneBase.{f.name}", f.loc(),
                   "the same write goes out in a different form depending on which spelling is used: e.g. without the '---' marker several "
                   "documents written to one stream merge into one mapping and from_yaml_all returns fewer values than were written")
        else:
            r.ok()
    return r



# ---------------------------------------------------------------------------- C02: a literal is matched by a listed value of its own kind


def rule_literal_same_kind(model: Model, rule_id: str = 'C02-R9') -> RuleResult:
    """Literal[True, 2] accepts True and 2, not 1 and not 2.0: every equality between the input and a listed value is conjoined with the
    identity of *their* types (the type test must name the same listed value, not merely some listed value)."""
    r = RuleResult(rule_id, 'Literal membership compares the input with a listed value only together with `type(input) is type(that value)`',
                   floor=1)
    cls = model.classes.get('pane.converters.LiteralConverter')
    if cls is None:
        raise AnalysisError('pane.converters.LiteralConverter not found')
    for f in cls.methods.values():
        if not isinstance(f.node, ast.FunctionDef) or f.name in ('expected', 'into_data', '__init__', '__post_init__') or len(f.params) < 2:
            continue
        cfg = cfg_of(model, f)
        nz = Normalizer(model, f, cfg, param_map={f.params[0]: 'self', f.params[1]: 'VAL'})
        for n in cfg.live_nodes():
            for root in node_exprs(n):
                for sub, bound in _walk_b(root, nz, n):
                    if not (isinstance(sub, ast.Compare) and len(sub.ops) == 1 and isinstance(sub.ops[0], (ast.Eq, ast.NotEq, ast.In, ast.NotIn))):
                        continue
                    l_, r_ = nz.expr(sub.left, n, bound), nz.expr(sub.comparators[0], n, bound)
                    is_in = isinstance(sub.ops[0], (ast.In, ast.NotIn))
                    if not (l_ == 'VAL' or (r_ == 'VAL' and not is_in)):
                        continue
                    r.instances += 1
                    r.analysed.add(f.qualname)
                    if is_in:
                        r.sample({'function': f.qualname, 'test': unparse(sub)})
                        r.fail(f.qualname, f"`{unparse(sub)}`", f.loc(sub),
                               "membership by `in` is equality with *any* listed value, whatever its kind: Literal[True, 2] accepts 1 (== True) "
                               "and 2.0 (== 2); a separate test that the input's type occurs among the listed types does not pair value and type")
                        continue
                    other = r_ if l_ == 'VAL' else l_
                    want = {f"type(VAL) is type({other})", f"type({other}) is type(VAL)", f"type(VAL) == type({other})", f"type({other}) == type(VAL)"}

                    def holds(e: ast.AST) -> bool:
                        text, pos = nz.literal(t.cast(ast.expr, e), n, bound)
                        return pos and text in want
                    paired = False
                    child: ast.AST = sub
                    for anc in ancestors(sub):
                        if isinstance(anc, ast.BoolOp) and isinstance(anc.op, ast.And) and any(holds(x) for x in anc.values if x is not child):
                            paired = True
                        if isinstance(anc, ast.IfExp) and child is anc.body and holds(anc.test):
                            paired = True
                        if isinstance(anc, (ast.GeneratorExp, ast.ListComp, ast.SetComp)) and any(holds(c) for g_ in anc.generators for c in g_.ifs):
                            paired = True
                        if isinstance(anc, ast.stmt):
                            break
                        child = anc
                    if not paired:
                        for (cid, lb) in cfg.conditions_of(n):
                            cn = cfg.nodes[cid]
                            if cn.kind == 'cond' and cn.ast is not None:
                                text, pos = nz.literal(cn.ast, cn)
                                if text in want and pos == (lb == 'T'):
                                    paired = True
                    r.sample({'function': f.qualname, 'test': f"{l_} == {r_}", 'paired with the type identity of the same value': paired})
                    if paired:
                        r.ok()
                    else:
                        r.fail(f.qualname, f"`{unparse(sub)}` without `type(input) is type({other})`", f.loc(sub),
                               "a value of another kind that merely compares equal to a listed value is accepted (True for 1, 1.0 for 1)")
    return r


# ---------------------------------------------------------------------------- C13: predicates are computed, not memoised


def rule_predicates_not_memoised(model: Model, rule_id: str = 'C13-R7') -> RuleResult:
    """A stock condition is a predicate on *any* converted value; a memoising wrapper (functools.lru_cache / cache) on a helper it calls
    hashes its arguments first, so unhashable values (lists of dimensions, arrays) raise TypeError and count as a failed condition."""
    from .memo import memoised
    r = RuleResult(rule_id, 'no helper reachable from a condition predicate is wrapped in a memoiser', floor=1)
    ann = model.module('pane.annotations')
    todo = [f for f in model.all_functions() if f.module is ann]
    seen: t.Dict[str, FuncInfo] = {}
    while todo:
        g = todo.pop()
        if g.qualname in seen:
            continue
        seen[g.qualname] = g
        for x in ast.walk(g.node):
            if isinstance(x, ast.Call):
                q = model.resolve(x.func, g.module, g if isinstance(g.node, ast.FunctionDef) else g.parent)
                h = model.functions.get(q or '')
                if h is not None and h.qualname not in seen and h.module.name.startswith('pane.') \
                        and h.module.name in ('pane.annotations', 'pane.util'):
                    todo.append(h)
    memo = {f.qualname: kind for (f, kind, _kf, _d) in memoised(model)}
    r.instances += 1
    r.analysed.update(sorted(seen)[:40])
    hits = sorted(q for q in seen if q in memo)
    r.sample({'functions reachable from pane.annotations': len(seen), 'memoised among them': hits})
    if hits:
        h = seen[hits[0]]
        r.fail(h.qualname, f"@{memo[hits[0]].split('.')[-1]} on a predicate helper", h.loc(),
               "the predicate now needs hashable arguments: a shape given as a list (or any unhashable value) makes the condition raise "
               "TypeError and fail, although the documented predicate holds")
    else:
        r.ok()
    return r


# ---------------------------------------------------------------------------- C16: one field list for record, constructor, eq, order, hash


def rule_one_field_list(model: Model, rule_id: str = 'C16-R7') -> RuleResult:
    """The class record (__pane_info__.fields: repr, signature, layouts) and the generators of __init__ / __eq__ / ordering / __hash__ are
    given the same list of fields, in the same order: lexicographic ordering is the order of *that* list."""
    r = RuleResult(rule_id, 'the class record and the generated __init__ / __eq__ / ordering / __hash__ receive the same field list', floor=4)
    f = model.func('pane.classes._process')
    cfg = cfg_of(model, f)
    rd = cfg.reaching()
    nz = Normalizer(model, f, cfg, param_map=_pm(f))
    r.analysed.add(f.qualname)
    uses: t.List[t.Tuple[str, ast.AST, Node]] = []
    for n in cfg.live_nodes():
        for root in node_exprs(n):
            for c in walk_no_nested(root):
                if not isinstance(c, ast.Call):
                    continue
                q = model.resolve(c.func, f.module, f) or ''
                short = q.rsplit('.', 1)[-1]
                if short in ('_make_init', '_make_eq', '_make_ord', '_maybe_make_hash') and len(c.args) >= 2:
                    uses.append((short, c.args[1], n))
                elif short == 'PaneInfo':
                    fa = next((k.value for k in c.keywords if k.arg == 'fields'), None)
                    if fa is not None:
                        uses.append(('PaneInfo.fields', fa, n))
    if len(uses) < 4:
        raise AnalysisError(f"{f.loc()}: _process: found only {[u[0] for u in uses]} among the consumers of the field list")

    def origin(e: ast.AST, n: Node) -> t.FrozenSet[int]:
        while isinstance(e, ast.Call) and isinstance(e.func, ast.Name) and e.func.id in ('tuple', 'list') and len(e.args) == 1:
            e = e.args[0]
        if isinstance(e, ast.Name) and rd.is_local(e.id):
            defs = rd.at(n, e.id)
            if len(defs) == 1 and defs[0].kind == 'assign' and defs[0].value is not None and not defs[0].path:
                v = defs[0].value
                inner = v
                while isinstance(inner, ast.Call) and isinstance(inner.func, ast.Name) and inner.func.id in ('tuple', 'list') and len(inner.args) == 1:
                    inner = inner.args[0]
                if isinstance(inner, ast.Name) and rd.is_local(inner.id):
                    return origin(inner, defs[0].node)       # a copy / alias of another local list
            return frozenset(d.id for d in defs)
        return frozenset({-abs(hash(nz.expr(e, n))) - 1})
    ref_name, ref_e, ref_n = next(u for u in uses if u[0] == 'PaneInfo.fields') if any(u[0] == 'PaneInfo.fields' for u in uses) else uses[0]
    ref = origin(ref_e, ref_n)
    for (name, e, n) in uses:
        r.instances += 1
        same = origin(e, n) == ref
        r.sample({'consumer': name, 'argument': unparse(e), 'same list as the class record': same})
        if same:
            r.ok()
        else:
            r.fail(f.qualname, f"{name}(cls, {unparse(e)}) while the class record holds {unparse(ref_e)}", f.loc(e),
                   "a generated method works on another field list (another order) than the one the class shows in its signature, repr and "
                   "layouts: e.g. ordering compares keyword-only fields before positional ones declared after them")
    return r


# ---------------------------------------------------------------------------- C17: field declarations do not stay behind as class attributes


def rule_declarations_removed(model: Model, rule_id: str = 'C17-R12') -> RuleResult:
    """A field declared with ``field(...)`` and no default leaves no class attribute behind: a declaration object that stays on the
    base class is found by ``getattr`` when a subclass redeclares the field by annotation, and is then updated in place (the base's
    own record changes with it)."""
    r = RuleResult(rule_id, 'declaration objects returned by field() are removed from the class body once the record is built', floor=1)
    fld = model.func('pane.field.field')
    made: t.Set[str] = set()
    for x in ast.walk(fld.node):
        if isinstance(x, ast.Return) and isinstance(x.value, ast.Call):
            q = model.resolve(x.value.func, fld.module, fld)
            if q:
                made.add(q)
    f = model.func('pane.classes._process')
    r.analysed.add(f.qualname)
    removed: t.Set[str] = set()
    sites = 0
    # _process itself and the module helpers it hands the class to (`_install_class_defaults(cls, fields)`)
    scopes: t.List[t.Tuple[FuncInfo, str]] = [(f, f.params[0])]
    for c in walk_no_nested(f.node):
        if isinstance(c, ast.Call):
            g = model.functions.get(model.resolve(c.func, f.module, f) or '')
            if g is not None and g.module is f.module and g.cls is None and isinstance(g.node, ast.FunctionDef) and g is not f:
                gp = [a_.arg for a_ in g.node.args.posonlyargs + g.node.args.args]
                for i_, a_ in enumerate(c.args):
                    if isinstance(a_, ast.Name) and a_.id == f.params[0] and i_ < len(gp) and any(
                            isinstance(x, ast.Call) and isinstance(x.func, ast.Name) and x.func.id == 'delattr' for x in ast.walk(g.node)):
                        scopes.append((g, gp[i_]))
    for (g, clsname) in scopes:
        cfg = cfg_of(model, g)
        for n in cfg.live_nodes():
            for root in node_exprs(n):
                for c in walk_no_nested(root):
                    if isinstance(c, ast.Call) and isinstance(c.func, ast.Name) and c.func.id == 'delattr' and c.args and unparse(c.args[0]) == clsname:
                        sites += 1
                        r.analysed.add(g.qualname)
                        gov = _site_conditions(model, g, c)
                        tests = [text for (_g, text, truth) in gov if truth and text.startswith('isinstance(getattr(')]
                        if not tests:
                            removed.add('*')      # unconditional removal
                        for text in tests:
                            m_ = re.search(r'\{(.*)\}\)$', text)
                            if m_:
                                removed |= {x.strip() for x in m_.group(1).split(',')}
    r.instances += 1
    r.sample({'field() returns': sorted(made), 'classes removed from the class body': sorted(removed)})
    if not sites:
        raise AnalysisError(f"{f.loc()}: _process no longer removes declarations from the class body (no delattr(cls, ...))")
    if '*' in removed or (made and made <= removed):
        r.ok()
    else:
        r.fail(f.qualname, f"delattr only for {sorted(removed)}; field() returns {sorted(made)}", f.loc(),
               "a declaration without default stays on the class as an attribute: a subclass that redeclares the field by annotation picks "
               "it up and rewrites its type in place, so every class built from the base afterwards sees the subclass's type")
    return r


# ---------------------------------------------------------------------------- C15 / C17: a layout is read exactly when it is enabled


def rule_layout_dispatch(model: Model, rule_id: str = 'C15-R7') -> RuleResult:
    """PaneConverter hands a sequence to the tuple reader, and a mapping to the struct reader, exactly when that layout is in
    in_format: nothing else (another option, the number of fields ...) decides whether an enabled layout is read."""
    r = RuleResult(rule_id, "the tuple / struct readers are reached exactly under (kind of the input, layout in in_format)", floor=4)
    allowed = {
        'tuple': [r"pane\.converters\.data_is_sequence\(VAL\)", r"'tuple' in self\.opts\.in_format"],
        'struct': [r"pane\.converters\.data_is_mapping\(VAL\)", r"isinstance\(VAL, \{.*Mapping.*\}\)", r"'struct' in self\.opts\.in_format",
                   r"pane\.converters\.data_is_sequence\(VAL\)"],
    }
    for mname in ('try_convert', 'collect_errors'):
        f = model.func(f'pane.classes.PaneConverter.{mname}')
        cfg = cfg_of(model, f)
        nz = Normalizer(model, f, cfg)
        from ..reach import Reach
        reach = Reach(cfg, nz)
        r.analysed.add(f.qualname)
        for n in cfg.live_nodes():
            for root in node_exprs(n):
                for c in walk_no_nested(root):
                    if not (isinstance(c, ast.Call) and isinstance(c.func, ast.Attribute) and isinstance(c.func.value, ast.Name)
                            and c.func.value.id == f.params[0] and c.func.attr in (f'{mname}_tuple', f'{mname}_struct')):
                        continue
                    layout = c.func.attr.rsplit('_', 1)[1]
                    r.instances += 1
                    gov = _site_conditions(model, f, c)
                    lits = [('' if truth else 'not ') + text for (_g, text, truth) in gov]
                    extra = [x for x in lits if not any(re.fullmatch('(not )?' + pat, x) for pat in allowed[layout])]
                    need = f"'{layout}' in self.opts.in_format"
                    if extra and all(any(re.fullmatch('(not )?' + pat, x) for pats in allowed.values() for pat in [*pats, r"None in self\.opts\.in_format"])
                                     for x in extra) and reach.implied(n, need, True):
                        # a compound test over the kinds and the enabled layouts (`layout in in_format` with the layout classified
                        # beforehand): nothing but kind and in_format is consulted, and the reader's own layout is enabled on every path
                        extra = []
                    r.sample({'reader': f"{mname}_{layout}", 'reached when': lits})
                    if extra:
                        r.fail(f.qualname, f"{layout} reader also depends on {extra[0][:80]}", f.loc(c),
                               f"data in the {layout} layout is refused although the layout is enabled (or read although it is not): whether a "
                               f"layout is read must depend on in_format alone")
                    elif need not in lits and not reach.implied(n, need, True):
                        r.fail(f.qualname, f"{layout} reader not guarded by {need}", f.loc(c), f"the {layout} layout is read even when it is not enabled")
                    else:
                        r.ok()
    _ = nz
    return r


# ---------------------------------------------------------------------------- C18: the declaration's settings reach the field unchanged


PASS_THROUGH = ['init', 'exclude', 'repr', 'hash', 'compare', 'default', 'default_factory', 'kw_only', 'converter']


def rule_field_settings_copied(model: Model, rule_id: str = 'C18-R9') -> RuleResult:
    """make_field derives the names and the type; every other setting of the declaration (its own converter first of all) is copied to
    the Field as it is, whatever the other settings are."""
    r = RuleResult(rule_id, 'FieldSpec.make_field copies converter / init / exclude / repr / hash / compare / defaults / kw_only unchanged', floor=9)
    f = model.func('pane.field.FieldSpec.make_field')
    cfg = cfg_of(model, f)
    nz = Normalizer(model, f, cfg, param_map=_pm(f))
    r.analysed.add(f.qualname)
    rets = [n for n in cfg.live_nodes() if n.kind == 'return' and n.ast is not None and isinstance(n.ast.value, ast.Call)]
    if not rets:
        raise AnalysisError(f"{f.loc()}: make_field does not return a Field(...) call")
    for n in rets:
        call = n.ast.value
        kw = {k.arg: nz.expr(k.value, n) for k in call.keywords if k.arg}
        for name in PASS_THROUGH:
            r.instances += 1
            got = kw.get(name)
            if got == f'self.{name}':
                r.ok()
            else:
                r.sample({name: got})
                r.fail(f.qualname, f"{name}={str(got)[:70]}", f.loc(call),
                       f"the field's `{name}` setting is not the one declared: e.g. a field converter that is dropped for some fields "
                       f"(init=False ...) lets call-level, class-level or built-in converters serialise the field instead of its own")
        # the type: the declared one (Any when there is no annotation), never widened or narrowed by other settings
        r.instances += 1
        targ = next((k.value for k in call.keywords if k.arg == 'type'), None)
        rd = cfg.reaching()
        missing_re = re.compile(r'(self\.ty is pane\.\w+\._MISSING|pane\.\w+\._MISSING is self\.ty)')

        def type_leaves(e: ast.AST, at: Node, absent: bool, depth: int = 0) -> t.List[t.Tuple[str, bool]]:
            """(normal form, only when the declaration has no type) of everything the `type=` argument may be."""
            if isinstance(e, ast.IfExp):
                text, pos = nz.literal(e.test, at)
                m_ = bool(missing_re.fullmatch(text))
                return type_leaves(e.body, at, absent or (m_ and pos), depth) + type_leaves(e.orelse, at, absent or (m_ and not pos), depth)
            if isinstance(e, ast.Call) and model.resolve(e.func, f.module, f) == 'typing.cast' and len(e.args) == 2:
                return type_leaves(e.args[1], at, absent, depth)
            if isinstance(e, ast.Name) and rd.is_local(e.id) and depth < 4:
                ds = rd.at(at, e.id)
                if ds and all(d.kind in ('assign', 'walrus') and d.value is not None and not d.path for d in ds):
                    out_: t.List[t.Tuple[str, bool]] = []
                    for d in ds:
                        gov = _site_conditions(model, f, d.value)
                        ab = absent or any(truth and missing_re.fullmatch(text) for (_g, text, truth) in gov)
                        out_ += type_leaves(d.value, d.node, ab, depth + 1)
                    return out_
            return [(nz.expr(e, at), absent)]
        leaves_ = type_leaves(targ, n, False) if targ is not None else []
        r.sample({'type': leaves_})
        bad_ = [x for (x, ab) in leaves_ if not (x == 'self.ty' or (x == 'typing.Any' and ab))]
        if leaves_ and not bad_:
            r.ok()
        else:
            r.fail(f.qualname, f"type={str(bad_[0] if bad_ else None)[:80]}", f.loc(call),
                   "the type a field is converted with is not the declared one: e.g. a default of None silently makes the field Optional, "
                   "so an explicit null is accepted where the annotation allows none")
    return r


def rule_field_forwards_arguments(model: Model, rule_id: str = 'C15-R9') -> RuleResult:
    """``field(...)`` records what the user wrote: every argument reaches ``FieldSpec`` under its own name, unchanged (``hash`` alone has
    a documented fallback: ``compare`` when it is not given)."""
    r = RuleResult(rule_id, "field() hands every argument to the declaration object under the same name, unchanged", floor=10)
    impl = [g for q, g in model.functions.items() if q == 'pane.field.field' and isinstance(g.node, ast.FunctionDef)]
    if not impl:
        raise AnalysisError('pane.field.field not found')
    f = impl[0]
    cfg = cfg_of(model, f)
    nz = Normalizer(model, f, cfg, param_map=_pm(f))
    r.analysed.add(f.qualname)
    from ..cfg import returned_values
    calls = [(e, n) for (e, n) in returned_values(cfg) if isinstance(e, ast.Call)]
    if not calls:
        raise AnalysisError('pane.field.field does not return a FieldSpec(...) call')
    params = [a.arg for a in f.node.args.kwonlyargs + f.node.args.args]
    for (call, n) in calls:
        kw = {k.arg: nz.expr(k.value, n) for k in call.keywords if k.arg}
        for p_ in params:
            r.instances += 1
            got = kw.get(p_)
            want = {f'${p_}'}
            if p_ == 'hash':
                if any(x_.kind == 'cond' and nz.literal(x_.ast, x_)[0] in ('$hash is None', 'None is $hash') for x_ in cfg.nodes):
                    want |= {'PHI($compare|$hash)', 'PHI($hash|$compare)'}      # the same fallback written as an if statement
                want |= {f'($hash if not None is $hash else $compare)', f'($hash if not $hash is None else $compare)',
                         f'($compare if None is $hash else $hash)', f'($compare if $hash is None else $hash)'}
            if got in want:
                r.ok()
            else:
                r.sample({p_: got})
                r.fail(f.qualname, f"{p_}={str(got)[:70]}", f.loc(call),
                       f"the declaration records something else for `{p_}` than the user wrote (e.g. an init=False field silently becomes "
                       "excluded from the output): layouts, output and comparison follow the altered setting")
    return r


# ---------------------------------------------------------------------------- C20 / C15: a style is applied when *it* is given


def rule_style_guard_agrees(model: Model, rule_id: str = 'C20-R8') -> RuleResult:
    """``rename_field(name, style) if <x> is not None else name``: the option tested is the option applied.  (One None-test guarding
    the use of another optional argument is a contradiction in the code itself: either the test or the use names the wrong variable.)"""
    r = RuleResult(rule_id, 'every rename_field(name, style) that is guarded by an `is not None` test is guarded by the test of that style', floor=1)
    for f in model.all_functions():
        if not isinstance(f.node, ast.FunctionDef) or not f.module.name.startswith('pane.'):
            continue
        sites = [c for c in walk_no_nested(f.node) if isinstance(c, ast.Call) and model.resolve(c.func, f.module, f) == 'pane.field.rename_field' and len(c.args) >= 2]
        if not sites:
            continue
        cfg = cfg_of(model, f)
        nz = Normalizer(model, f, cfg, param_map=_pm(f))
        for c in sites:
            n = cfg.node_of(c)
            if n is None:
                continue
            try:
                style = nz.expr(c.args[1], n, _bindings_at(c, nz, n))
            except AnalysisError:
                continue
            gov = _site_conditions(model, f, c)
            tested = [re.sub(r'^None is |( is None)$', '', text) for (_g, text, truth) in gov
                      if re.fullmatch(r'None is \$?[\w.]+|\$?[\w.]+ is None', text) and not truth]
            tested = [x.replace('$', '') for x in tested]
            if not tested:
                continue
            r.instances += 1
            r.analysed.add(f.qualname)
            base = re.sub(r'^ELEM\((.*)\)$', r'\1', style).replace('$', '')
            r.sample({'function': f.qualname, 'style applied': style, 'given-tests': tested})
            if base in tested or any(base.endswith(x) or x.endswith(base) for x in tested):
                r.ok()
            else:
                r.fail(f.qualname, f"rename_field(..., {style}) under `{tested[0]} is not None`", f.loc(c),
                       "the style is applied depending on whether *another* option was given: with only this style set the name is left "
                       "unstyled (and unsplittable names are accepted silently); with only the other one set, rename_field gets None")
    return r


def _bindings_at(sub: ast.AST, nz: Normalizer, n: Node) -> t.Dict[str, str]:
    """Comprehension variables in scope at ``sub``."""
    b: t.Dict[str, str] = {}
    chain = [a for a in ancestors(sub) if isinstance(a, (ast.GeneratorExp, ast.ListComp, ast.SetComp, ast.DictComp))]
    for comp in reversed(chain):
        b2, _c = nz.comp_bindings(comp.generators, n, b, 0)
        b = b2
    return b


# ---------------------------------------------------------------------------- C18: the converter for Any knows the handlers in effect


def rule_any_keeps_handlers(model: Model, rule_id: str = 'C18-R10') -> RuleResult:
    """A value in an Any-typed position (an element of a bare ``list`` / ``tuple`` / ``set``, an untyped field, ``Tuple[Any, ...]``) is
    written by the converter of its run-time type.  That converter must be built with the handlers of the call, so the converter that
    stands for ``Any`` has to receive them and use them; the default ``Converter.into_data`` dispatches without any."""
    r = RuleResult(rule_id, 'the converter built for Any is given the handlers in effect and serialises with them', floor=2)
    anyq = 'pane.converters.AnyConverter'
    ci = model.classes.get(anyq)
    if ci is None:
        raise AnalysisError(f"{anyq} not found")
    for f in model.all_functions():
        if not isinstance(f.node, ast.FunctionDef):
            continue
        for c in walk_no_nested(f.node):
            if isinstance(c, ast.Call) and model.resolve(c.func, f.module, f) == anyq:
                r.instances += 1
                r.analysed.add(f.qualname)
                passed = [unparse(a) for a in c.args] + [unparse(k.value) for k in c.keywords]
                r.sample({'built in': f.qualname, 'arguments': passed})
                if any(re.search(r'\bhandlers\b', p_) for p_ in passed):
                    r.ok()
                else:
                    r.fail(f.qualname, f"{unparse(c)} built without the handlers in effect", f.loc(c),
                           "values in Any-typed positions are serialised without the custom converters of the call: "
                           "into_data([Money(150)], list, custom={Money: conv}) raises TypeError (and an int handler is skipped) "
                           "although the same value under a dict value, or a typed List[Money], is written by the custom converter")
    r.instances += 1
    own = ci.methods.get('into_data')
    r.sample({'AnyConverter.into_data': 'own' if own is not None else 'inherited default (dispatches without handlers)'})
    if own is None:
        r.fail(anyq, 'into_data inherited from Converter', f"{ci.module.relpath}:{ci.node.lineno}",
               "the default writer calls the module-level into_data(val) without handlers: custom converters stop applying to every "
               "Any-typed member on output")
    else:
        r.analysed.add(own.qualname)
        uses = any(isinstance(x, ast.Attribute) and x.attr == 'handlers' for x in ast.walk(own.node))
        if uses:
            r.ok()
        else:
            r.fail(own.qualname, 'the writer never looks at its handlers', own.loc(), "custom converters are ignored for Any-typed members on output")
        # a shortcut "no handlers at all" has to look at both sets (call-level and class-level): the handler-less default writer is
        # taken only when neither has an entry
        hcls = model.classes.get('pane.convert.ConverterHandlers')
        sets = [st.target.id for st in hcls.node.body if isinstance(st, ast.AnnAssign) and isinstance(st.target, ast.Name)] if hcls else []
        ocfg = cfg_of(model, own)
        for c in walk_no_nested(own.node):
            if isinstance(c, ast.Call) and unparse(c.func) in ('super().into_data', 'into_data', 'Converter.into_data'):
                r.instances += 1
                gov = _site_conditions(model, own, c)
                seen_sets = {nm for (_g, text, _truth) in gov for nm in sets if re.search(rf'handlers\.{nm}\b', text)}
                whole = any(re.search(r'handlers\)?$|TRUTHY\(self\.handlers\)|len\(self\.handlers\)', text) for (_g, text, _t) in gov)
                r.sample({'handler-less shortcut': unparse(c)[:50], 'governed by tests of': sorted(seen_sets) or ('the whole handler object' if whole else [])})
                if whole or not sets or seen_sets == set(sets):
                    r.ok()
                else:
                    r.fail(own.qualname, f"the handler-less shortcut only looks at {sorted(seen_sets) or 'nothing'}", own.loc(c),
                           f"with only {sorted(set(sets) - seen_sets)} handlers in effect (a dataclass declared with custom=...) values in "
                           "Any-typed positions are written without them")
        _ = ocfg
    return r


# ---------------------------------------------------------------------------- C11: the member that writes a union value owns the value


def rule_union_writer_selection(model: Model, rule_id: str = 'C11-R9') -> RuleResult:
    """The writer of a union is given a *typed* value; which member writes it must be decided by what the value is (its class), not by
    asking each member whether it would accept the value as *input data*: a member's reader accepts far more than its own instances
    (a str is valid data for Pattern, a mapping for a dataclass), and the member's writer then meets a value it was never built for."""
    r = RuleResult(rule_id, "a union's writer does not pick the member by probing the members' readers with the typed value", floor=1)
    f = model.func('pane.converters.UnionConverter.into_data')
    cfg = cfg_of(model, f)
    nz = Normalizer(model, f, cfg)
    r.analysed.add(f.qualname)
    probes = []
    for n in cfg.live_nodes():
        for root in node_exprs(n):
            for c in walk_no_nested(root):
                if isinstance(c, ast.Call) and isinstance(c.func, ast.Attribute) and c.func.attr in ('try_convert', 'convert', 'collect_errors') \
                        and c.args and nz.expr(c.args[0], n) == 'VAL':
                    probes.append((n, c))
    r.instances += 1
    r.sample({'reader probes on the typed value': [unparse(c) for _n, c in probes]})
    if probes:
        n, c = probes[0]
        r.fail('pane.converters.UnionConverter.into_data', "member chosen by try_convert of the typed value", f.loc(c),
               "the first member whose *reader* accepts the typed value writes it: into_data('abc', Union[re.Pattern, str]) and "
               "into_data({'x': 1}, Union[P, Dict[str, int]]) (P a dataclass) pick the Pattern / dataclass member and raise AssertionError "
               "out of into_data, although the str / Dict member accepts the value")
    else:
        r.ok()
    return r


# ---------------------------------------------------------------------------- C16: "explicit __hash__" is judged on the class as written


def rule_explicit_hash_before_eq(model: Model, rule_id: str = 'C16-R8') -> RuleResult:
    """The standard-library rule table distinguishes a ``__hash__`` written by the user from the ``__hash__ = None`` Python adds when
    the class body defines ``__eq__``.  That test looks for ``__eq__`` in the class dictionary, so it has to run before the generated
    ``__eq__`` is attached: afterwards every ``__hash__ = None`` looks implicit."""
    r = RuleResult(rule_id, 'the hash rule is applied before the generated __eq__ is attached to the class', floor=1)
    f = model.func('pane.classes._process')
    cfg = cfg_of(model, f)
    r.analysed.add(f.qualname)
    eqs, hashes = [], []
    for n in cfg.live_nodes():
        for root in node_exprs(n):
            for c in walk_no_nested(root):
                if isinstance(c, ast.Call):
                    q = (model.resolve(c.func, f.module, f) or '').rsplit('.', 1)[-1]
                    if q == '_make_eq':
                        eqs.append(n)
                    elif q == '_maybe_make_hash':
                        hashes.append(n)
    hm = model.func('pane.classes._maybe_make_hash')
    looks_at_eq = any(isinstance(x, ast.Constant) and x.value == '__eq__' for x in ast.walk(hm.node))
    if not hashes:
        raise AnalysisError(f"{f.loc()}: _process no longer calls _maybe_make_hash")
    r.instances += 1
    r.sample({'hash rule consults __eq__ in the class dict': looks_at_eq, 'eq generators': len(eqs)})
    if not looks_at_eq:
        r.ok()
        return r

    def reaches(a: Node, b: Node) -> bool:
        seen_, todo_ = set(), [m for (_lb, m) in a.succ]
        while todo_:
            x = todo_.pop()
            if x.id in seen_:
                continue
            seen_.add(x.id)
            if x is b:
                return True
            todo_.extend(m for (_lb, m) in x.succ)
        return False
    bad = [(e, h) for e in eqs for h in hashes if reaches(e, h)]
    if bad:
        r.fail(f.qualname, '_maybe_make_hash runs after _make_eq', f.loc(bad[0][1].ast),
               "with the generated __eq__ already in the class dictionary a user's `__hash__ = None` is taken for the implicit one: "
               "class A(PaneBase): x: int; __hash__ = None is hashable (the standard library leaves it unhashable) and "
               "unsafe_hash=True silently overwrites it (the standard library raises TypeError)")
    else:
        r.ok()
    return r



# ---------------------------------------------------------------------------- C01 / C02: from_data always converts


def rule_from_data_always_converts(model: Model, rule_id: str = 'C01-R5') -> RuleResult:
    """``from_data(val, ty)`` is ``make_converter(ty, handlers).convert(val)`` on every path that returns: no shortcut hands the input
    back because it "already is" an instance of the target (``isinstance('abc', Sequence)`` holds; so does ``isinstance(True, int)``)."""
    r = RuleResult(rule_id, 'from_data returns only what the converter of the requested type produced', floor=1)
    f = model.func('pane.convert.from_data')
    cfg = cfg_of(model, f)
    nz = Normalizer(model, f, cfg, param_map=_pm(f))
    r.analysed.add(f.qualname)
    from ..cfg import returned_values
    for (e, n) in returned_values(cfg):
        r.instances += 1
        form = nz.expr(e, n)
        r.sample({'returns': form[:120]})
        if re.fullmatch(r'pane\.convert\.make_converter\(\$ty, .*\)\.convert\(\$val\)', form):
            r.ok()
        else:
            r.fail(f.qualname, f"returns {form[:100]}", f.loc(e),
                   "a value is handed back without going through the converter of the requested type: a str passes for a Sequence, a "
                   "bool for an int, and the constructor of a dataclass (which converts through from_data) stores it")
    return r


# ---------------------------------------------------------------------------- C03: no rejection hidden in a callback


def rule_rejections_are_visible(model: Model, rule_id: str = 'C03-R4') -> RuleResult:
    """The pass comparison follows direct calls.  A ``raise ParseInterrupt`` inside a nested function or lambda that is stored in a table
    or passed around (not called by name where it is defined) is a rejection of the fast pass the diagnostic pass cannot mirror."""
    r = RuleResult(rule_id, 'every `raise ParseInterrupt` sits in a method or in a closure that is called by name in its defining function', floor=10)
    from ..family import PI
    for cls in family(model):
        for g in model.all_functions():
            top = g
            while top.parent is not None:
                top = top.parent
            if top.cls is not cls or not isinstance(g.node, (ast.FunctionDef, ast.Lambda)):
                continue
            cfg = cfg_of(model, g) if isinstance(g.node, ast.FunctionDef) else None
            raises = []
            for x in (walk_no_nested(g.node) if isinstance(g.node, ast.FunctionDef) else ast.walk(g.node)):
                if isinstance(x, ast.Raise) and x.exc is not None:
                    e = x.exc.func if isinstance(x.exc, ast.Call) else x.exc
                    if model.resolve(e, g.module, g if isinstance(g.node, ast.FunctionDef) else g.parent) == PI:
                        raises.append(x)
            _ = cfg
            for x in raises:
                r.instances += 1
                r.analysed.add(g.qualname)
                if g.parent is None:
                    r.ok()
                    continue
                par = g.parent
                called = any(isinstance(c, ast.Call) and isinstance(c.func, ast.Name) and c.func.id == g.name for c in walk_no_nested(par.node))
                other_uses = any(isinstance(nm, ast.Name) and isinstance(nm.ctx, ast.Load) and nm.id == g.name
                                 and not (isinstance(getattr(nm, '_parent', None), ast.Call) and getattr(nm, '_parent').func is nm)
                                 for nm in walk_no_nested(par.node))
                r.sample({'closure': g.qualname, 'called by name': called, 'also stored / passed': other_uses})
                if called and not other_uses:
                    r.ok()
                else:
                    r.fail(g.qualname, 'raise ParseInterrupt inside a callback', g.loc(x),
                           "the fast pass can reject from inside a function that is stored in a table / passed on (the diagnostic pass "
                           "never goes there): convert() finds no error tree for the rejection and raises the internal RuntimeError")
    return r


# ---------------------------------------------------------------------------- C05 / C15: a supplied value is never skipped for what it is


def rule_supplied_values_converted(model: Model, rule_id: str = 'C15-R8') -> RuleResult:
    """In the mapping passes of the dataclass converter, whether the value found under a known key is converted depends on the key (known,
    not seen before) and never on the value itself: an explicit null is a value like any other (it may be a legal value of the field)."""
    r = RuleResult(rule_id, "a value found under a known key is converted whatever it is (no `if v is None: continue`)", floor=2)
    for mname in ('try_convert_struct', 'collect_errors_struct'):
        f = model.func(f'pane.classes.PaneConverter.{mname}')
        cfg = cfg_of(model, f)
        nz = Normalizer(model, f, cfg)
        r.analysed.add(f.qualname)
        for n in cfg.live_nodes():
            for root in node_exprs(n):
                for c in walk_no_nested(root):
                    if not (isinstance(c, ast.Call) and isinstance(c.func, ast.Attribute) and c.func.attr in ('try_convert', 'convert', 'collect_errors') and c.args):
                        continue
                    if nz.expr(c.args[0], n) != 'VALUE(VAL)':
                        continue
                    r.instances += 1
                    gov = _site_conditions(model, f, c)
                    on_value = [('' if truth else 'not ') + text for (_g, text, truth) in gov if 'VALUE(VAL)' in text]
                    r.sample({'pass': mname, 'conversion depends on the value through': on_value})
                    if on_value:
                        r.fail(f.qualname, f"conversion skipped depending on {on_value[0][:80]}", f.loc(c),
                               "a value present in the data is ignored because of what it is (e.g. an explicit null when the field has a "
                               "default): None written for an Optional field with another default reads back as the default")
                    else:
                        r.ok()
    return r


# ---------------------------------------------------------------------------- C08: the cause is printed in full


def rule_cause_not_truncated(model: Model, rule_id: str = 'C08-R11') -> RuleResult:
    """What is printed of a node's cause is the whole formatted exception: no slicing, splitting or picking of lines."""
    r = RuleResult(rule_id, "the text of a node's cause is printed whole (never sliced, split or reduced to one line)", floor=2)
    from .pairs import error_node_classes
    cutters = {'split', 'rsplit', 'splitlines', 'partition', 'rpartition', 'strip', 'rstrip', 'lstrip', 'removeprefix', 'removesuffix'}
    for q in sorted(error_node_classes(model)):
        ci = model.cls(q)
        for mname, g in ci.methods.items():
            if not isinstance(g.node, ast.FunctionDef):
                continue
            srcs = [x for x in ast.walk(g.node) if isinstance(x, ast.Call) and isinstance(x.func, ast.Attribute)
                    and x.func.attr in ('format', 'format_exception_only') and 'cause' in unparse(x.func.value)]
            srcs += [x for x in ast.walk(g.node) if isinstance(x, ast.Call) and unparse(x.func).endswith('format_exception')]
            for src in srcs:
                r.instances += 1
                r.analysed.add(g.qualname)
                cut = None
                child: ast.AST = src
                for anc in ancestors(src):
                    if isinstance(anc, ast.stmt):
                        break
                    if isinstance(anc, ast.Subscript) and anc.value is child:
                        cut = unparse(anc)
                    if isinstance(anc, ast.Call) and isinstance(anc.func, ast.Attribute) and anc.func.attr in cutters and _contains(anc.func.value, child):
                        cut = unparse(anc)[:70]
                    child = anc
                # ... or through a local the text was stored in
                st = next((a for a in ancestors(src) if isinstance(a, ast.stmt)), None)
                if cut is None and isinstance(st, ast.Assign) and len(st.targets) == 1 and isinstance(st.targets[0], ast.Name):
                    nm = st.targets[0].id
                    for x in ast.walk(g.node):
                        if isinstance(x, ast.Subscript) and isinstance(x.value, ast.Name) and x.value.id == nm and isinstance(x.ctx, ast.Load):
                            cut = unparse(x)
                        if isinstance(x, ast.Call) and isinstance(x.func, ast.Attribute) and x.func.attr in cutters \
                                and isinstance(x.func.value, ast.Name) and x.func.value.id == nm:
                            cut = unparse(x)[:70]
                r.sample({'renderer': g.qualname, 'cause text': unparse(src)[:60], 'cut by': cut})
                if cut is None:
                    r.ok()
                else:
                    r.fail(g.qualname, f"cause text cut by `{cut}`", g.loc(src),
                           "only part of the underlying exception reaches the message: a multi-line message (several problems reported at "
                           "once, a nested ConvertError, notes) loses its type and all lines but one")
    return r


def _contains(root: ast.AST, node: ast.AST) -> bool:
    return any(x is node for x in ast.walk(root))


# ---------------------------------------------------------------------------- C09: an instance never adopts a caller's mapping as its namespace


def rule_no_namespace_adoption(model: Model, rule_id: str = 'C09-R4') -> RuleResult:
    """``object.__setattr__(self, '__dict__', d)`` / ``self.__dict__ = d`` makes ``d`` the instance's attribute dictionary: every later
    attribute assignment (a ``__post_init__`` filling derived fields) writes into the caller's mapping."""
    r = RuleResult(rule_id, "no object takes a mapping it was given as its attribute dictionary", floor=1)
    n_funcs = 0
    for f in model.all_functions():
        if not isinstance(f.node, ast.FunctionDef) or not f.module.name.startswith('pane.'):
            continue
        n_funcs += 1
        for x in walk_no_nested(f.node):
            hit = None
            if isinstance(x, ast.Call) and unparse(x.func).endswith('__setattr__') and len(x.args) >= 2 \
                    and isinstance(x.args[-2], ast.Constant) and x.args[-2].value == '__dict__':
                hit = x
            if isinstance(x, (ast.Assign, ast.AnnAssign)):
                tgts = x.targets if isinstance(x, ast.Assign) else [x.target]
                if any(isinstance(tg, ast.Attribute) and tg.attr == '__dict__' for tg in tgts):
                    hit = x
            if isinstance(x, ast.Call) and isinstance(x.func, ast.Name) and x.func.id == 'setattr' and len(x.args) == 3 \
                    and isinstance(x.args[1], ast.Constant) and x.args[1].value == '__dict__':
                hit = x
            if hit is not None:
                r.instances += 1
                r.analysed.add(f.qualname)
                r.fail(f.qualname, f"`{unparse(hit)[:70]}`", f.loc(hit),
                       "the mapping handed in becomes the object's own namespace: attributes assigned afterwards (by __post_init__, by the "
                       "user) appear in the caller's dictionary")
    r.instances += 1
    r.sample({'functions scanned': n_funcs})
    r.ok()
    return r


# ---------------------------------------------------------------------------- C10: nothing is remembered on a class through its instances


def rule_no_state_on_class_via_instance(model: Model, rule_id: str = 'C10-R16') -> RuleResult:
    """``setattr(self.__class__, NAME, value)`` / ``type(self).x = value`` at conversion time stores per-class state that attribute
    lookup then finds from every subclass and every parametrisation: a converter cached for Base answers for Child."""
    r = RuleResult(rule_id, "no attribute is stored on a class through one of its instances at run time", floor=1)
    n_funcs = 0
    for f in model.all_functions():
        if not isinstance(f.node, ast.FunctionDef) or not f.module.name.startswith('pane.'):
            continue
        n_funcs += 1
        me = f.params[0] if f.params else None
        for x in walk_no_nested(f.node):
            tgt = None
            if isinstance(x, ast.Call) and isinstance(x.func, ast.Name) and x.func.id == 'setattr' and len(x.args) == 3:
                tgt = x.args[0]
            elif isinstance(x, (ast.Assign, ast.AugAssign, ast.AnnAssign)):
                tgts = x.targets if isinstance(x, ast.Assign) else [x.target]
                for tg in tgts:
                    if isinstance(tg, ast.Attribute):
                        tgt = tg.value
            if tgt is None or me is None:
                continue
            s = unparse(tgt)
            if s in (f'{me}.__class__', f'type({me})') and me != 'cls':
                r.instances += 1
                r.analysed.add(f.qualname)
                r.fail(f.qualname, f"`{unparse(x)[:70]}`", f.loc(x),
                       "state is attached to the class while converting: subclasses and parametrised classes inherit it by attribute lookup, "
                       "so what a class does depends on whether its parent was used first")
    r.instances += 1
    r.sample({'functions scanned': n_funcs})
    r.ok()
    return r


# ---------------------------------------------------------------------------- C12: the table of declared tags stays aligned with the variants


def rule_tag_tables_aligned(model: Model, rule_id: str = 'C12-R8') -> RuleResult:
    """``self.tags[i]`` is compared with the tag found in the data for variant ``i``.  When the tuple is taken from the keys of the tag
    map, the map has to have been filled in the order of the variants (and never rebuilt in another order afterwards)."""
    r = RuleResult(rule_id, "the tuple of declared tags lists them in the order of the variants (the tag map is filled in that order and never reordered)", floor=1)
    ci = model.cls('pane.converters.TaggedUnionConverter')
    init = ci.methods.get('__init__')
    if init is None:
        raise AnalysisError('TaggedUnionConverter.__init__ not found')
    r.analysed.add(init.qualname)
    me = init.params[0]
    tags_from_map = None
    # local names for the same table (`tag_map = {}; self.tag_map = tag_map`)
    aliases = {f'{me}.tag_map'}
    for x in ast.walk(init.node):
        if isinstance(x, (ast.Assign, ast.AnnAssign)) and x.value is not None:
            tgts = x.targets if isinstance(x, ast.Assign) else [x.target]
            for tg in tgts:
                if unparse(tg) == f'{me}.tag_map' and isinstance(x.value, ast.Name):
                    aliases.add(x.value.id)
                if isinstance(tg, ast.Name) and unparse(x.value) == f'{me}.tag_map':
                    aliases.add(tg.id)
    if len(aliases) > 1:
        # analyse the function with the local name written out
        class _Sub(ast.NodeTransformer):
            def visit_Name(self, node: ast.Name) -> ast.AST:
                if node.id in aliases:
                    return ast.copy_location(ast.Attribute(value=ast.Name(id=me, ctx=ast.Load()), attr='tag_map', ctx=node.ctx), node)
                return node
        import copy as _copy
        init_node = ast.fix_missing_locations(_Sub().visit(_copy.deepcopy(init.node)))
    else:
        init_node = init.node
    for x in ast.walk(init_node):
        if isinstance(x, (ast.Assign, ast.AnnAssign)):
            tgts = x.targets if isinstance(x, ast.Assign) else [x.target]
            if any(unparse(tg) == f'{me}.tags' for tg in tgts) and x.value is not None:
                tags_from_map = x if f'{me}.tag_map' in unparse(x.value) else False
    if tags_from_map is None:
        # no parallel tuple: nothing to align
        r.instances += 1
        r.sample({'tags tuple': 'absent'})
        r.ok()
        return r
    r.instances += 1
    if tags_from_map is False:
        r.sample({'tags tuple': 'taken from the variants themselves'})
        r.ok()
        return r
    bad = None
    writes = []
    for g in ci.methods.values():
        if not isinstance(g.node, ast.FunctionDef):
            continue
        gme = g.params[0] if g.params else 'self'
        for x in walk_no_nested(init_node if g is init else g.node):
            if isinstance(x, (ast.Assign, ast.AnnAssign, ast.AugAssign)):
                tgts = x.targets if isinstance(x, ast.Assign) else [x.target]
                for tg in tgts:
                    if unparse(tg) == f'{gme}.tag_map':
                        v = getattr(x, 'value', None)
                        if g is init and v is not None and unparse(v) == f'{gme}.tag_map':
                            continue        # the alias binding itself
                        writes.append(unparse(x)[:80])
                        if isinstance(x, ast.AugAssign):
                            bad = (g, x)
                        elif isinstance(v, ast.Dict) and not v.keys:
                            pass
                        elif isinstance(v, ast.Call) and unparse(v.func) in ('dict', 'OrderedDict', 'collections.OrderedDict') and not v.args and not v.keywords:
                            pass
                        elif isinstance(v, ast.DictComp) and len(v.generators) == 1 and not v.generators[0].ifs \
                                and re.fullmatch(rf'enumerate\({gme}\.types\)|range\(len\({gme}\.types\)\)|zip\(.*{gme}\.types.*\)', unparse(v.generators[0].iter)):
                            pass
                        elif v is None:
                            pass
                        else:
                            bad = (g, x)
                    elif isinstance(tg, ast.Subscript) and unparse(tg.value) == f'{gme}.tag_map':
                        writes.append(unparse(x)[:80])
                        loop = next((a for a in ancestors(x) if isinstance(a, (ast.For, ast.While))), None)
                        if g.name != '__init__' or not isinstance(loop, ast.For) \
                                or not re.fullmatch(rf'enumerate\({gme}\.types\)|range\(len\({gme}\.types\)\)|zip\(.*{gme}\.types.*\)', unparse(loop.iter)):
                            bad = (g, x)
            if isinstance(x, ast.Call) and isinstance(x.func, ast.Attribute) and unparse(x.func.value) == f'{gme}.tag_map' \
                    and x.func.attr in ('update', 'pop', 'popitem', 'clear', 'setdefault', 'move_to_end', '__setitem__'):
                writes.append(unparse(x)[:80])
                bad = (g, x)
    r.sample({'tags tuple': unparse(tags_from_map)[:80], 'writes of the tag map': writes})
    if bad is None:
        r.ok()
    else:
        g, x = bad
        r.fail(g.qualname, f"`{unparse(x)[:70]}` reorders or rebuilds the tag map the tuple of tags is read from", g.loc(x),
               "the tuple of declared tags no longer lists them in the order of the variants: the kind of a tag found in the data is compared "
               "with another variant's tag (a declared tag is refused, or an equal tag of another kind accepted)")
    return r


# ---------------------------------------------------------------------------- C11: the top-level writer uses the declared type


def rule_declared_type_reaches_converter(model: Model, rule_id: str = 'C11-R10') -> RuleResult:
    """``into_data(val, ty)`` builds the converter of the *declared* type: ``ty`` is only replaced when the caller gave none.  Narrowing
    a declared union to "the alternative of the value's class" bypasses the union writer's member selection (the first alternative whose
    origin is the class need not accept the value: ``List[int] | List[str]``, ``Annotated[int, cond] | int``)."""
    r = RuleResult(rule_id, "the top-level writer hands the declared type to the converter factory (it is replaced only when absent)", floor=1)
    f = model.func('pane.convert.into_data')
    r.analysed.add(f.qualname)
    if len(f.params) < 2:
        raise AnalysisError('into_data(val, ty): parameters not found')
    ty = f.params[1]
    calls = [c for c in walk_no_nested(f.node) if isinstance(c, ast.Call) and model.resolve(c.func, f.module, f) == 'pane.convert.make_converter']
    if not calls:
        raise AnalysisError('into_data never calls make_converter')
    cfg = cfg_of(model, f)
    rd = cfg.reaching()
    nz = Normalizer(model, f, cfg)
    absent_re = re.compile(rf'(None is \$?{ty}|\$?{ty} is None|\$?{ty} == None|None == \$?{ty})')

    def leaves(e: ast.AST, n: Node, absent: bool, depth: int = 0) -> t.List[t.Tuple[ast.AST, bool]]:
        """(expression, evaluated only when the caller gave no type) for everything the argument may be."""
        if isinstance(e, ast.IfExp):
            text, pos = nz.literal(e.test, n)
            is_absent_test = bool(absent_re.fullmatch(text))
            return leaves(e.body, n, absent or (is_absent_test and pos), depth) + leaves(e.orelse, n, absent or (is_absent_test and not pos), depth)
        if isinstance(e, ast.Call) and model.resolve(e.func, f.module, f) == 'typing.cast' and len(e.args) == 2:
            return leaves(e.args[1], n, absent, depth)
        if isinstance(e, ast.Name) and rd.is_local(e.id) and depth < 5:
            out: t.List[t.Tuple[ast.AST, bool]] = []
            for d in rd.at(n, e.id):
                if d.kind == 'param':
                    out.append((e, absent) if e.id != ty else (e, True))
                elif d.kind in ('assign', 'walrus') and d.value is not None and not d.path:
                    gov = _site_conditions(model, f, d.value)
                    ab = absent or any(truth and absent_re.fullmatch(text) for (_g, text, truth) in gov)
                    out += leaves(d.value, d.node, ab, depth + 1)
                else:
                    out.append((e, absent))
            return out
        return [(e, absent)]

    for c in calls:
        r.instances += 1
        n = cfg.node_of(c)
        if not c.args or n is None:
            raise AnalysisError('into_data: make_converter call without a type argument')
        got = leaves(c.args[0], n, False)
        bad = [e for (e, ok) in got if not ok]
        r.sample({'call': unparse(c)[:80], 'the type argument may be': [(unparse(e)[:40], 'declared type' if isinstance(e, ast.Name) and e.id == ty else
                                                                           ('only when no type was given' if ok else 'ALWAYS')) for (e, ok) in got]})
        if not bad:
            r.ok()
        else:
            r.fail(f.qualname, f"the declared type is replaced by `{unparse(bad[0])[:60]}`", f.loc(bad[0]),
                   "a declared union (or annotated type) is narrowed from the value's class before the union writer selects a member: the "
                   "value is written by an alternative that may not accept it")
    return r


# ---------------------------------------------------------------------------- C11 / C10: no result is remembered under the data value


def rule_no_value_keyed_memo(model: Model, rule_id: str = 'C11-R11') -> RuleResult:
    """A conversion result stored in a table *keyed by the data value* is handed out again for every value equal to it: ``1``, ``True``
    and ``1.0`` are one key, so the second of them gets the first one's result (the member the union chose for another kind)."""
    r = RuleResult(rule_id, "no conversion result is stored in, or served from, a table keyed by the data value", floor=1)
    deleg = {'try_convert', 'convert', 'collect_errors', 'into_data'}
    n_funcs = 0
    seen: t.Set[str] = set()

    def delegations(e: ast.AST) -> t.List[ast.Call]:
        return [c for c in ast.walk(e) if isinstance(c, ast.Call) and isinstance(c.func, ast.Attribute) and c.func.attr in deleg and c.args]

    for cq, fs in sorted(conversion_zone(model).items()):
        ci = model.cls(cq)
        todo = list(fs) + [g for g in ci.methods.values() if g.name in ('into_data', '_into_data')]
        for f in todo:
            for g in [f] + list(_nested(model, f)):
                if g.qualname in seen or not isinstance(g.node, ast.FunctionDef):
                    continue
                seen.add(g.qualname)
                n_funcs += 1
                for x in walk_no_nested(g.node):
                    key = val = None
                    if isinstance(x, ast.Assign) and len(x.targets) == 1 and isinstance(x.targets[0], ast.Subscript):
                        key, val = x.targets[0].slice, x.value
                    elif isinstance(x, ast.Call) and isinstance(x.func, ast.Attribute) and x.func.attr == 'setdefault' and len(x.args) == 2:
                        key, val = x.args[0], x.args[1]
                    if key is None or val is None:
                        continue
                    ks = unparse(key)
                    table = unparse(x.targets[0].value) if isinstance(x, ast.Assign) else unparse(x.func.value)
                    # a table that is only filled (keys of one mapping are distinct already) is no memo: it has to be consulted as well
                    consulted = isinstance(x, ast.Call) or any(
                        (isinstance(y, ast.Compare) and any(isinstance(o, (ast.In, ast.NotIn)) for o in y.ops) and unparse(y.comparators[-1]) == table)
                        or (isinstance(y, ast.Call) and isinstance(y.func, ast.Attribute) and y.func.attr == 'get' and unparse(y.func.value) == table)
                        or (isinstance(y, ast.ExceptHandler) and y.type is not None and 'KeyError' in unparse(y.type))
                        for y in ast.walk(g.node))
                    if not consulted:
                        continue
                    for d in delegations(val):
                        if unparse(d.args[0]) == ks:
                            r.instances += 1
                            r.analysed.add(g.qualname)
                            r.fail(g.qualname, f"`{unparse(x)[:70]}` remembers a result under the value converted", g.loc(x),
                                   "values that compare equal but are of different kinds (1, True, 1.0) share one entry: the second is given the "
                                   "result computed for the first, whatever member accepts it")
    r.instances += 1
    r.sample({'functions scanned': n_funcs})
    r.ok()
    return r


def _nested(model: Model, f: FuncInfo) -> t.Iterator[FuncInfo]:
    for g in model.all_functions():
        p = g.parent
        while p is not None:
            if p is f:
                yield g
                break
            p = p.parent


# ---------------------------------------------------------------------------- C13: building a condition never fails


def rule_condition_makers_total(model: Model, rule_id: str = 'C13-R8') -> RuleResult:
    """The stock condition makers and the combinators describe a predicate; they have no argument combination to refuse: a range with
    equal bounds accepts exactly that value (boundaries inclusive), a range with crossed bounds accepts nothing."""
    r = RuleResult(rule_id, "the stock condition makers and the combinators build a condition for every argument combination (no raise)", floor=6)
    names = ['pane.annotations.val_range', 'pane.annotations.len_range', 'pane.annotations.shape', 'pane.annotations.broadcastable']
    ci = model.cls('pane.annotations.Condition')
    names += [g.qualname for nm, g in ci.methods.items() if nm in ('all', 'any', '__and__', '__or__', '__invert__') and isinstance(g.node, ast.FunctionDef)]
    for q in names:
        f = model.func(q)
        cfg = cfg_of(model, f)
        r.instances += 1
        r.analysed.add(q)
        raises = [n for n in cfg.live_nodes() if n.kind == 'raise']
        r.sample({q: [unparse(n.ast)[:60] for n in raises if n.ast is not None]})
        if not raises:
            r.ok()
        else:
            n = raises[0]
            r.fail(q, f"`{unparse(n.ast)[:70] if n.ast is not None else 'raise'}`", f.loc(n.ast) if n.ast is not None else f.loc(),
                   f"{f.name} refuses arguments for which the documented predicate is perfectly defined (e.g. min == max: exactly that "
                   "value; boundaries are inclusive): the annotation can't even be written")
    return r


# ---------------------------------------------------------------------------- C13: a raising predicate is reported with its cause, always


def rule_predicate_exception_carried(model: Model, rule_id: str = 'C13-R9') -> RuleResult:
    """In the diagnostic pass of the conditional converter, the handler of the predicate's exception builds the failure node with a
    cause on every path: the cause argument is never None and never left out (predicates implemented in C leave a traceback of our frame only)."""
    r = RuleResult(rule_id, "the failure node built for a raising predicate carries the exception as its cause on every path", floor=1)
    f = model.func('pane.converters.ConditionalConverter.collect_errors')
    cfg = cfg_of(model, f)
    rd = cfg.reaching()
    r.analysed.add(f.qualname)
    cause_pos = 3
    handlers = []
    for tr in ast.walk(f.node):
        if isinstance(tr, ast.Try) and any(isinstance(c, ast.Call) and unparse(c.func).endswith('.condition') for s in tr.body for c in ast.walk(s)):
            handlers += [h for h in tr.handlers if h.type is None or 'ParseInterrupt' not in unparse(h.type)]
    if not handlers:
        raise AnalysisError('ConditionalConverter.collect_errors: no handler around the predicate call')

    def never_none(e: ast.AST, n: Node, depth: int = 0) -> t.Optional[str]:
        if isinstance(e, ast.Constant) and e.value is None:
            return 'None'
        if isinstance(e, ast.IfExp):
            return never_none(e.body, n, depth + 1) or never_none(e.orelse, n, depth + 1)
        if isinstance(e, ast.Name) and rd.is_local(e.id) and depth < 4:
            for d in rd.at(n, e.id):
                if d.kind == 'handler':
                    continue
                if d.value is None or d.path:
                    return f'{e.id} (not a plain assignment)'
                bad = never_none(d.value, d.node, depth + 1)
                if bad:
                    return bad
        return None

    for h in handlers:
        for st in ast.walk(h):
            if not isinstance(st, ast.Return) or st.value is None:
                continue
            n = cfg.node_of(st.value)
            if n is None or n.id not in cfg.reachable():
                continue
            r.instances += 1
            c = st.value
            cause: t.Optional[ast.AST] = None
            if isinstance(c, ast.Call):
                if len(c.args) > cause_pos:
                    cause = c.args[cause_pos]
                cause = next((k.value for k in c.keywords if k.arg == 'cause'), cause)
            r.sample({'return': unparse(st)[:90], 'cause': unparse(cause) if cause is not None else None})
            if not isinstance(c, ast.Call):
                r.ok()   # a node built elsewhere: decided by C13-R1
                continue
            if cause is None:
                r.fail(f.qualname, "the failure node of a raising predicate is built without a cause", f.loc(st),
                       "the exception the predicate raised is lost: the report says the condition failed, not that it could not be evaluated")
                continue
            bad = never_none(cause, n)
            if bad:
                r.fail(f.qualname, f"the cause of the failure node may be {bad}", f.loc(st),
                       "for a predicate that raises without a Python frame of its own (math.isfinite, operator.gt, len) the cause is dropped")
            else:
                r.ok()
    return r


# ---------------------------------------------------------------------------- C14: construction stores fields beneath the recording __setattr__


def rule_init_stores_raw(model: Model, rule_id: str = 'C14-R10') -> RuleResult:
    """``PaneBase.__setattr__`` adds every assigned name to the record of explicitly set fields (and refuses frozen classes).  The
    generated constructor therefore stores through ``object.__setattr__``: a dispatching store (``setattr(self, ...)``, ``self.x = ...``)
    would record defaulted fields as supplied."""
    r = RuleResult(rule_id, "the generated constructor stores fields with object.__setattr__, never through the recording __setattr__", floor=2)
    base = model.cls('pane.classes.PaneBase')
    sa = base.methods.get('__setattr__')
    records = sa is not None and any(isinstance(c, ast.Call) and isinstance(c.func, ast.Attribute) and c.func.attr in ('add', 'update')
                                     for c in ast.walk(sa.node))
    init = model.func('pane.classes._make_init.__init__')
    r.analysed.add(init.qualname)
    me = init.params[0]
    raw = disp = 0
    for x in walk_no_nested(init.node):
        if isinstance(x, ast.Call) and unparse(x.func) in ('object.__setattr__', 'super().__setattr__') and x.args and unparse(x.args[0]) == me:
            raw += 1
            r.instances += 1
            r.ok()
            continue
        hit = None
        if isinstance(x, ast.Call) and isinstance(x.func, ast.Name) and x.func.id == 'setattr' and x.args and unparse(x.args[0]) == me:
            hit = x
        elif isinstance(x, ast.Call) and unparse(x.func) == f'{me}.__setattr__':
            hit = x
        elif isinstance(x, (ast.Assign, ast.AnnAssign, ast.AugAssign)):
            tgts = x.targets if isinstance(x, ast.Assign) else [x.target]
            if any(isinstance(tg, ast.Attribute) and unparse(tg.value) == me for tg in tgts):
                hit = x
        if hit is not None and records:
            disp += 1
            r.instances += 1
            r.fail(init.qualname, f"`{unparse(hit)[:70]}` goes through the class's __setattr__", init.loc(hit),
                   "every field stored this way is added to the record of explicitly set fields: defaults are reported by dict(set_only=True) "
                   "and written by into_data as if they had been supplied")
    r.sample({'raw stores': raw, 'dispatching stores': disp, '__setattr__ records the name': records})
    if raw == 0 and disp == 0:
        raise AnalysisError('_make_init.__init__: no field store found')
    return r


# ---------------------------------------------------------------------------- C17: each option is inherited on its own


def rule_options_replaced_independently(model: Model, rule_id: str = 'C17-R13') -> RuleResult:
    """``PaneOptions.replace(**changes)`` overrides exactly the options that were given: no option is derived from another one there
    (an inherited ``in_rename`` survives a subclass that only changes ``out_rename``)."""
    r = RuleResult(rule_id, "replacing class options changes the named options only: none is derived from another", floor=1)
    f = model.func('pane.classes.PaneOptions.replace')
    r.analysed.add(f.qualname)
    kw = f.node.args.kwarg.arg if f.node.args.kwarg is not None else None
    if kw is None:
        raise AnalysisError('PaneOptions.replace: no **changes parameter')

    def keys_read(e: ast.AST) -> t.Set[str]:
        out: t.Set[str] = set()
        for x in ast.walk(e):
            if isinstance(x, ast.Subscript) and unparse(x.value) == kw and isinstance(x.slice, ast.Constant):
                out.add(str(x.slice.value))
            if isinstance(x, ast.Call) and isinstance(x.func, ast.Attribute) and unparse(x.func.value) == kw \
                    and x.func.attr in ('get', 'pop') and x.args and isinstance(x.args[0], ast.Constant):
                out.add(str(x.args[0].value))
        return out

    stores = []
    for x in walk_no_nested(f.node):
        key = val = None
        if isinstance(x, ast.Assign) and len(x.targets) == 1 and isinstance(x.targets[0], ast.Subscript) and unparse(x.targets[0].value) == kw:
            key, val = x.targets[0].slice, x.value
        elif isinstance(x, ast.Call) and isinstance(x.func, ast.Attribute) and unparse(x.func.value) == kw \
                and x.func.attr == 'setdefault' and len(x.args) == 2:
            key, val = x.args[0], x.args[1]
        elif isinstance(x, ast.Call) and isinstance(x.func, ast.Attribute) and unparse(x.func.value) == kw and x.func.attr == 'update':
            key, val = ast.Constant(value='*'), x
        if key is None or val is None:
            continue
        r.instances += 1
        k = str(key.value) if isinstance(key, ast.Constant) else unparse(key)
        others = sorted(keys_read(val) - {k})
        # ... or read from the record itself (self.<other option>)
        me = f.params[0]
        others += sorted({a.attr for a in ast.walk(val) if isinstance(a, ast.Attribute) and unparse(a.value) == me and a.attr != k})
        stores.append({'option': k, 'from': others})
        if others:
            r.fail(f.qualname, f"option {k!r} is set from {others}", f.loc(x),
                   f"a class that overrides {others[0]!r} silently overrides {k!r} as well: the value inherited from its bases is lost")
        else:
            r.ok()
    if not stores:
        r.instances += 1
        r.ok()
    r.sample({'stores into the changes': stores})
    return r


# ---------------------------------------------------------------------------- C18: handlers are offered the type the dispatch itself looks at


def rule_handlers_see_dispatch_subject(model: Model, rule_id: str = 'C18-R11') -> RuleResult:
    """Both handler loops of ``make_converter`` call ``handler(base, args, ...)`` with the very ``base`` / ``args`` the built-in arms go on
    to test (``issubclass(base, HasConverter)``, ``base in _BASIC_CONVERTERS``): a handler written for ``Mapping`` is asked about
    ``Mapping``, not about the concrete class that would be built."""
    r = RuleResult(rule_id, "custom handlers are called with the same (origin, arguments) the built-in dispatch tests", floor=2)
    f = model.func('pane.convert.make_converter')
    cfg = cfg_of(model, f)
    nz = Normalizer(model, f, cfg)
    r.analysed.add(f.qualname)
    subject: t.Set[str] = set()
    argforms: t.Set[str] = set()
    calls: t.List[t.Tuple[ast.Call, Node]] = []
    for n in cfg.live_nodes():
        for root in node_exprs(n):
            for c in walk_no_nested(root):
                if isinstance(c, ast.Call) and isinstance(c.func, ast.Name) and c.func.id == 'issubclass' and len(c.args) == 2 \
                        and 'HasConverter' in unparse(c.args[1]):
                    subject.add(nz.expr(c.args[0], n))
                if isinstance(c, ast.Call) and isinstance(c.func, ast.Attribute) and c.func.attr == '_converter':
                    for a in c.args:
                        if isinstance(a, ast.Starred):
                            argforms.add(nz.expr(a.value, n))
                if isinstance(c, ast.Call) and isinstance(c.func, ast.Name) and len(c.args) >= 2:
                    loop = next((a for a in ancestors(c) if isinstance(a, ast.For)), None)
                    if loop is not None and isinstance(loop.target, ast.Name) and loop.target.id == c.func.id \
                            and ('handlers' in unparse(loop.iter).lower()):
                        calls.append((c, n))
    if len(subject) != 1 or len(argforms) != 1:
        raise AnalysisError(f"make_converter: dispatch subject not found (issubclass(.., HasConverter): {sorted(subject)}, _converter(*..): {sorted(argforms)})")
    (subj,), (argf,) = subject, argforms
    strip = lambda s: re.sub(r'^typing\.cast\([^,]+, (.*)\)$', r'\1', s)  # noqa: E731
    for c, n in calls:
        r.instances += 1
        a0, a1 = strip(nz.expr(c.args[0], n)), strip(nz.expr(c.args[1], n))
        r.sample({'loop': unparse(next(a for a in ancestors(c) if isinstance(a, ast.For)).iter), 'offered': [a0, a1], 'dispatch tests': [subj, argf]})
        if a0 != subj:
            r.fail(f.qualname, f"handlers are offered `{unparse(c.args[0])[:50]}` while the dispatch tests another expression", f.loc(c),
                   "a handler registered for an annotation (Mapping, Sequence, an abstract class) is asked about a different class than the one "
                   "written in the annotation: it no longer applies, or applies to annotations it was not written for")
        elif a1 != argf:
            r.fail(f.qualname, f"handlers are offered the arguments `{unparse(c.args[1])[:50]}`", f.loc(c),
                   "the type arguments a handler receives are not the ones of the annotation")
        else:
            r.ok()
    return r


# ---------------------------------------------------------------------------- C19: formatting options are forwarded, not interpreted


def rule_format_options_only_forwarded(model: Model, rule_id: str = 'C19-R8') -> RuleResult:
    """The writers hand every formatting option to the backend as it is; they never compare it, compute with it or validate it (the
    backends accept more than one kind of value: ``indent`` of ``json.dump`` is an int *or* a string)."""
    r = RuleResult(rule_id, "formatting options of the writers are only handed on (as keyword values), never interpreted", floor=10)
    not_options = {'obj', 'f', 'ty', 'custom', 'self', 'cls'}
    for q in ('pane.io.write_json', 'pane.io.write_yaml'):
        f = model.func(q)
        r.analysed.add(q)
        a = f.node.args
        opts = [p.arg for p in a.posonlyargs + a.args + a.kwonlyargs if p.arg not in not_options]
        parents: t.Dict[int, ast.AST] = {}
        for x in ast.walk(f.node):
            for ch in ast.iter_child_nodes(x):
                parents[id(ch)] = x
        def only_forwarded(g: FuncInfo, name: str, depth: int = 0) -> t.Optional[ast.AST]:
            """None if every use of the parameter ``name`` in ``g`` hands it on; else the offending construct."""
            gparents: t.Dict[int, ast.AST] = {}
            for x_ in ast.walk(g.node):
                for ch_ in ast.iter_child_nodes(x_):
                    gparents[id(ch_)] = x_
            for x_ in ast.walk(g.node):
                if not (isinstance(x_, ast.Name) and x_.id == name and isinstance(x_.ctx, ast.Load)):
                    continue
                par_ = gparents.get(id(x_))
                if isinstance(par_, ast.keyword) and par_.value is x_:
                    call_ = gparents.get(id(par_))
                    h = model.functions.get(model.resolve(call_.func, g.module, g) or '') if isinstance(call_, ast.Call) else None
                    if h is not None and h.module is g.module and par_.arg and depth < 3 and isinstance(h.node, ast.FunctionDef):
                        inner = only_forwarded(h, par_.arg, depth + 1)
                        if inner is not None:
                            return inner
                    continue
                if isinstance(par_, ast.Dict) and any(v is x_ for v in par_.values):
                    continue
                if isinstance(par_, ast.Call) and any(a_ is x_ for a_ in par_.args) and depth < 3:
                    h = model.functions.get(model.resolve(par_.func, g.module, g) or '')
                    if h is not None and h.module is g.module and isinstance(h.node, ast.FunctionDef):
                        hp = [a_.arg for a_ in h.node.args.posonlyargs + h.node.args.args]
                        i_ = [k for k, a_ in enumerate(par_.args) if a_ is x_][0]
                        if i_ < len(hp):
                            inner = only_forwarded(h, hp[i_], depth + 1)
                            if inner is None:
                                continue
                            return inner
                return par_ if par_ is not None else x_
            return None

        for o in opts:
            r.instances += 1
            uses = sum(1 for x in ast.walk(f.node) if isinstance(x, ast.Name) and x.id == o and isinstance(x.ctx, ast.Load))
            bad = only_forwarded(f, o)
            r.sample({f'{f.name}({o}=)': uses})
            if bad is None:
                r.ok()
            else:
                r.fail(q, f"option `{o}` is used in `{unparse(bad)[:60]}`", f.loc(bad),
                       f"the writer interprets `{o}` itself: a value the backend accepts (a string indent, a bool, None) is compared or "
                       "checked as if it were of one kind, and the call fails before anything is written")
    return r


# ---------------------------------------------------------------------------- C17 / C20: a class option that is given reaches the record


def rule_given_option_reaches_record(model: Model, rule_id: str = 'C17-R14') -> RuleResult:
    """Converse of C17-R1: when a class statement *does* give an option, the option update receives a value for it on every path
    (``rename='snake'`` in a subclass of a camel-case class is an override like any other, not "nothing to do")."""
    from ..noneval import NONE, SOME, NoneEval
    r = RuleResult(rule_id, "an option given in the class statement reaches the option update (never dropped for what its value is)", floor=8)
    f = model.func('pane.classes.PaneBase.__init_subclass__')
    r.analysed.add(f.qualname)
    c = next((x for x in ast.walk(f.node) if isinstance(x, ast.Call) and isinstance(x.func, ast.Attribute) and x.func.attr == 'replace'
              and len(x.keywords) >= 5), None)
    if c is None:
        raise AnalysisError('PaneBase.__init_subclass__: option update (opts.replace(...)) not found')
    kwnames = {k.arg for k in c.keywords if k.arg}
    a = f.node.args
    params = [p.arg for p in a.kwonlyargs] + [p.arg for p in a.args[1:]]
    for p_ in params:
        feeds = {p_} & kwnames
        if p_ == 'rename':
            feeds = {'in_rename', 'out_rename'} & kwnames
        if p_ == 'custom':
            feeds = {'class_handlers', 'custom'} & kwnames
        if not feeds:
            continue
        ev = NoneEval(model)
        env = ev.defaults(f)
        env[p_] = SOME
        seen: t.Dict[str, t.Set[t.Any]] = {}

        def observe(st: ast.stmt, env_: t.Dict[str, t.Any]) -> None:
            if any(x is c for x in ast.walk(st)):
                for k_ in c.keywords:
                    if k_.arg in feeds:
                        seen.setdefault(t.cast(str, k_.arg), set()).add(ev.value(k_.value, dict(env_), f))
        ev.run(f, env, observe)
        r.instances += 1
        r.sample({p_: {k: sorted(map(str, v)) for k, v in seen.items()}})
        def holds_none(v: t.Any) -> bool:
            return v == NONE or (isinstance(v, tuple) and any(holds_none(x_) for x_ in v))
        lost = sorted(k for k in feeds if any(holds_none(v) for v in seen.get(k, {NONE})))
        if not lost:
            r.ok()
        else:
            r.fail(f.qualname, f"class argument `{p_}` can reach the option update as None ({', '.join(lost)})", f.loc(c),
                   f"for some value of `{p_}` the class keeps what it inherited instead of what it states (rename='snake' under a "
                   "camel-case base: the names stay camel-case)")
    return r


# ---------------------------------------------------------------------------- C19: reading and writing are not memoised


def rule_io_not_memoised(model: Model, rule_id: str = 'C19-R9') -> RuleResult:
    """Every read builds a new value from the text it is given *now*: an entry point wrapped in a memoiser would need hashable arguments
    (streams, handler mappings are not), would serve a file's old contents after it has been rewritten, and would hand out one shared
    (mutable) object for equal documents."""
    from .memo import memoised
    r = RuleResult(rule_id, 'no reading / writing entry point (pane.io, the dataclass from_* / write_* methods) is wrapped in a memoiser', floor=8)
    memo = {f.qualname: kind for (f, kind, _kf, _d) in memoised(model)}
    io = model.module('pane.io')
    entries = [f for f in model.all_functions() if f.module is io and f.parent is None and f.cls is None]
    base = model.cls('pane.classes.PaneBase')
    entries += [g for nm, g in base.methods.items() if re.match(r'(from|write|into)_(json|yaml|yaml_all|data|dict|obj)', nm)]
    for f in sorted(entries, key=lambda f: f.qualname):
        r.instances += 1
        r.analysed.add(f.qualname)
        if f.qualname in memo:
            r.fail(f.qualname, f"@{memo[f.qualname].split('.')[-1]} on an I/O entry point", f.loc(),
                   "equal documents give one shared instance, open streams and handler mappings raise TypeError (unhashable), and a path is "
                   "read once however often the file changes")
        else:
            r.ok()
    r.sample({'entry points': len(entries), 'memoised functions of the package': sorted(memo)})
    return r


# ---------------------------------------------------------------------------- C04: error nodes are never compared with ==


def rule_error_nodes_not_compared(model: Model, rule_id: str = 'C04-R8') -> RuleResult:
    """Error nodes are dataclasses whose ``==`` compares the offending *raw input* (``actual``): ``node in nodes`` / ``a == b`` on them
    runs the input's own ``__eq__`` (an array answers with an array whose truth value is ambiguous, Decimal('sNaN') raises)."""
    from .pairs import builds_error_node
    r = RuleResult(rule_id, "the diagnostic pass never compares error nodes by equality (==, in, index, count, remove)", floor=10)
    zone = conversion_zone(model)
    for cls in family(model):
        for f in zone[cls.qualname]:
            if not isinstance(f.node, ast.FunctionDef) or f.qualname in r.analysed:
                continue
            r.analysed.add(f.qualname)
            r.instances += 1
            nodes: t.Set[str] = set()      # locals holding an error node
            lists: t.Set[str] = set()      # locals holding a collection of them
            for _round in range(3):
                for x in walk_no_nested(f.node):
                    if isinstance(x, (ast.Assign, ast.AnnAssign)) and x.value is not None:
                        tgts = x.targets if isinstance(x, ast.Assign) else [x.target]
                        v = x.value
                        made = any((isinstance(c, ast.Call) and isinstance(c.func, ast.Attribute) and c.func.attr == 'collect_errors')
                                   or builds_error_node(model, f, c) for c in ast.walk(v) if isinstance(c, ast.Call)) \
                            or (isinstance(v, ast.Name) and v.id in nodes)
                        coll = isinstance(v, (ast.ListComp, ast.List, ast.Dict, ast.DictComp, ast.GeneratorExp, ast.Tuple))
                        for tg in tgts:
                            if isinstance(tg, ast.Name) and made:
                                (lists if coll else nodes).add(tg.id)
                    if isinstance(x, ast.NamedExpr) and isinstance(x.target, ast.Name) \
                            and any(isinstance(c, ast.Call) and isinstance(c.func, ast.Attribute) and c.func.attr == 'collect_errors' for c in ast.walk(x.value)):
                        nodes.add(x.target.id)
                    if isinstance(x, ast.Call) and isinstance(x.func, ast.Attribute) and x.func.attr in ('append', 'add', 'insert', 'extend') \
                            and isinstance(x.func.value, ast.Name) and x.args:
                        a_ = x.args[-1]
                        if (isinstance(a_, ast.Name) and a_.id in nodes) or any(
                                isinstance(c, ast.Call) and isinstance(c.func, ast.Attribute) and c.func.attr == 'collect_errors' for c in ast.walk(a_)) \
                                or builds_error_node(model, f, a_):
                            lists.add(x.func.value.id)
            bad = None
            for x in walk_no_nested(f.node):
                if isinstance(x, ast.Compare) and len(x.ops) == 1 and isinstance(x.ops[0], (ast.Eq, ast.NotEq, ast.In, ast.NotIn)):
                    l_, r_ = x.left, x.comparators[0]
                    if isinstance(r_, ast.Constant) and r_.value is None or isinstance(l_, ast.Constant) and l_.value is None:
                        continue
                    if isinstance(x.ops[0], (ast.In, ast.NotIn)):
                        if isinstance(l_, ast.Name) and l_.id in nodes and isinstance(r_, ast.Name) and r_.id in lists:
                            bad = x
                    elif any(isinstance(o, ast.Name) and o.id in (nodes | lists) for o in (l_, r_)):
                        bad = x
                if isinstance(x, ast.Call) and isinstance(x.func, ast.Attribute) and x.func.attr in ('index', 'count', 'remove') \
                        and isinstance(x.func.value, ast.Name) and x.func.value.id in lists:
                    bad = x
            if bad is None:
                r.ok()
            else:
                r.fail(f.qualname, f"`{unparse(bad)[:60]}` compares error nodes by value", f.loc(bad),
                       "equality of error nodes compares the raw inputs they carry: for an input whose == does not answer with a Boolean (an "
                       "array) or raises, ValueError / TypeError escapes from the conversion instead of ConvertError")
    return r


# ---------------------------------------------------------------------------- C14 / C03: receivers of field keywords take nothing else by name


def rule_field_keyword_receivers(model: Model, rule_id: str = 'C14-R11') -> RuleResult:
    """The generated constructor, ``make_unchecked`` and ``__replace__`` receive *field names* as keyword arguments.  Their own
    parameters (``self`` / ``cls``) are therefore positional-only: otherwise a field called ``self`` or ``cls`` collides with them
    (``cls(self=1)``: "got multiple values for argument 'self'" - which the diagnostic pass of the mapping layout, building its trial
    instance with ``make_unchecked(**values)``, reports as an error of a value the fast pass accepted)."""
    r = RuleResult(rule_id, "functions that receive field names as keywords take their receiver positional-only", floor=3)
    targets = ['pane.classes._make_init.__init__', 'pane.classes._make_init.make_unchecked', 'pane.classes.PaneBase.__replace__',
               'pane.classes.PaneBase.make_unchecked']
    for q in targets:
        f = model.functions.get(q)
        if f is None:
            continue
        a = f.node.args
        if a.kwarg is None:
            continue
        r.instances += 1
        r.analysed.add(q)
        named = [p.arg for p in a.args + a.kwonlyargs]
        r.sample({q: {'positional-only': [p.arg for p in a.posonlyargs], 'may be given by name': named, '**': a.kwarg.arg}})
        if not named:
            r.ok()
        else:
            r.fail(q, f"parameter `{named[0]}` can be bound by keyword next to **{a.kwarg.arg}", f.loc(),
                   f"a field named {named[0]!r} cannot be passed: the constructor raises TypeError (multiple values), and for mapping data "
                   "the quick pass accepts what the diagnostic pass then reports as an error")
    if r.instances < 3:
        raise AnalysisError('generated constructor / make_unchecked / __replace__ not found')
    return r


# ---------------------------------------------------------------------------- C04 / C13: a predicate need not have a __name__


def rule_callable_name_has_fallback(model: Model, rule_id: str = 'C04-R9') -> RuleResult:
    """Attributes declared as ``Callable`` hold whatever the user passed: a ``functools.partial``, a callable instance or a bound
    builtin has no ``__name__``.  Reading it without a fallback makes *building the converter* of a documented annotation fail with
    AttributeError."""
    r = RuleResult(rule_id, "the __name__ of a user-supplied callable is only read with a fallback (getattr(f, '__name__', ...))", floor=1)
    for q, ci in sorted(model.classes.items()):
        if not q.startswith('pane.'):
            continue
        callables = set()
        for st in ci.node.body:
            if isinstance(st, ast.AnnAssign) and isinstance(st.target, ast.Name) and 'Callable' in unparse(st.annotation) \
                    and 'Optional' not in unparse(st.annotation):
                callables.add(st.target.id)
        for g in ci.methods.values():
            if not isinstance(g.node, ast.FunctionDef) or not g.params:
                continue
            # constructor parameters declared Callable and stored on self count as well
            me = g.params[0]
            for x in ast.walk(g.node):
                if isinstance(x, ast.Attribute) and x.attr == '__name__' and isinstance(x.value, ast.Attribute) \
                        and unparse(x.value.value) == me and x.value.attr in callables:
                    r.instances += 1
                    r.analysed.add(g.qualname)
                    r.fail(g.qualname, f"`{unparse(x)}` without a fallback", g.loc(x),
                           "a condition built on functools.partial(...), on a callable object or on a bound builtin method makes "
                           "make_converter(Annotated[T, cond]) raise AttributeError (building a converter for a documented type never fails)")
                # the text of a callable's repr holds its address: a name built from it differs from run to run
                shown = None
                if isinstance(x, ast.Call) and isinstance(x.func, ast.Name) and x.func.id in ('repr', 'str', 'format') and x.args:
                    shown = x.args[0]
                elif isinstance(x, ast.FormattedValue):
                    shown = x.value
                if shown is not None and isinstance(shown, ast.Attribute) and unparse(shown.value) == me and shown.attr in callables:
                    r.instances += 1
                    r.analysed.add(g.qualname)
                    r.fail(g.qualname, f"`{unparse(x)[:50]}` puts the repr of a callable into a name", g.loc(x),
                           "the repr of a function / partial / bound method contains a memory address: the condition's name, and every "
                           "error message that mentions it, differs between runs (rendering is to be deterministic)")
                if isinstance(x, ast.Call) and isinstance(x.func, ast.Name) and x.func.id == 'getattr' and len(x.args) >= 2 \
                        and isinstance(x.args[1], ast.Constant) and x.args[1].value == '__name__' and isinstance(x.args[0], ast.Attribute) \
                        and unparse(x.args[0].value) == me and x.args[0].attr in callables:
                    r.instances += 1
                    r.analysed.add(g.qualname)
                    if len(x.args) == 3:
                        r.ok()
                    else:
                        r.fail(g.qualname, f"`{unparse(x)}` without a default", g.loc(x), "getattr without a default raises like the attribute read")
    if r.instances == 0:
        r.instances += 1
        r.ok()
        r.sample({'reads of <callable>.__name__': 0})
    return r


# ---------------------------------------------------------------------------- C16: the set-field record holds fields; replace passes init fields


def rule_record_holds_fields(model: Model, rule_id: str = 'C16-R9') -> RuleResult:
    """``PaneBase.__setattr__`` records a name as "set" only when it names a field (``dict(set_only=True)`` and copies read every
    recorded name back with getattr / as a field), and ``__replace__`` hands the constructor only fields the constructor takes."""
    r = RuleResult(rule_id, "__setattr__ records field names only; __replace__ passes only init fields to the constructor", floor=2)
    sa = model.func('pane.classes.PaneBase.__setattr__')
    r.analysed.add(sa.qualname)
    name_p = sa.params[1]
    adds = [c for c in walk_no_nested(sa.node) if isinstance(c, ast.Call) and isinstance(c.func, ast.Attribute) and c.func.attr == 'add'
            and c.args and unparse(c.args[0]) == name_p]
    for c in adds:
        r.instances += 1
        gov = _site_conditions(model, sa, c)
        guards = [text for (_g, text, truth) in gov if 'frozen' not in text and
                  (re.search(r'fields|field_names', text) or re.search(rf'\$?{name_p}\b', text))]
        # syntactic: an enclosing `if` whose test mentions the fields of the class record
        for anc in ancestors(c):
            if isinstance(anc, ast.If) and (re.search(r'fields|field_names', unparse(anc.test))
                                            or any(isinstance(nm, ast.Name) and nm.id == name_p for nm in ast.walk(anc.test))) \
                    and any(x is c for s_ in anc.body for x in ast.walk(s_)):
                guards.append(unparse(anc.test)[:80])
        r.sample({'record update': unparse(c), 'only for fields': guards})
        if guards:
            r.ok()
        else:
            r.fail(sa.qualname, f"`{unparse(c)}` records any attribute name", sa.loc(c),
                   "m.foo = 3 on a mutable instance puts 'foo' into the record of set fields: dict(set_only=True) lists a non-field, and a "
                   "copy (which carries the record but only the fields) raises AttributeError from dict(set_only=True)")
    if not adds:
        raise AnalysisError('PaneBase.__setattr__: record update not found')
    rp = model.func('pane.classes.PaneBase.__replace__')
    r.analysed.add(rp.qualname)
    r.instances += 1
    comps = [x for x in ast.walk(rp.node) if isinstance(x, (ast.DictComp, ast.GeneratorExp, ast.ListComp)) and 'fields' in unparse(x.generators[0].iter)]
    ok = any(re.search(r'\.init\b', unparse(c_)) for x in comps for g_ in x.generators for c_ in g_.ifs)
    # or a loop with an `if not field.init: continue`
    ok = ok or any(isinstance(x, ast.If) and re.search(r'\.init\b', unparse(x.test)) for x in ast.walk(rp.node))
    r.sample({'__replace__ collects': [unparse(x)[:100] for x in comps], 'init fields only': ok})
    if ok:
        r.ok()
    else:
        r.fail(rp.qualname, "every set field is passed to the constructor, init=False ones included", rp.loc(),
               "after m.z = 5 on an init=False field, m.__replace__(x=2) raises TypeError (unexpected keyword argument 'z')")
    return r


# ---------------------------------------------------------------------------- C12: the internal layout writes the key it reads


def rule_internal_layout_writes_tag_key(model: Model, rule_id: str = 'C12-R9') -> RuleResult:
    """Reading the internal layout pops the key ``self.tag`` from the mapping.  The writer cannot leave that key to the variant: a variant
    that renames its fields (``rename='pascal'``: 'Kind'), excludes the tag field or gives it another output name writes no such key, and
    the output cannot be read back.  So the writer adds ``{self.tag: tag}`` itself in the internal arm."""
    r = RuleResult(rule_id, "in the internal layout the writer itself writes the tag under the key the reader pops", floor=1)
    f = model.func('pane.converters.TaggedUnionConverter.into_data')
    r.analysed.add(f.qualname)
    me = f.params[0]
    r.instances += 1
    hits = []
    cfg = cfg_of(model, f)
    nz = Normalizer(model, f, cfg)

    def is_tag_key(k: t.Optional[ast.AST], at: ast.AST) -> bool:
        if k is None:
            return False
        if unparse(k) == f'{me}.tag':
            return True
        n_ = cfg.node_of(at)
        try:
            return n_ is not None and nz.expr(k, n_) == f'{me}.tag'
        except AnalysisError:
            return False

    for d in ast.walk(f.node):
        keyed = False
        if isinstance(d, ast.Dict):
            keyed = any(is_tag_key(k, d) for k in d.keys)
        elif isinstance(d, ast.Assign) and len(d.targets) == 1 and isinstance(d.targets[0], ast.Subscript):
            keyed = is_tag_key(d.targets[0].slice, d.value)
            d = d.value
        elif isinstance(d, ast.Call) and isinstance(d.func, ast.Attribute) and d.func.attr == 'setdefault' and d.args:
            keyed = is_tag_key(d.args[0], d)
        elif isinstance(d, ast.DictComp):
            keyed = False
        if not keyed:
            continue
        gov = _site_conditions(model, f, d)
        internal = any((truth and re.fullmatch(rf'(False is {me}\.external|{me}\.external is False)', text))
                       or (not truth and re.fullmatch(rf'(TRUTHY\({me}\.external\)|{me}\.external)', text)) for (_g, text, truth) in gov)
        hits.append((unparse(d)[:70], internal))
    # what the reader pops
    tc = model.func('pane.converters.TaggedUnionConverter.try_convert')
    pops = [unparse(c) for c in ast.walk(tc.node) if isinstance(c, ast.Call) and isinstance(c.func, ast.Attribute) and c.func.attr == 'pop'
            and c.args and unparse(c.args[0]) == f'{tc.params[0]}.tag']
    if not pops:
        raise AnalysisError('TaggedUnionConverter.try_convert: the internal layout no longer pops self.tag')
    r.sample({'reader': pops, 'writer displays with the key self.tag': hits})
    if any(internal for (_t, internal) in hits):
        r.ok()
    else:
        r.fail(f.qualname, "the internal layout returns the variant's own output and never adds the key self.tag", f.loc(),
               "for variants whose tag field is renamed, excluded or has another output name the written mapping has no key `tag`: "
               "from_data(into_data(x, T), T) raises ConvertError (expected mapping with key ...)")
    return r


# ---------------------------------------------------------------------------- C14 / C18: the constructor converts like the data path


def rule_constructor_uses_field_converters(model: Model, rule_id: str = 'C14-R12') -> RuleResult:
    """The data path converts a field with ``field.converter`` if given, else with the converter of the field's type built under the
    class's handlers (``PaneConverter.__init__``).  ``Cls(x)`` is documented to convert each argument as ``from_data`` would: the checked
    constructor has to consult the same two things."""
    r = RuleResult(rule_id, "the checked constructor converts a supplied argument with the field's own converter / the class's handlers, as the "
                            "data path does", floor=1)
    init = model.func('pane.classes._make_init.__init__')
    r.analysed.add(init.qualname)
    pc = model.func('pane.classes.PaneConverter.__init__')
    data_path = {'field converter': any(isinstance(x, ast.Attribute) and x.attr == 'converter' for x in ast.walk(pc.node)),
                 'class handlers': any(isinstance(x, ast.Attribute) and x.attr == 'class_handlers' for x in ast.walk(pc.node))}
    if not all(data_path.values()):
        raise AnalysisError(f'PaneConverter.__init__: data path no longer consults {[k for k, v in data_path.items() if not v]}')
    sites = []
    for x in walk_no_nested(init.node):
        if isinstance(x, ast.Assign) and isinstance(x.value, ast.Call) and len(x.targets) == 1 and isinstance(x.targets[0], ast.Name):
            c = x.value
            if any(isinstance(a_, ast.Name) and a_.id == x.targets[0].id for a_ in c.args) and \
                    any(truth and 'checked' in text for (_g, text, truth) in _site_conditions(model, init, c)):
                sites.append(c)
    if not sites:
        raise AnalysisError('_make_init.__init__: the conversion of a supplied argument was not found')
    for c in sites:
        r.instances += 1
        text = unparse(c)
        # through a helper of the module: look into it as well
        q = model.resolve(c.func, init.module, init)
        g = model.functions.get(q or '')
        if g is not None and g.module.name == 'pane.classes':
            text += ' ' + unparse(g.node)
        uses = {'field converter': bool(re.search(r'\.converter\b|field_converters', text)),
                'class handlers': bool(re.search(r'class_handlers|field_converters|custom=', text))}
        r.sample({'conversion': unparse(c)[:80], 'consults': uses})
        if all(uses.values()):
            r.ok()
        else:
            r.fail(init.qualname, "a supplied argument is converted by the field's type alone", init.loc(c),
                   "Cls(5) and Cls.from_data({'x': 5}) differ for a field declared with field(converter=...) or in a class with custom= "
                   "handlers: the constructor ignores both")
    return r


# ---------------------------------------------------------------------------- C17: bindings of one base stay with that base's fields


def rule_bindings_scoped_to_base(model: Model, rule_id: str = 'C17-R16') -> RuleResult:
    """``class C(A[int], B)``: walking the MRO, the bindings of ``A[int]`` (T -> int) belong to the fields ``A[int]`` declares or
    inherits.  Applied to every field collected so far they also rewrite the fields of ``B`` (which uses the same variable name T for
    something unrelated) because ``B`` comes later in the MRO."""
    r = RuleResult(rule_id, "in the MRO walk a base's type-variable bindings are applied only to the fields of that base's own ancestry", floor=1)
    f = model.func('pane.classes._process')
    r.analysed.add(f.qualname)
    loops = [x for x in ast.walk(f.node) if isinstance(x, ast.For) and '__mro__' in unparse(x.iter) and isinstance(x.target, ast.Name)]
    if not loops:
        raise AnalysisError('_process: the walk over the MRO was not found')
    for loop in loops:
        sites: t.List[t.Tuple[ast.Call, str, ast.AST]] = []      # (substitution, name of the base there, root of the search for tests)
        for st in loop.body:
            for c in ast.walk(st):
                if not isinstance(c, ast.Call):
                    continue
                if isinstance(c.func, ast.Attribute) and c.func.attr == 'replace_typevars':
                    sites.append((c, loop.target.id, loop))
                    continue
                # a helper of the module that is handed the base: the substitution may live there
                g = model.functions.get(model.resolve(c.func, f.module, f) or '')
                if g is not None and g.module is f.module and isinstance(g.node, ast.FunctionDef):
                    gparams = [a_.arg for a_ in g.node.args.posonlyargs + g.node.args.args]
                    bname = None
                    for i_, a_ in enumerate(c.args):
                        if isinstance(a_, ast.Name) and a_.id == loop.target.id and i_ < len(gparams):
                            bname = gparams[i_]
                    for k_ in c.keywords:
                        if isinstance(k_.value, ast.Name) and k_.value.id == loop.target.id and k_.arg:
                            bname = k_.arg
                    for c2 in ast.walk(g.node):
                        if isinstance(c2, ast.Call) and isinstance(c2.func, ast.Attribute) and c2.func.attr == 'replace_typevars':
                            sites.append((c2, bname or '\0', g.node))
        for (c, base, root) in sites:
            r.instances += 1
            scoped = None
            child: ast.AST = c
            for anc in ancestors(c):
                if anc is root:
                    break
                tests: t.List[ast.AST] = []
                if isinstance(anc, ast.IfExp) and child is anc.body:
                    tests.append(anc.test)
                if isinstance(anc, (ast.DictComp, ast.ListComp, ast.GeneratorExp, ast.SetComp)):
                    tests += [i_ for g_ in anc.generators for i_ in g_.ifs]
                if isinstance(anc, ast.If) and any(x is child for x in anc.body):
                    tests.append(anc.test)
                for t_ in tests:
                    if any(isinstance(nm, ast.Name) and nm.id == base for nm in ast.walk(t_)):
                        scoped = unparse(t_)[:80]
                child = anc
            # ... or applied to the base's own, already merged, field list only (getattr(base, PANE_INFO).specs / .fields)
            dom = next((anc for anc in ancestors(c) if isinstance(anc, (ast.DictComp, ast.ListComp, ast.GeneratorExp))), None)
            if scoped is None and dom is not None and re.search(rf'\b{base}\b', unparse(dom.generators[0].iter)):
                scoped = f'iterates {unparse(dom.generators[0].iter)[:60]}'
            r.sample({'substitution': unparse(c)[:60], 'restricted by': scoped})
            if scoped:
                r.ok()
            else:
                r.fail(f.qualname, f"`{unparse(c)[:50]}` is applied to every field collected so far", f.loc(c),
                       "class C(A[int], B) with A and B generic in the same variable: the field of B is typed int as well (B comes later in "
                       "the MRO, so its fields are already collected when A[int]'s bindings are applied)")
    if r.instances == 0:
        raise AnalysisError('_process: no type-variable substitution inside the MRO walk')
    return r


def rule_parameters_from_all_bases(model: Model, rule_id: str = 'C17-R17') -> RuleResult:
    """``class D(A[T], B[U])``: the parameters D inherits are the free variables of *all* its bases.  ``getattr(cls, '__parameters__')``
    finds the attribute of the first base in the MRO that has one, i.e. (T,) only: ``D[int, str]`` fails, U can never be bound."""
    r = RuleResult(rule_id, "the inherited type parameters of a new class are gathered from every base", floor=1)
    f = model.func('pane.classes.PaneBase.__init_subclass__')
    r.analysed.add(f.qualname)
    r.instances += 1
    sup = next((x for x in ast.walk(f.node) if isinstance(x, ast.Call) and isinstance(x.func, ast.Attribute)
                and x.func.attr == '__init_subclass__'), None)
    if sup is None:
        raise AnalysisError('__init_subclass__: super().__init_subclass__() not found')
    before: t.List[ast.AST] = [st for st in f.node.body if st.end_lineno is not None and st.end_lineno < sup.lineno]
    for st in list(before):
        for c in ast.walk(st):
            if isinstance(c, ast.Call):
                g = model.functions.get(model.resolve(c.func, f.module, f) or '')
                if g is not None and g.module is f.module and isinstance(g.node, ast.FunctionDef):
                    before.append(g.node)       # an extracted `_inherited_parameters(cls)`
    over_bases = [unparse(x.iter)[:50] for st in before for x in ast.walk(st)
                  if isinstance(x, (ast.For, ast.comprehension)) and re.search(r'__bases__|__orig_bases__|__mro__', unparse(x.iter))]
    reads = [unparse(x)[:60] for st in before for x in ast.walk(st)
             if (isinstance(x, ast.Call) and isinstance(x.func, ast.Name) and x.func.id == 'getattr' and len(x.args) >= 2
                 and isinstance(x.args[1], ast.Constant) and x.args[1].value == '__parameters__')
             or (isinstance(x, ast.Attribute) and x.attr == '__parameters__')]
    r.sample({'reads of __parameters__ before typing runs': reads, 'iterates over the bases': over_bases})
    if over_bases:
        r.ok()
    else:
        r.fail(f.qualname, "the inherited parameters are read by attribute lookup on the new class only", f.loc(),
               "attribute lookup stops at the first base that has __parameters__: class D(A[T], B[U]) gets (T,), D[int, str] raises "
               "'Too many arguments' and U can never be bound")
    return r


# ============================================================================ round 8


def rule_conversion_result_used(model: Model, rule_id: str = 'C01-R6') -> RuleResult:
    """``conv.try_convert(v)`` / ``conv.convert(v)`` as a statement of its own throws the converted value away: whatever follows works on
    the raw input (a lookup keyed by a list where the converted tuple is the key)."""
    r = RuleResult(rule_id, "the result of a delegated conversion is never discarded", floor=1)
    n_funcs = 0
    for cq, fs in sorted(conversion_zone(model).items()):
        for f in fs:
            if not isinstance(f.node, ast.FunctionDef) or f.qualname in r.analysed:
                continue
            r.analysed.add(f.qualname)
            n_funcs += 1
            for st in ast.walk(f.node):
                if isinstance(st, ast.Expr) and isinstance(st.value, ast.Call) and isinstance(st.value.func, ast.Attribute) \
                        and st.value.func.attr in ('try_convert', 'convert') and st.value.args:
                    r.instances += 1
                    r.fail(f.qualname, f"`{unparse(st)[:60]}` discards the converted value", f.loc(st),
                           "the inner converter is only asked whether the value is acceptable; the raw input (a list read from JSON / YAML where "
                           "the converted tuple is meant) is then used in its place")
    r.instances += 1
    r.sample({'functions scanned': n_funcs})
    r.ok()
    return r


def rule_no_printf_exception_args(model: Model, rule_id: str = 'C08-R13') -> RuleResult:
    """``raise ValueError("... %d ...", a, b)`` (logging style) leaves the template unformatted in ``args[0]``: messages built from
    ``e.args[0]`` or ``str(e)`` show placeholders instead of the values."""
    r = RuleResult(rule_id, "no exception is raised with a printf-style template and separate arguments", floor=1)
    n = 0
    for f in model.all_functions():
        if not isinstance(f.node, ast.FunctionDef) or not f.module.name.startswith('pane.'):
            continue
        for st in walk_no_nested(f.node):
            if isinstance(st, ast.Raise) and isinstance(st.exc, ast.Call):
                n += 1
                a = st.exc.args
                if len(a) >= 2 and isinstance(a[0], ast.Constant) and isinstance(a[0].value, str) and re.search(r'%[sdrif]|\{\}', a[0].value):
                    r.instances += 1
                    r.analysed.add(f.qualname)
                    r.fail(f.qualname, f"`{unparse(st)[:70]}`", f.loc(st),
                           "the message is never formatted: the error text read from the exception (args[0]) is the bare template")
    r.instances += 1
    r.sample({'raise statements scanned': n})
    r.ok()
    return r


THIRD_PARTY_REGISTRARS = {'add_implicit_resolver', 'add_constructor', 'add_representer', 'add_multi_constructor', 'add_multi_representer',
                          'add_path_resolver', 'register', 'register_error', 'setrecursionlimit', 'setlocale', 'simplefilter', 'filterwarnings',
                          'set_int_max_str_digits'}


def rule_no_third_party_state(model: Model, rule_id: str = 'C10-R17') -> RuleResult:
    """Registering resolvers / constructors on PyYAML's shared loader classes (or any other process-wide registry of an imported
    module) changes what *other* calls parse, from then on: the outcome of a read depends on which reads happened before."""
    r = RuleResult(rule_id, "no function changes process-wide state of an imported library (loader registries, global settings)", floor=1)
    n = 0
    for f in model.all_functions():
        if not isinstance(f.node, ast.FunctionDef) or not f.module.name.startswith('pane.'):
            continue
        n += 1
        imported = set(f.local_imports) | set(f.module.imports)
        # locals bound to an imported class (Loader = yaml.SafeLoader) count as imported
        for x in ast.walk(f.node):
            if isinstance(x, ast.Assign) and len(x.targets) == 1 and isinstance(x.targets[0], ast.Name):
                root = x.value
                while isinstance(root, ast.Attribute):
                    root = root.value
                if isinstance(root, ast.Name) and root.id in imported:
                    imported.add(x.targets[0].id)
        for x in walk_no_nested(f.node):
            if isinstance(x, ast.Call) and isinstance(x.func, ast.Attribute) and x.func.attr in THIRD_PARTY_REGISTRARS:
                root = x.func.value
                while isinstance(root, ast.Attribute):
                    root = root.value
                q = model.resolve(x.func.value, f.module, f) if isinstance(x.func.value, (ast.Name, ast.Attribute)) else None
                if isinstance(root, ast.Name) and root.id in imported and not (q or '').startswith('pane.') \
                        and not (q or '').startswith(('functools', 'abc.', 'atexit')):
                    r.instances += 1
                    r.analysed.add(f.qualname)
                    r.fail(f.qualname, f"`{unparse(x)[:70]}`", f.loc(x),
                           "a registry shared by the whole process is changed on a call: the same text is parsed differently by other entry "
                           "points (and by other libraries) before and after the first such call")
    r.instances += 1
    r.sample({'functions scanned': n})
    r.ok()
    return r


def rule_errors_render_lazily(model: Model, rule_id: str = 'C04-R10') -> RuleResult:
    """Constructing ``ConvertError`` or an error node formats nothing: values that cannot be printed (an int of 5000 digits, a list
    nested a thousand deep) would otherwise make *raising the error* fail with ValueError / RecursionError - also for inner errors the
    diagnostic pass builds and throws away."""
    r = RuleResult(rule_id, "constructing ConvertError / an error node renders nothing (text is produced by __str__ / print_error only)", floor=1)
    mod = model.module('pane.errors')
    for ci in model.classes.values():
        if ci.module is not mod:
            continue
        for nm in ('__init__', '__post_init__', '__new__'):
            g = ci.methods.get(nm)
            if g is None or not isinstance(g.node, ast.FunctionDef):
                continue
            r.instances += 1
            r.analysed.add(g.qualname)
            bad = None
            for x in ast.walk(g.node):
                if isinstance(x, ast.Call) and isinstance(x.func, ast.Name) and x.func.id in ('str', 'repr', 'format', 'print') and x.args:
                    bad = x
                if isinstance(x, ast.Call) and isinstance(x.func, ast.Attribute) and x.func.attr in ('print_error', '__str__', 'format', '__repr__'):
                    bad = x
                if isinstance(x, ast.JoinedStr) and any(isinstance(v, ast.FormattedValue) for v in x.values):
                    bad = x
            r.sample({g.qualname: unparse(bad)[:60] if bad is not None else 'renders nothing'})
            if bad is None:
                r.ok()
            else:
                r.fail(g.qualname, f"`{unparse(bad)[:60]}` while the error is being constructed", g.loc(bad),
                       "an offending value that cannot be formatted makes the conversion raise ValueError / RecursionError instead of ConvertError")
    if r.instances == 0:
        raise AnalysisError('pane.errors: no error constructor found')
    return r


def rule_no_instance_dict_writes(model: Model, rule_id: str = 'C14-R13') -> RuleResult:
    """Fields are stored with ``object.__setattr__``, which honours ``__slots__`` and descriptors.  Writing into ``vars(self)`` /
    ``self.__dict__`` fails for slotted classes (supported: the class may declare ``__slots__``) and hides values behind slot descriptors."""
    r = RuleResult(rule_id, "the dataclass machinery never writes into an instance's __dict__ directly", floor=1)
    mod = model.module('pane.classes')
    n = 0
    for f in model.all_functions():
        if f.module is not mod or not isinstance(f.node, ast.FunctionDef):
            continue
        n += 1
        for x in walk_no_nested(f.node):
            tgt = None
            if isinstance(x, ast.Call) and isinstance(x.func, ast.Attribute) and x.func.attr in ('update', 'setdefault', '__setitem__', 'pop', 'clear'):
                tgt = x.func.value
            elif isinstance(x, (ast.Assign, ast.AugAssign)):
                tgts = x.targets if isinstance(x, ast.Assign) else [x.target]
                for tg in tgts:
                    if isinstance(tg, ast.Subscript):
                        tgt = tg.value
            if tgt is None:
                continue
            if (isinstance(tgt, ast.Call) and isinstance(tgt.func, ast.Name) and tgt.func.id == 'vars' and tgt.args
                    and isinstance(tgt.args[0], ast.Name) and tgt.args[0].id in ('self', 'obj', 'inst', 'instance')) \
                    or (isinstance(tgt, ast.Attribute) and tgt.attr == '__dict__' and isinstance(tgt.value, ast.Name)
                        and tgt.value.id in ('self', 'obj', 'inst', 'instance')):
                r.instances += 1
                r.analysed.add(f.qualname)
                r.fail(f.qualname, f"`{unparse(x)[:70]}`", f.loc(x),
                       "a class that keeps its fields in __slots__ has no instance dictionary: construction from mapping data raises (taken "
                       "for a failing __post_init__), or the value lands where the slot descriptor hides it")
    r.instances += 1
    r.sample({'functions scanned': n})
    r.ok()
    return r


def rule_tagged_variants_unchanged(model: Model, rule_id: str = 'C13-R10') -> RuleResult:
    """``TaggedUnionConverter.__init__`` hands the variant types it was given to ``UnionConverter.__init__`` as they are: a variant
    written ``Annotated[A, cond]`` keeps its condition (the tag may be *looked up* on the class inside, the converter is built from the
    annotated type)."""
    r = RuleResult(rule_id, "the tagged union builds its variant converters from the variant types as declared (annotations kept)", floor=1)
    f = model.func('pane.converters.TaggedUnionConverter.__init__')
    cfg = cfg_of(model, f)
    nz = Normalizer(model, f, cfg)
    r.analysed.add(f.qualname)
    tp = f.params[1]
    sup = [(c, n) for n in cfg.live_nodes() for root in node_exprs(n) for c in walk_no_nested(root)
           if isinstance(c, ast.Call) and unparse(c.func) == 'super().__init__']
    if not sup:
        raise AnalysisError('TaggedUnionConverter.__init__: super().__init__ not found')
    for c, n in sup:
        r.instances += 1
        form = nz.expr(c.args[0], n) if c.args else None
        r.sample({'variant types handed on': form})
        if form == f'${tp}':
            r.ok()
        else:
            r.fail(f.qualname, f"super().__init__({str(form)[:60]}, ...)", f.loc(c),
                   "the variant converters are built from something else than the declared variant types: conditions (and any other "
                   "annotation) attached to a variant are dropped")
    return r


def rule_condition_wraps_inner_as_given(model: Model, rule_id: str = 'C11-R12') -> RuleResult:
    """``Condition._converter(inner_type)`` wraps *one* conditional converter around the inner type it is given.  Distributing the
    condition over the members of a union turns "the left-most accepting member, then the condition" into "the left-most member whose
    result passes the condition"."""
    r = RuleResult(rule_id, "a condition wraps the inner type as a whole (it is not distributed over union members)", floor=1)
    f = model.func('pane.annotations.Condition._converter')
    cfg = cfg_of(model, f)
    nz = Normalizer(model, f, cfg, param_map=_pm(f))
    r.analysed.add(f.qualname)
    inner = f.params[1]
    from ..cfg import returned_values
    for (e, n) in returned_values(cfg):
        r.instances += 1
        form = nz.expr(e, n)
        r.sample({'returns': form[:120]})
        if re.match(r'^pane\.converters\.ConditionalConverter\(\$%s, ' % re.escape(inner), form):
            r.ok()
        else:
            r.fail(f.qualname, f"returns {form[:80]}", f.loc(e),
                   "the condition is not applied to the result of the inner type as a whole: for a union the member is no longer the "
                   "left-most one that accepts the value")
    others = [x for x in ast.walk(f.node) if isinstance(x, ast.Call) and re.search(r'get_origin|get_args|UnionConverter', unparse(x.func))]
    if others:
        r.instances += 1
        r.fail(f.qualname, f"`{unparse(others[0])[:60]}` inspects the inner type", f.loc(others[0]),
               "a condition has no business looking inside the type it restricts")
    return r


INTERCHANGE_SCALARS = {'str', 'bytes', 'int', 'bool', 'float', 'complex'}


def rule_scalar_rows_write_interchange(model: Model, rule_id: str = 'C05-R13') -> RuleResult:
    """Every ``ScalarConverter`` row of the built-in table names the interchange scalar class its values are written as (``str`` for a
    string - also for an instance of a ``str`` subclass, which the YAML dumper refuses -, ``bytes`` for a bytearray ...).  A row without
    one writes the typed value as it is: ``bytearray`` and subclasses of ``str`` / ``bytes`` are not interchange values."""
    r = RuleResult(rule_id, "every row of the scalar table writes its values as one of the interchange scalar classes", floor=8)
    mod = model.module('pane.converters')
    table = mod.assign_values.get('_BASIC_CONVERTERS')
    if not isinstance(table, ast.Dict):
        raise AnalysisError('pane.converters._BASIC_CONVERTERS is not a dictionary display')
    sc = model.cls('pane.converters.ScalarConverter')
    fields = [st.target.id for st in sc.node.body if isinstance(st, ast.AnnAssign) and isinstance(st.target, ast.Name)]
    if '_into_data_f' not in fields:
        raise AnalysisError('ScalarConverter has no _into_data_f field')
    pos = fields.index('_into_data_f')
    for k, v in zip(table.keys, table.values):
        if not (isinstance(v, ast.Call) and unparse(v.func) == 'ScalarConverter'):
            continue
        r.instances += 1
        w = v.args[pos] if len(v.args) > pos else next((kw.value for kw in v.keywords if kw.arg == '_into_data_f'), None)
        ws = unparse(w) if w is not None else None
        r.sample({unparse(k) if k is not None else '**': ws})
        if ws in INTERCHANGE_SCALARS:
            r.ok()
        else:
            r.fail(f"pane.converters._BASIC_CONVERTERS[{unparse(k) if k is not None else '**'}]", f"written with {ws or 'no normaliser (the value itself)'}",
                   f"{mod.relpath}:{v.lineno}",
                   "into_data hands out something that is not an interchange scalar (a bytearray, an instance of a str / bytes subclass): "
                   "write_yaml refuses it (RepresenterError) and the output is not 'solely interchange values'")
    return r


def rule_broadcast_fallback(model: Model, rule_id: str = 'C13-R11') -> RuleResult:
    """The library's own ``broadcast_shapes`` (used when numpy is not installed) follows numpy's rule: along an axis, the lengths other
    than 1 must agree, and the result is that length - which may be 0.  Taking ``max()`` of all lengths picks 1 over 0: (1, 3) against
    (0, 3) is then refused although it broadcasts to (0, 3)."""
    r = RuleResult(rule_id, "the fallback of broadcast_shapes computes an axis from the lengths other than 1 (never max() of all lengths)", floor=1)
    f = model.func('pane.util.broadcast_shapes')
    r.analysed.add(f.qualname)
    r.instances += 1
    loops = [x for x in ast.walk(f.node) if isinstance(x, ast.For)]
    if not loops:
        # no implementation of its own left: numpy is required, nothing to check
        r.sample({'fallback': 'none'})
        r.ok()
        return r
    lp = loops[0]
    tgt = unparse(lp.target)
    unfiltered = [x for x in ast.walk(lp) if isinstance(x, ast.Call) and isinstance(x.func, ast.Name) and x.func.id in ('max', 'min')
                  and x.args and unparse(x.args[0]) == tgt]
    excludes_one = any((isinstance(x, ast.Compare) and any(isinstance(c, ast.Constant) and c.value == 1 for c in [x.left] + x.comparators)
                        and any(isinstance(o, (ast.NotEq, ast.Eq, ast.Gt)) for o in x.ops))
                       or (isinstance(x, ast.BinOp) and isinstance(x.op, ast.Sub) and '1' in unparse(x.right))
                       or (isinstance(x, ast.Call) and isinstance(x.func, ast.Attribute) and x.func.attr in ('discard', 'remove', 'difference')
                           and x.args and '1' in unparse(x.args[0]))
                       for x in ast.walk(lp))
    r.sample({'max()/min() over all lengths of an axis': [unparse(x) for x in unfiltered], 'lengths of 1 set aside': excludes_one})
    if unfiltered or not excludes_one:
        x = unfiltered[0] if unfiltered else lp
        r.fail(f.qualname, f"`{unparse(x)[:50]}` decides the length of an axis", f.loc(x),
               "without numpy, broadcastable((0, 3)) refuses shapes (1, 3), (3,) and () - which numpy broadcasts to an empty batch")
    else:
        r.ok()
    return r


def rule_explicit_hash_predicate(model: Model, rule_id: str = 'C16-R10') -> RuleResult:
    """"Has an explicit ``__hash__``" is the standard library's predicate: ``__hash__`` is in the class namespace, and it is not the
    ``None`` that Python itself puts there next to a hand-written ``__eq__``.  An explicit ``__hash__ = None`` (no ``__eq__`` in the
    body) *is* explicit: it is kept, and refused together with ``unsafe_hash=True``."""
    r = RuleResult(rule_id, "the explicit-__hash__ test is the standard library's (namespace entry present; None only counts as implicit next to an __eq__)", floor=1)
    f = model.func('pane.classes._maybe_make_hash')
    cfg = cfg_of(model, f)
    nz = Normalizer(model, f, cfg, param_map=_pm(f))
    r.analysed.add(f.qualname)
    r.instances += 1
    # the fourth component of the key the rule table is indexed with
    key = None
    def is_key(elts: t.Sequence[ast.AST]) -> bool:
        return len(elts) == 4 and all(w_ in unparse(e_) for w_, e_ in zip(('unsafe_hash', 'eq', 'frozen'), elts))
    for n in cfg.live_nodes():
        for root in node_exprs(n):
            for x in walk_no_nested(root):
                # the key of the rule table, wherever it is written: subscript, local tuple, arguments of a selector helper
                if isinstance(x, ast.Tuple) and is_key(x.elts):
                    key = nz.expr(x.elts[3], n)
                if isinstance(x, ast.Call) and is_key(x.args):
                    key = nz.expr(x.args[3], n)
    if key is None:
        raise AnalysisError('_maybe_make_hash: the rule-table key (unsafe_hash, eq, frozen, explicit hash) was not found')
    h = r"\$?cls\.__dict__\.get\('__hash__', pane\.\w+\._MISSING\)"
    miss = rf"(?:{h} is pane\.\w+\._MISSING|pane\.\w+\._MISSING is {h})"
    none = rf"(?:{h} is None|None is {h})"
    eqin = r"'__eq__' in \$?cls\.__dict__"
    want = [rf"not \({miss} or \({none} and {eqin}\)\)", rf"\(not {miss} and not \({none} and {eqin}\)\)",
            rf"\(not {miss} and \(not {none} or not {eqin}\)\)", rf"not \({miss} or {none} and {eqin}\)"]
    r.sample({'explicit hash': key})
    if any(re.fullmatch(w, key) for w in want):
        r.ok()
    else:
        r.fail(f.qualname, f"explicit hash = {key[:120]}", f.loc(),
               "a class body with `__hash__ = None` and no `__eq__` is no longer treated as giving an explicit hash: a frozen class gets a "
               "generated field hash over it, unsafe_hash=True silently overwrites it (the standard library keeps it, and raises TypeError)")
    return r


def rule_generated_methods_gated_on_own_namespace(model: Model, rule_id: str = 'C16-R11') -> RuleResult:
    """Whether ``__eq__`` / the ordering methods / ``__init__`` are generated for a class depends on *its own* body
    (``name in cls.__dict__``).  The generated methods of a pane base class sit in that base's namespace: a test that walks the MRO
    finds them there and skips the subclass, which then compares by the base's fields only."""
    r = RuleResult(rule_id, "whether a method is generated for a class is decided on the class's own namespace, never on its bases'", floor=2)
    f = model.func('pane.classes._process')
    r.analysed.add(f.qualname)
    for c in walk_no_nested(f.node):
        if not (isinstance(c, ast.Call) and isinstance(c.func, ast.Name) and c.func.id in ('_make_eq', '_make_ord', '_make_init')):
            continue
        r.instances += 1
        tests = [anc.test for anc in ancestors(c) if isinstance(anc, ast.If) and any(x is c for s_ in anc.body for x in ast.walk(s_))]
        texts = [unparse(t_) for t_ in tests]
        bad = None
        for t_ in tests:
            for x in ast.walk(t_):
                if isinstance(x, ast.Call) and isinstance(x.func, ast.Name) and x.func.id in ('hasattr', 'getattr') and x.args \
                        and unparse(x.args[0]) == 'cls':
                    bad = x
                if isinstance(x, ast.Attribute) and x.attr in ('__mro__', '__bases__'):
                    bad = x
                if isinstance(x, ast.Call) and isinstance(x.func, ast.Name) and x.func.id == 'vars' and x.args and unparse(x.args[0]) != 'cls':
                    bad = x
        # (a test computed by a loop over the bases before the `if`)
        for t_ in tests:
            for nm in ast.walk(t_):
                if isinstance(nm, ast.Name) and nm.id not in ('cls', 'opts', 'any', 'all', 'k', 'not'):
                    for st in ast.walk(f.node):
                        if isinstance(st, ast.Assign) and any(isinstance(tg, ast.Name) and tg.id == nm.id for tg in st.targets) \
                                and re.search(r'__mro__|__bases__|\bvars\((?!cls\))', unparse(st.value)):
                            bad = st.value
        r.sample({c.func.id: texts})
        if bad is None:
            r.ok()
        else:
            r.fail(f.qualname, f"{c.func.id} is gated on `{unparse(bad)[:60]}`", f.loc(bad),
                   "a subclass that adds compare-fields reuses its parent's generated comparison: instances that tie on the inherited fields "
                   "and differ on a new one are neither <, == nor >")
    if r.instances < 2:
        raise AnalysisError('_process: the calls generating __eq__ / ordering were not found')
    return r


def rule_declaring_class_is_last(model: Model, rule_id: str = 'C17-R18') -> RuleResult:
    """The table that remembers which class declared a field (it decides whose type-variable bindings apply, C17-R16) records the
    *last* declaration met in the MRO walk: a redeclaration replaces the entry.  ``setdefault`` keeps the first, so the bindings of an
    unrelated earlier base are tested against the wrong class."""
    r = RuleResult(rule_id, "the declaring class recorded for a field is that of its latest declaration (entries are overwritten, not kept)", floor=1)
    f = model.func('pane.classes._process')
    r.analysed.add(f.qualname)
    loops = [x for x in ast.walk(f.node) if isinstance(x, ast.For) and '__mro__' in unparse(x.iter) and isinstance(x.target, ast.Name)]
    if not loops:
        raise AnalysisError('_process: the walk over the MRO was not found')
    base = loops[0].target.id
    # tables whose values are the base: T.update(dict.fromkeys(.., base)), T[k] = base, T.setdefault(k, base)
    writes = []
    for x in ast.walk(loops[0]):
        if isinstance(x, ast.Call) and isinstance(x.func, ast.Attribute) and isinstance(x.func.value, ast.Name):
            if x.func.attr == 'setdefault' and len(x.args) == 2 and unparse(x.args[1]) == base:
                writes.append((x, 'kept'))
            elif x.func.attr == 'update' and x.args and re.search(rf'\b{base}\b', unparse(x.args[0])) and 'fromkeys' in unparse(x.args[0]):
                writes.append((x, 'overwritten'))
        if isinstance(x, ast.Assign) and len(x.targets) == 1 and isinstance(x.targets[0], ast.Subscript) and unparse(x.value) == base:
            guarded = any(isinstance(a_, ast.If) and re.search(r'\bnot in\b', unparse(a_.test)) for a_ in ancestors(x) if a_ is not loops[0])
            writes.append((x, 'kept' if guarded else 'overwritten'))
    if not writes:
        r.instances += 1
        r.sample({'declaring-class table': 'none'})
        r.ok()      # no such table: C17-R16 decides how bindings are scoped
        return r
    for x, how in writes:
        r.instances += 1
        r.sample({'write': unparse(x)[:70], 'an existing entry is': how})
        if how == 'overwritten':
            r.ok()
        else:
            r.fail(f.qualname, f"`{unparse(x)[:60]}` keeps the first declaring class", f.loc(x),
                   "class Both(Listed[int], Named[str]) where both bases declare `value`: the winning declaration is tested against the other "
                   "base, its type variable stays unbound and the substituted type is not enforced")
    return r


def rule_make_field_gets_class_styles(model: Model, rule_id: str = 'C20-R10') -> RuleResult:
    """Every field of a class is baked with the class's input and output styles: each call of ``make_field`` in the class machinery
    passes both, for every field name (a name the styles cannot split - a leading underscore - is refused by rename_field, not exempted)."""
    r = RuleResult(rule_id, "every make_field call of the class machinery passes the class's input and output rename styles", floor=1)
    f = model.func('pane.classes._process')
    cfg = cfg_of(model, f)
    nz = Normalizer(model, f, cfg, param_map=_pm(f))
    r.analysed.add(f.qualname)
    for n in cfg.live_nodes():
        for root in node_exprs(n):
            for c, bound in _walk_b(root, nz, n):
                if not (isinstance(c, ast.Call) and isinstance(c.func, ast.Attribute) and c.func.attr == 'make_field'):
                    continue
                r.instances += 1
                args = [nz.expr(a, n, bound) for a in c.args] + [f"{k.arg}={nz.expr(k.value, n, bound)}" for k in c.keywords]
                text = ' '.join(args)
                r.sample({'call': unparse(c)[:80]})
                gov = [t_ for (_g, t_, _tr) in _site_conditions(model, f, c) if re.search(r'startswith|isidentifier|\[0\]|islower|name', t_)]
                if 'in_rename' in text and 'out_rename' in text and not gov:
                    r.ok()
                elif gov:
                    r.fail(f.qualname, f"make_field depends on the spelling of the name ({gov[0][:50]})", f.loc(c),
                           "some names are exempted from the class's rename styles instead of being renamed or refused")
                else:
                    r.fail(f.qualname, f"`{unparse(c)[:60]}` without the class's styles", f.loc(c),
                           "the field keeps its Python spelling on input and output although the class declares a rename style; a name that "
                           "cannot be split (leading underscore) is accepted verbatim instead of being refused with ValueError")
    if r.instances == 0:
        raise AnalysisError('_process: no make_field call found')
    return r


def rule_declared_values_not_sorted_raw(model: Model, rule_id: str = 'C12-R10') -> RuleResult:
    """Declared tags / literal values / enum values may be of any (mixed) kinds: ``sorted()`` on them without a key that maps every
    value to a string raises TypeError for ``1`` next to ``'legacy'`` or ``None`` - while an error is being described, so the TypeError
    escapes instead of a ConvertError naming the tag."""
    r = RuleResult(rule_id, "declared tags and values are never sorted by their own (possibly mixed-kind) ordering", floor=1)
    n = 0
    for cq, fs in sorted(conversion_zone(model).items()):
        ci = model.cls(cq)
        extra = [g for nm, g in ci.methods.items() if nm.startswith(('expected', 'tag_expected', 'obj_expected', '__init__'))]
        for f in list(fs) + extra:
            if not isinstance(f.node, ast.FunctionDef) or f.qualname in r.analysed:
                continue
            r.analysed.add(f.qualname)
            n += 1
            for x in walk_no_nested(f.node):
                srt = None
                if isinstance(x, ast.Call) and isinstance(x.func, ast.Name) and x.func.id in ('sorted', 'min', 'max') and x.args:
                    srt = x
                elif isinstance(x, ast.Call) and isinstance(x.func, ast.Attribute) and x.func.attr == 'sort':
                    srt = x
                if srt is None:
                    continue
                key = next((k.value for k in srt.keywords if k.arg == 'key'), None)
                keyed = key is not None and re.search(r'\b(str|repr)\b', unparse(key)) is not None
                subject = unparse(srt.args[0]) if isinstance(srt.func, ast.Name) else unparse(srt.func.value)
                declared = re.search(r'tag|vals|member|literal|\.types\b|tags', subject) is not None
                if declared and not keyed:
                    r.instances += 1
                    r.fail(f.qualname, f"`{unparse(srt)[:60]}` orders declared values by themselves", f.loc(srt),
                           "tags of different kinds (1, 'legacy', None) cannot be ordered: describing an unknown tag raises TypeError")
    r.instances += 1
    r.sample({'functions scanned': n})
    r.ok()
    return r


def rule_list_phrase_keeps_every_word(model: Model, rule_id: str = 'C08-R12') -> RuleResult:
    """``list_phrase(words)`` is "a, b, ..., or z": all words but the last, then the last.  Every subscript of ``words`` is ``[:-1]``
    or ``[-1]`` (or the whole sequence for up to two words)."""
    r = RuleResult(rule_id, "list_phrase names every word: the head is words[:-1], the tail words[-1]", floor=2)
    f = model.func('pane.util.list_phrase')
    r.analysed.add(f.qualname)
    w = f.params[0]
    subs = [x for x in ast.walk(f.node) if isinstance(x, ast.Subscript) and isinstance(x.value, ast.Name) and x.value.id == w]
    ok_forms = {f'{w}[:-1]', f'{w}[-1]', f'{w}[0]', f'{w}[1]', f'{w}[:]'}
    for x in subs:
        r.instances += 1
        r.sample({'part': unparse(x)})
        if unparse(x) in ok_forms:
            r.ok()
        else:
            r.fail(f.qualname, f"`{unparse(x)}`", f.loc(x),
                   "with four or more alternatives some are silently left out of the expectation text ('red', 'green', or 'magenta' for five colours)")
    if len(subs) < 2:
        r.instances += 2 - len(subs)
        # a different construction (no slicing): every word must still be joined
        joins = [x for x in ast.walk(f.node) if isinstance(x, ast.Call) and isinstance(x.func, ast.Attribute) and x.func.attr == 'join']
        if joins:
            for _ in range(2 - len(subs)):
                r.ok()
        else:
            r.fail(f.qualname, "the words are not joined", f.loc(), "the phrase does not list the words")
    return r


def rule_converter_cache_keyed_by_identity(model: Model, rule_id: str = 'C10-R18') -> RuleResult:
    """The converter cache is keyed by the *identity* of the type object, for every kind of type: equality of types is coarser than
    what conversion distinguishes (``list[int | float] == list[float | int]``, and typing compares unions as sets), so a key by
    value hands the converter built for one ordering to the other."""
    from .memo import memoised, _key_forms
    r = RuleResult(rule_id, "make_converter's cache key holds the type by identity on every path (never the type object itself)", floor=1)
    found = False
    for (f, _kind, kf, _d) in memoised(model):
        if kf is None or f.qualname != 'pane.convert.make_converter':
            continue
        found = True
        r.analysed.add(kf.qualname)
        tp = f.params[0]
        for (form, node) in _key_forms(model, kf):
            r.instances += 1
            by_id = re.search(r'\bid\(\$' + re.escape(tp) + r'\)', form) is not None
            by_value = re.search(r'(?<![\w(])\$' + re.escape(tp) + r'\b(?!\))', re.sub(r'\bid\(\$' + re.escape(tp) + r'\)', 'ID', form)) is not None
            r.sample({'key': form, 'type by identity': by_id, 'type by value': by_value})
            if by_id and not by_value:
                r.ok()
            else:
                r.fail(kf.qualname, f"key {form[:100]}", kf.loc(node),
                       "for some kinds of type the cache is keyed by equality: the second of two equal-but-different types (a nested union "
                       "written in another order) gets the first one's converter, so the result depends on which was converted first")
    if not found:
        raise AnalysisError('make_converter is no longer memoised through a key function')
    return r


def rule_specialisation_cache_holds_class(model: Model, rule_id: str = 'C17-R19') -> RuleResult:
    """``G[int]`` is memoised per generic class: the key of that memo contains the class object itself (or its id).  A key made of the
    class's *name* hands ``Box[int]`` of one class called Box to another class called Box (a class defined in a factory function, a
    re-run notebook cell, or two partial specialisations - all created under the bare origin name)."""
    from .memo import memoised, _key_forms
    r = RuleResult(rule_id, "the memo of generic specialisations is keyed by the class object, not by its name", floor=1)
    seen = False
    for (f, kind, kf, _d) in memoised(model):
        if f.qualname != 'pane.classes._make_subclass':
            continue
        seen = True
        r.instances += 1
        r.analysed.add(f.qualname)
        cp = f.params[0]
        if kf is None:
            r.sample({'memo': kind, 'key': 'the arguments themselves'})
            r.ok()
            continue
        forms = [form for (form, _n) in _key_forms(model, kf)]
        r.sample({'memo': kind, 'key': forms})
        ok = all(re.search(r'(?<![\w.])\$' + re.escape(kf.params[0]) + r'(?![\w.])', form) for form in forms) if kf.params else False
        if ok:
            r.ok()
        else:
            r.fail(kf.qualname, f"key {forms[0][:100] if forms else '?'}", kf.loc(),
                   f"the class `{cp}` enters the key through its name / module only: two different classes of the same name share their specialisations")
    if not seen:
        r.instances += 1
        r.sample({'memo': 'none'})
        r.ok()
    return r


def rule_non_init_factories_run(model: Model, rule_id: str = 'C14-R14') -> RuleResult:
    """"Fields not supplied take their default, or a fresh product of their default factory, on every path": that includes fields
    declared ``init=False`` (a plain default is found as a class attribute; a factory has to be *called* for each instance).  Both
    branches of the generated constructor call the factory of the fields they skip."""
    r = RuleResult(rule_id, "fields that are no constructor arguments still get a fresh product of their default factory, on both constructor paths", floor=2)
    init = model.func('pane.classes._make_init.__init__')
    r.analysed.add(init.qualname)

    def factory_calls(stmts: t.Sequence[ast.stmt]) -> t.List[ast.Call]:
        return [c for st in stmts for c in ast.walk(st) if isinstance(c, ast.Call) and isinstance(c.func, ast.Attribute) and c.func.attr == 'default_factory']

    # (a) the regular path: the arm that skips non-init fields
    r.instances += 1
    skips = [x for x in ast.walk(init.node) if isinstance(x, ast.If) and re.search(r'\bnot \w+\.init\b', unparse(x.test))
             and any(isinstance(y, ast.Continue) for y in ast.walk(x))]
    r.sample({'arms skipping non-init fields': [unparse(x.test) for x in skips], 'factory called there': [bool(factory_calls(x.body)) for x in skips]})
    if skips and all(factory_calls(x.body) for x in skips):
        r.ok()
    elif not skips:
        # no skipping arm: every field goes through the default logic
        r.ok()
    else:
        x = next(x for x in skips if not factory_calls(x.body))
        r.fail(init.qualname, "a field declared init=False is skipped without calling its default_factory", init.loc(x),
               "class N: cache: dict = field(init=False, default_factory=dict): N().cache raises AttributeError (so do repr, ==, copy)")
    # (b) the from-dict path
    r.instances += 1
    branch = [x for x in ast.walk(init.node) if isinstance(x, ast.If) and re.search(r'from_dict', unparse(x.test))]
    has = any(factory_calls(x.body) or factory_calls(x.orelse) for x in branch)
    r.sample({'from-dict branch calls a factory': has})
    if has:
        r.ok()
    else:
        r.fail(init.qualname, "the from-dict branch never calls a default_factory", init.loc(branch[0]) if branch else init.loc(),
               "instances built from mapping or sequence data lack their init=False factory fields as well")
    return r


def rule_specialisations_inherit_dunders(model: Model, rule_id: str = 'C16-R12') -> RuleResult:
    """``G[int]`` is a fresh subclass of ``G`` with the same fields and options.  Its namespace holds no ``__eq__`` / ``__hash__`` /
    ordering methods, so a test on the class's own namespace would *generate* them again - over an explicit ``__hash__`` or ``__eq__``
    written in ``G``: ``G(1) == G[int](1)`` while their hashes differ.  The generation steps are skipped for specialisations."""
    r = RuleResult(rule_id, "comparison and hash methods are not regenerated for a specialisation G[...] (those of G, explicit ones included, are inherited)", floor=3)
    f = model.func('pane.classes._process')
    cfg = cfg_of(model, f)
    nz = Normalizer(model, f, cfg, param_map=_pm(f))
    r.analysed.add(f.qualname)
    marker = re.compile(r"__origin__|__pane_boundvars__|PANE_BOUNDVARS")
    # an early exit taken for specialisations dominates nothing; look at each generation call: is it unreachable for a specialisation?
    guards = []
    for n in cfg.live_nodes():
        if n.kind == 'cond' and n.ast is not None:
            text, pos = nz.literal(n.ast, n)
            # (also through a local that holds the test: `is_specialisation = '__origin__' in cls.__dict__ and ...`)
            if marker.search(unparse(n.ast)) or marker.search(text):
                guards.append((n, text, pos))
    for c in walk_no_nested(f.node):
        if not (isinstance(c, ast.Call) and isinstance(c.func, ast.Name) and c.func.id in ('_maybe_make_hash', '_make_eq', '_make_ord')):
            continue
        r.instances += 1
        n = cfg.node_of(c)
        skipped = False
        for (g, _text, _pos) in guards:
            for lb in ('T', 'F'):
                # the call is only reached through one arm of a test of the marker
                if g.edge(lb) and n is not None and cfg.edge_dominates(g, lb, n):
                    skipped = True
        # ... or an earlier statement of the function returns for specialisations (`if <marker test>: return cls`)
        cst = next((a_ for a_ in [c] + list(ancestors(c)) if a_ in f.node.body), None)
        if cst is not None:
            for st in f.node.body[:f.node.body.index(cst)]:
                if isinstance(st, ast.If) and marker.search(unparse(st.test)) and st.body and isinstance(st.body[-1], ast.Return):
                    skipped = True
        r.sample({c.func.id: 'not reached for specialisations' if skipped else 'also run for G[...]'})
        if skipped:
            r.ok()
        else:
            r.fail(f.qualname, f"{c.func.id} also runs for a specialisation G[...]", f.loc(c),
                   "an explicit __hash__ / __eq__ / ordering method of a generic class is replaced by a generated one in G[int]: "
                   "G(1) == G[int](1) but hash(G(1)) != hash(G[int](1))")
    if r.instances < 3:
        raise AnalysisError('_process: generation calls not found')
    return r


def rule_eq_reads_root_origin(model: Model, rule_id: str = 'C16-R13') -> RuleResult:
    """Equality ignores generic parameters through *any* number of re-parametrisations: ``P[T, int][str]`` is a specialisation of a
    specialisation; the class compared is the generic class at the end of the chain of own-namespace ``__origin__`` markers."""
    r = RuleResult(rule_id, "equality follows the chain of __origin__ markers to the generic class itself", floor=1)
    f = model.func('pane.classes._make_eq.__eq__')
    r.analysed.add(f.qualname)
    r.instances += 1
    mod = f.module
    helpers = []
    for c in ast.walk(f.node):
        if isinstance(c, ast.Call):
            g = model.functions.get(model.resolve(c.func, mod, f) or '')
            if g is not None and g.module is mod and '__origin__' in unparse(g.node):
                helpers.append(g)
    loops = [g for g in helpers if any(isinstance(x, (ast.While, ast.For)) for x in ast.walk(g.node))
             or any(isinstance(x, ast.Call) and model.resolve(x.func, mod, g) == g.qualname for x in ast.walk(g.node))]
    own_loop = any(isinstance(x, (ast.While, ast.For)) and '__origin__' in unparse(x) for x in ast.walk(f.node))
    r.sample({'helpers reading __origin__': [g.qualname for g in helpers], 'follows the chain': bool(loops) or own_loop})
    if loops or own_loop:
        r.ok()
    else:
        r.fail(f.qualname, "the origin marker is read once", f.loc(),
               "P[T, int][str]('s', 1) != P[str, int]('s', 1) and != P('s', 1): the origin of a re-parametrised specialisation is the "
               "intermediate class, not the generic class")
    return r


def rule_none_argument_is_nonetype(model: Model, rule_id: str = 'C17-R20') -> RuleResult:
    """``Box[None]`` means ``Box[NoneType]`` (as for every generic of ``typing``): the arguments bound to the type variables are
    types, and a bare ``None`` has no converter ("Unsupported special type 'None'")."""
    r = RuleResult(rule_id, "a None given as a type argument of a generic dataclass is bound as NoneType", floor=1)
    fs = [model.func('pane.classes.PaneBase.__class_getitem__'), model.func('pane.classes._make_subclass')]
    # ... and the module helpers they apply to the arguments (`map(_none_as_type, args)`)
    for f in list(fs):
        for x in ast.walk(f.node):
            if isinstance(x, ast.Name) and isinstance(x.ctx, ast.Load):
                g = model.functions.get(model.resolve(x, f.module, f) or '')
                if g is not None and g.module is f.module and g.cls is None and g not in fs and isinstance(g.node, ast.FunctionDef) and len(g.params) == 1:
                    fs.append(g)
    r.instances += 1
    hit = None
    for f in fs:
        r.analysed.add(f.qualname)
        for x in ast.walk(f.node):
            if isinstance(x, (ast.IfExp, ast.If)) and re.search(r'\bis None\b|None is\b|== None', unparse(x.test)) \
                    and re.search(r'type\(None\)|NoneType', unparse(x)):
                hit = unparse(x)[:80]
            if isinstance(x, ast.Dict) and any(isinstance(k, ast.Constant) and k.value is None for k in x.keys):
                hit = unparse(x)[:80]
    r.sample({'None replaced by its type': hit})
    if hit:
        r.ok()
    else:
        r.fail(fs[0].qualname, "None is bound to the type variable as it is", fs[0].loc(),
               "Box[None].from_data({'x': None}) raises TypeError (Unsupported special type 'None') where Optional[T] and typing's own "
               "generics accept None as a type argument")
    return r


def rule_numpy_free_twin(model: Model, rule_id: str = 'C04-R11') -> RuleResult:
    """numpy is an optional dependency: ``pane/addons/numpy.py`` defines stand-ins in its ``except ImportError`` branch.  That branch
    runs at import time, so (a) every name evaluated while its ``def`` / ``class`` statements execute (annotations, defaults, bases,
    decorators - the module has no ``from __future__ import annotations``) has to be bound there, and (b) a function defined in both
    branches takes the same parameters (it is called by the same callers)."""
    r = RuleResult(rule_id, "the numpy-free branch of the add-on binds every name it evaluates at import time and mirrors the signatures of the real one", floor=2)
    mod = model.module('pane.addons.numpy')
    tree = mod.tree
    future = any(isinstance(st, ast.ImportFrom) and st.module == '__future__' and any(a.name == 'annotations' for a in st.names) for st in tree.body)
    trys = [st for st in tree.body if isinstance(st, ast.Try) and any('ImportError' in unparse(h.type) for h in st.handlers if h.type is not None)]
    if not trys:
        raise AnalysisError('pane/addons/numpy.py: the try / except ImportError split was not found')
    tr = trys[0]
    handler = next(h for h in tr.handlers if h.type is not None and 'ImportError' in unparse(h.type))

    def defs(stmts: t.Sequence[ast.stmt]) -> t.Dict[str, ast.FunctionDef]:
        out: t.Dict[str, ast.FunctionDef] = {}
        for st in stmts:
            for x in ast.walk(st):
                if isinstance(x, ast.FunctionDef) and x.name not in out:
                    out[x.name] = x
        return out
    real, twin = defs(tr.body), defs(handler.body)
    # (b) same parameters
    for nm in sorted(set(real) & set(twin)):
        r.instances += 1
        pa = [a.arg for a in real[nm].args.posonlyargs + real[nm].args.args + real[nm].args.kwonlyargs]
        pb = [a.arg for a in twin[nm].args.posonlyargs + twin[nm].args.args + twin[nm].args.kwonlyargs]
        r.sample({nm: {'with numpy': pa, 'without': pb}})
        if pa == pb:
            r.ok()
        else:
            r.fail(f'pane.addons.numpy.{nm}', f"parameters {pb} without numpy, {pa} with it", f"{mod.relpath}:{twin[nm].lineno}",
                   "callers pass the keywords of the real function: without numpy the stand-in raises TypeError (unexpected keyword argument) "
                   "for every type that reaches the registered handlers")
    # (a) names evaluated at definition time in the fallback branch
    r.instances += 1
    bound: t.Set[str] = set(dir(__builtins__)) if not isinstance(__builtins__, dict) else set(__builtins__)
    for st in tree.body:
        if st is tr:
            break
        for x in ast.walk(st):
            if isinstance(x, (ast.Import, ast.ImportFrom)):
                bound |= {(a.asname or a.name).split('.')[0] for a in x.names}
            elif isinstance(x, (ast.FunctionDef, ast.ClassDef)):
                bound.add(x.name)
            elif isinstance(x, ast.Name) and isinstance(x.ctx, ast.Store):
                bound.add(x.id)
    unbound: t.List[t.Tuple[str, int]] = []

    def run(stmts: t.Sequence[ast.stmt], static_only: bool) -> None:
        for st in stmts:
            if isinstance(st, ast.If):
                test = unparse(st.test)
                if re.fullmatch(r'(t\.|typing\.)?TYPE_CHECKING', test):
                    run(st.orelse, static_only)
                    continue
                if re.fullmatch(r'not (t\.|typing\.)?TYPE_CHECKING', test):
                    run(st.body, static_only)
                    continue
                run(st.body, static_only)
                run(st.orelse, static_only)
                continue
            evaluated: t.List[ast.AST] = []
            if isinstance(st, ast.FunctionDef):
                a = st.args
                evaluated += list(st.decorator_list) + [d for d in a.defaults + a.kw_defaults if d is not None]
                if not future:
                    evaluated += [x.annotation for x in a.posonlyargs + a.args + a.kwonlyargs if x.annotation is not None]
                    if st.returns is not None:
                        evaluated.append(st.returns)
                for e in evaluated:
                    for nm in ast.walk(e):
                        if isinstance(nm, ast.Name) and isinstance(nm.ctx, ast.Load) and nm.id not in bound:
                            unbound.append((nm.id, nm.lineno))
                bound.add(st.name)
            elif isinstance(st, ast.ClassDef):
                for e in list(st.bases) + list(st.decorator_list) + [k.value for k in st.keywords]:
                    for nm in ast.walk(e):
                        if isinstance(nm, ast.Name) and isinstance(nm.ctx, ast.Load) and nm.id not in bound:
                            unbound.append((nm.id, nm.lineno))
                bound.add(st.name)
            else:
                for x in ast.walk(st):
                    if isinstance(x, (ast.Import, ast.ImportFrom)):
                        bound.update((a.asname or a.name).split('.')[0] for a in x.names)
                loads = [x for x in ast.walk(st) if isinstance(x, ast.Name) and isinstance(x.ctx, ast.Load)]
                for nm in loads:
                    if nm.id not in bound:
                        unbound.append((nm.id, nm.lineno))
                for x in ast.walk(st):
                    if isinstance(x, ast.Name) and isinstance(x.ctx, ast.Store):
                        bound.add(x.id)
    run(handler.body, False)
    r.sample({'names evaluated at import time without a binding (numpy absent)': unbound})
    if not unbound:
        r.ok()
    else:
        nm, ln = unbound[0]
        r.fail('pane.addons.numpy', f"`{nm}` is evaluated at import time but only bound when numpy is installed (or under TYPE_CHECKING)", f"{mod.relpath}:{ln}",
               "without numpy - an optional dependency - `import pane` raises NameError: nothing of the library works, and the library's own "
               "numpy-free fallbacks (broadcast_shapes) can never run")
    return r


# ============================================================================ round 9


def rule_no_mutable_defaults(model: Model, rule_id: str = 'C10-R19') -> RuleResult:
    """A list / dict / set written as a parameter default is created once: whatever a call leaves in it is still there on the next
    call (a renderer that collects the alternatives of a union into ``flat=[]`` repeats all earlier ones)."""
    r = RuleResult(rule_id, "no function of the package has a mutable container as a parameter default", floor=1)
    n = 0
    for f in model.all_functions():
        if not isinstance(f.node, ast.FunctionDef) or not f.module.name.startswith('pane.'):
            continue
        n += 1
        a = f.node.args
        for d in list(a.defaults) + [k for k in a.kw_defaults if k is not None]:
            if isinstance(d, (ast.List, ast.Dict, ast.Set, ast.ListComp, ast.DictComp, ast.SetComp)) or (
                    isinstance(d, ast.Call) and isinstance(d.func, ast.Name) and d.func.id in ('list', 'dict', 'set', 'defaultdict', 'OrderedDict', 'deque')):
                # (a default that is never written into is harmless; the ones in the library are frozen objects or None)
                r.instances += 1
                r.analysed.add(f.qualname)
                r.fail(f.qualname, f"parameter default `{unparse(d)[:40]}`", f.loc(d),
                       "state survives from one call to the next: the second rendering of an error (or the second conversion) sees what the first left behind")
    r.instances += 1
    r.sample({'functions scanned': n})
    r.ok()
    return r


def rule_text_not_from_sets(model: Model, rule_id: str = 'C08-R14') -> RuleResult:
    """Text is produced from ordered, complete data: passing declared values or bounds through ``set()`` / ``dict.fromkeys()`` merges
    values that compare equal (``1`` and ``True``) and forgets their order (``(1, 8)`` comes back as ``{8, 1}``)."""
    r = RuleResult(rule_id, "expectation texts and renderers never de-duplicate or reorder what they describe through a set / dict", floor=1)
    n = 0
    todo: t.List[FuncInfo] = []
    for f in model.all_functions():
        if not isinstance(f.node, ast.FunctionDef):
            continue
        if f.module.name == 'pane.errors' and f.name in ('print_error', '__str__'):
            todo.append(f)
        elif f.module.name in ('pane.converters', 'pane.classes', 'pane.types') and re.match(r'(expected|tag_expected|obj_expected)', f.name):
            todo.append(f)
    for f in todo:
        n += 1
        for x in walk_no_nested(f.node):
            dedupe = None
            if isinstance(x, ast.Call) and isinstance(x.func, ast.Name) and x.func.id in ('set', 'frozenset') and x.args:
                dedupe = x
            if isinstance(x, ast.Call) and unparse(x.func) in ('dict.fromkeys', 'collections.OrderedDict.fromkeys', 'OrderedDict.fromkeys'):
                dedupe = x
            if dedupe is None:
                continue
            # a set that only ever becomes part of a new error node (sorted when printed) is data, not text
            into_node = any(isinstance(a_, ast.Call) and re.search(r'ErrorNode|Error$', unparse(a_.func)) for a_ in ancestors(dedupe))
            stored = next((a_ for a_ in ancestors(dedupe) if isinstance(a_, (ast.Assign, ast.AnnAssign))), None)
            if stored is not None:
                nm = unparse(stored.targets[0] if isinstance(stored, ast.Assign) else stored.target)
                into_node = into_node or any(isinstance(c_, ast.Call) and re.search(r'ErrorNode|Error$', unparse(c_.func))
                                             and any(unparse(a_) == nm for a_ in list(c_.args) + [k.value for k in c_.keywords]) for c_ in ast.walk(f.node))
            sorted_ = any(isinstance(a_, ast.Call) and isinstance(a_.func, ast.Name) and a_.func.id == 'sorted' for a_ in ancestors(dedupe))
            if into_node or sorted_:
                continue
            r.instances += 1
            r.analysed.add(f.qualname)
            r.fail(f.qualname, f"`{unparse(dedupe)[:50]}` feeds a message", f.loc(dedupe),
                   "values that compare equal are merged (Literal[1, True] is described as '1') and the order of what is listed follows the "
                   "hash table ('length 8-1' for a class taking 1 to 8 values)")
    r.instances += 1
    r.sample({'functions scanned': n})
    r.ok()
    return r


def rule_locks_released_on_all_paths(model: Model, rule_id: str = 'C10-R20') -> RuleResult:
    """A lock taken with ``acquire()`` is released in a ``finally`` (or taken with ``with``): building a converter may raise, and a
    reentrant lock left held by the failing thread blocks every other thread at its next cache miss, for good."""
    r = RuleResult(rule_id, "every explicit acquire() of a lock is paired with a release() in a finally clause", floor=1)
    n = 0
    for f in model.all_functions():
        if not isinstance(f.node, ast.FunctionDef) or not f.module.name.startswith('pane.'):
            continue
        n += 1
        for x in walk_no_nested(f.node):
            if isinstance(x, ast.Call) and isinstance(x.func, ast.Attribute) and x.func.attr == 'acquire' and 'lock' in unparse(x.func.value).lower():
                r.instances += 1
                r.analysed.add(f.qualname)
                lock = unparse(x.func.value)
                safe = False
                st = next((a_ for a_ in [x] + list(ancestors(x)) if isinstance(a_, ast.stmt)), None)
                for tr in [a_ for a_ in ast.walk(f.node) if isinstance(a_, ast.Try)]:
                    rel = any(isinstance(c_, ast.Call) and isinstance(c_.func, ast.Attribute) and c_.func.attr == 'release'
                              and unparse(c_.func.value) == lock for s_ in tr.finalbody for c_ in ast.walk(s_))
                    if rel and st is not None and (st.lineno <= tr.lineno):
                        safe = True
                if safe:
                    r.ok()
                else:
                    r.fail(f.qualname, f"`{unparse(x)}` without a release in a finally clause", f.loc(x),
                           "an exception between acquire() and release() (make_converter raises TypeError for an unsupported type) leaves the "
                           "lock held: conversions on other threads hang at their next cache miss")
    r.instances += 1
    r.sample({'functions scanned': n})
    r.ok()
    return r


def rule_in_names_is_a_tuple(model: Model, rule_id: str = 'C15-R10') -> RuleResult:
    """The input names handed to ``Field`` are a tuple of names on every path: ``(name)`` for ``(name,)`` is the bare string, which
    ``PaneConverter`` iterates character by character (every letter of the field name becomes an accepted key)."""
    r = RuleResult(rule_id, "the input names a field is built with are a tuple (or the sequence the user gave), never a bare name", floor=1)
    f = model.func('pane.field.FieldSpec.make_field')
    cfg = cfg_of(model, f)
    rd = cfg.reaching()
    nz = Normalizer(model, f, cfg, param_map=_pm(f))
    r.analysed.add(f.qualname)
    rets = [n for n in cfg.live_nodes() if n.kind == 'return' and n.ast is not None and isinstance(n.ast.value, ast.Call)]
    if not rets:
        raise AnalysisError('make_field does not return a Field(...) call')

    from ..cfg import returned_values as _rv

    def leaves(e: ast.AST, at: Node, depth: int = 0, g: FuncInfo = f) -> t.List[ast.AST]:
        grd = cfg_of(model, g).reaching()
        if isinstance(e, ast.IfExp):
            return leaves(e.body, at, depth, g) + leaves(e.orelse, at, depth, g)
        if isinstance(e, ast.Name) and grd.is_local(e.id) and depth < 6:
            ds = grd.at(at, e.id)
            if ds and all(d.kind in ('assign', 'walrus') and d.value is not None and not d.path for d in ds):
                return [y for d in ds for y in leaves(d.value, d.node, depth + 1, g)]
        if isinstance(e, ast.Call) and depth < 6:
            # a helper of the module / of the class that computes the names: what it returns
            h = model.functions.get(model.resolve(e.func, g.module, g) or '')
            if h is None and isinstance(e.func, ast.Attribute) and isinstance(e.func.value, ast.Name) and g.cls is not None and g.params \
                    and e.func.value.id == g.params[0]:
                h = model.find_method(g.cls.qualname, e.func.attr)
            if h is not None and h.module.name == 'pane.field' and isinstance(h.node, ast.FunctionDef) and h.qualname != 'pane.field.rename_field':
                out_: t.List[ast.AST] = []
                for (re_, rn_) in _rv(cfg_of(model, h)):
                    out_ += leaves(re_, rn_, depth + 1, h)
                if out_:
                    return out_
        return [e]
    for n in rets:
        arg = next((k.value for k in n.ast.value.keywords if k.arg == 'in_names'), None)
        if arg is None:
            raise AnalysisError('Field(...) built without in_names=')
        for leaf in leaves(arg, n):
            r.instances += 1
            form = unparse(leaf)[:60]
            ok = isinstance(leaf, ast.Tuple) or (isinstance(leaf, ast.Call) and unparse(leaf.func) in ('tuple',)) \
                or re.fullmatch(r'self\.in_names|\w*in_names', unparse(leaf)) is not None
            r.sample({'in_names may be': form, 'a tuple / the given sequence': ok})
            if ok:
                r.ok()
            else:
                r.fail(f.qualname, f"in_names may be `{form}`", f.loc(leaf),
                       "a bare string where a tuple of names is meant: each character of the field name is registered as an input key, "
                       "so {'x': 5} binds the field `index`")
    return r


def rule_no_handlers_means_none(model: Model, rule_id: str = 'C18-R13') -> RuleResult:
    """"No handlers" is ``None``.  An empty mapping (a registry that is filled after the class statement) or a callable handler object
    with ``__len__`` is a handler specification like any other: testing its truth value drops it."""
    r = RuleResult(rule_id, "a handler specification is dropped only when it is None (never for being falsy)", floor=1)
    f = model.func('pane.convert.ConverterHandlers._process')
    cfg = cfg_of(model, f)
    nz = Normalizer(model, f, cfg, param_map=_pm(f))
    r.analysed.add(f.qualname)
    hp = f.params[-1] if f.params else 'handlers'
    from ..cfg import returned_values
    for (e, n) in returned_values(cfg):
        if not (isinstance(e, ast.Tuple) and not e.elts):
            continue
        r.instances += 1
        gov = _site_conditions(model, f, e)
        texts = [(text, truth) for (_g, text, truth) in gov]
        by_none = any(truth and re.fullmatch(rf'(None is \$?{hp}|\$?{hp} is None)', text) for (text, truth) in texts)
        by_truth = [text for (text, truth) in texts if re.fullmatch(rf'(TRUTHY\(\$?{hp}\)|\$?{hp}|len\(\$?{hp}\).*)', text)]
        r.sample({'empty handler set returned under': texts})
        if by_none and not by_truth:
            r.ok()
        else:
            r.fail(f.qualname, f"the empty handler set is returned under {[t_ for t_, _ in texts][:2]}", f.loc(e),
                   "class A(PaneBase, custom=REGISTRY) with a registry that is still empty when the class is created (or a handler object "
                   "that defines __len__) gets no handlers at all")
    if r.instances == 0:
        raise AnalysisError('ConverterHandlers._process: no return of the empty handler set found')
    return r


def rule_enum_writer_converts_value(model: Model, rule_id: str = 'C18-R14') -> RuleResult:
    """An enum member is written by the converter that reads its value (C05-R3): on every path, not only for values that "are not
    interchange data already" - a custom handler for ``int`` writes ``'ff'`` where the raw value is ``255``."""
    r = RuleResult(rule_id, "every return of the enum writer is the inner converter's into_data of the member's value", floor=1)
    f = model.func('pane.converters.EnumConverter.into_data')
    cfg = cfg_of(model, f)
    nz = Normalizer(model, f, cfg)
    r.analysed.add(f.qualname)
    from ..cfg import returned_values
    for (e, n) in returned_values(cfg):
        r.instances += 1
        form = nz.expr(e, n)
        r.sample({'returns': form})
        gov = _site_conditions(model, f, e)
        is_member = any(truth and re.fullmatch(r'isinstance\(VAL, \{self\.ty\}\)', text) for (_g, text, truth) in gov)
        not_member = any((not truth) and re.fullmatch(r'isinstance\(VAL, \{self\.ty\}\)', text) for (_g, text, truth) in gov)
        if re.fullmatch(r'self\.inner_conv\.into_data\(VAL\.value\)', form):
            r.ok()
        elif not_member and not is_member and 'value' not in form:
            r.ok()      # something that is no member of the enum: written by its runtime type (the default writer)
        else:
            r.fail(f.qualname, f"returns {form[:60]}", f.loc(e),
                   "the member's value is handed out without the converter in effect for its type: handlers apply on input only")
    return r


def rule_lazy_documents_read_inside_with(model: Model, rule_id: str = 'C19-R10') -> RuleResult:
    """``yaml.load_all`` (like ``map`` / ``filter`` / a generator expression) reads the stream when it is iterated.  A reader that
    opens a path itself has to exhaust it inside the ``with`` block: afterwards the file is closed."""
    r = RuleResult(rule_id, "lazy loaders are exhausted inside the with block that owns the file", floor=1)
    mod = model.module('pane.io')
    lazy_calls = {'load_all', 'safe_load_all', 'parse', 'scan'}
    n = 0
    for f in model.all_functions():
        if f.module is not mod or not isinstance(f.node, ast.FunctionDef):
            continue
        for w in [x for x in ast.walk(f.node) if isinstance(x, ast.With)]:
            n += 1
            for st in ast.walk(w):
                if not (isinstance(st, (ast.Assign, ast.AnnAssign)) and getattr(st, 'value', None) is not None):
                    continue
                v = st.value
                while isinstance(v, ast.Call) and unparse(v.func) in ('t.cast', 'typing.cast', 'cast') and len(v.args) == 2:
                    v = v.args[1]
                lazy = isinstance(v, ast.GeneratorExp) or (isinstance(v, ast.Call) and (
                    (isinstance(v.func, ast.Attribute) and v.func.attr in lazy_calls) or (isinstance(v.func, ast.Name) and v.func.id in ('map', 'filter', 'zip', 'iter'))))
                if not lazy:
                    continue
                tg = st.targets[0] if isinstance(st, ast.Assign) else st.target
                if not isinstance(tg, ast.Name):
                    continue
                used_after = any(isinstance(x, ast.Name) and x.id == tg.id and isinstance(x.ctx, ast.Load) and x.lineno > (w.end_lineno or w.lineno)
                                 for x in ast.walk(f.node))
                if used_after:
                    r.instances += 1
                    r.analysed.add(f.qualname)
                    r.fail(f.qualname, f"`{unparse(st)[:60]}` is consumed after the with block", f.loc(st),
                           "for a path, the file the reader opened is closed when the first document is parsed: ValueError (I/O operation on "
                           "closed file) instead of one value per document")
    r.instances += 1
    r.sample({'with blocks scanned': n})
    r.ok()
    return r


def rule_default_lookup_through_mro(model: Model, rule_id: str = 'C17-R21') -> RuleResult:
    """A subclass that re-annotates an inherited field without giving a new default keeps the base's default (as standard-library
    dataclasses do): the class-body value of an annotated name is looked up with ``getattr`` (through the MRO), not in the class's own
    namespace."""
    r = RuleResult(rule_id, "the default of an annotated name is looked up on the class with getattr (inherited defaults are kept)", floor=1)
    f = model.func('pane.classes._process')
    cfg = cfg_of(model, f)
    nz = Normalizer(model, f, cfg, param_map=_pm(f))
    r.analysed.add(f.qualname)
    for n in cfg.live_nodes():
        for root in node_exprs(n):
            for c in walk_no_nested(root):
                if isinstance(c, ast.Call) and model.resolve(c.func, f.module, f) == 'pane.field.FieldSpec':
                    d = next((k.value for k in c.keywords if k.arg == 'default'), None)
                    if d is None:
                        continue
                    r.instances += 1
                    form = nz.expr(d, n)
                    r.sample({'default read as': form})
                    if re.match(r'^getattr\(\$?cls\.', form) or re.match(r'^getattr\(\$?cls, ', form):
                        r.ok()
                    else:
                        r.fail(f.qualname, f"default={form[:60]}", f.loc(c),
                               "class Strict(Job): priority: int  (re-annotated, no new default) loses the default it inherits: data that omits "
                               "the field is refused although the base accepts it")
    if r.instances == 0:
        raise AnalysisError('_process: FieldSpec(... default=...) not found')
    return r


def rule_spec_substitution_unconditional(model: Model, rule_id: str = 'C17-R22') -> RuleResult:
    """``FieldSpec.replace_typevars`` always hands its type to ``util.replace_typevars``: a pre-test "has no type variables" built on
    ``collect_typevars`` skips parametrised dataclasses (real classes, which typing's parameter collection ignores), so ``Inner[T]``
    keeps its ``T`` in ``Outer[int]``."""
    r = RuleResult(rule_id, "a field declaration substitutes type variables unconditionally (no pre-test on collected variables)", floor=1)
    f = model.func('pane.field.FieldSpec.replace_typevars')
    cfg = cfg_of(model, f)
    r.analysed.add(f.qualname)
    r.instances += 1
    pre = [c for c in ast.walk(f.node) if isinstance(c, ast.Call) and re.search(r'collect_typevars|__parameters__', unparse(c.func))]
    conds = [n for n in cfg.live_nodes() if n.kind == 'cond' and n.ast is not None and not re.search(r'self\.converter|_MISSING', unparse(n.ast))]
    r.sample({'pre-tests': [unparse(c)[:50] for c in pre], 'branches': [unparse(n.ast)[:50] for n in conds]})
    if pre:
        r.fail(f.qualname, f"`{unparse(pre[0])[:50]}` decides whether to substitute", f.loc(pre[0]),
               "fields typed Inner[T], List[Inner[T]], Optional[Inner[T]] keep the unbound T in Outer[int]: a string passes where an int is declared")
    else:
        r.ok()
    return r


def rule_top_level_scalar_bypass(model: Model, rule_id: str = 'C05-R14') -> RuleResult:
    """``into_data(val)`` without a type returns an interchange scalar as it is: the value itself (a bool stays a bool), for every
    instance of the scalar classes (also of a subclass: an IntFlag member), and only when no handlers are passed."""
    r = RuleResult(rule_id, "the scalar bypass of into_data returns the value itself, under isinstance(val, <scalar classes>) and custom is None", floor=1)
    f = model.func('pane.convert.into_data')
    cfg = cfg_of(model, f)
    nz = Normalizer(model, f, cfg, param_map=_pm(f))
    r.analysed.add(f.qualname)
    vp, tp = f.params[0], f.params[1]
    from ..cfg import returned_values
    found = False
    for (e, n) in returned_values(cfg):
        gov = _site_conditions(model, f, e)
        texts = [(text, truth) for (_g, text, truth) in gov]
        if not any(truth and re.fullmatch(rf'(None is \${tp}|\${tp} is None)', text) for (text, truth) in texts):
            continue
        form = nz.expr(e, n)
        if '.into_data(' in form:
            continue
        found = True
        r.instances += 1
        inst = any(truth and re.fullmatch(rf'isinstance\(\${vp}, \{{.*\}}\)', text) for (text, truth) in texts)
        r.sample({'bypass returns': form, 'under': texts})
        if form == f'${vp}' and inst:
            r.ok()
        elif form != f'${vp}':
            r.fail(f.qualname, f"the bypass returns {form[:60]}", f.loc(e),
                   "a scalar is rewritten on the way out: True is written as 1 (int is listed before bool), so a bool does not stay a bool "
                   "and Literal[True] refuses its own output")
        else:
            r.fail(f.qualname, f"the bypass is taken under {[t_ for t_, _ in texts]}", f.loc(e),
                   "instances of subclasses of the scalar classes (an IntFlag member, a str subclass) no longer pass: the constructor raises "
                   "TypeError for an argument from_data accepts")
    if not found:
        raise AnalysisError('into_data: the scalar bypass was not found')
    return r


def rule_value_or_list_records_member(model: Model, rule_id: str = 'C11-R13') -> RuleResult:
    """``ValueOrList`` is the untagged union ``T | List[T]``: the wrapper records *which member* accepted the data (index 0: a single
    value).  Guessing it from the value (``isinstance(v, list)``) is wrong whenever T's own values are lists."""
    r = RuleResult(rule_id, "ValueOrList records which union member accepted the data (the constructor is told the member index)", floor=1)
    f = model.func('pane.types.ValueOrListConverter.__init__')
    r.analysed.add(f.qualname)
    r.instances += 1
    sup = next((c for c in ast.walk(f.node) if isinstance(c, ast.Call) and unparse(c.func) == 'super().__init__'), None)
    if sup is None:
        raise AnalysisError('ValueOrListConverter.__init__: super().__init__ not found')
    ctor = next((k.value for k in sup.keywords if k.arg == 'constructor'), None)
    ok = False
    shown = unparse(ctor)[:80] if ctor is not None else None
    if isinstance(ctor, ast.Lambda) and len(ctor.args.args) == 2:
        idx = ctor.args.args[1].arg
        ok = any(isinstance(x, ast.Name) and x.id == idx for x in ast.walk(ctor.body))
    elif isinstance(ctor, ast.Name):
        g = model.functions.get(model.resolve(ctor, f.module, f) or '') or model.functions.get(f'{f.qualname}.{ctor.id}')
        if g is not None and len(g.params) == 2:
            ok = any(isinstance(x, ast.Name) and x.id == g.params[1] and isinstance(x.ctx, ast.Load) for x in ast.walk(g.node))
    r.sample({'constructor': shown, 'uses the member index': ok})
    init = model.func('pane.types.ValueOrList.__init__')
    a = init.node.args
    guess = [unparse(x)[:60] for x in ast.walk(init.node) if isinstance(x, ast.Call) and isinstance(x.func, ast.Name) and x.func.id == 'isinstance']
    if ok and not guess and not a.defaults:
        r.ok()
    else:
        r.fail(f.qualname, f"constructor {shown}; ValueOrList.__init__ guesses with {guess}" if guess or a.defaults else f"constructor {shown} ignores the member index",
               f.loc(sup), "for ValueOrList[List[int]] a flat list accepted by the first member (one value) is labelled as a list of values: "
                           "equality, len(), iteration and into_data follow the wrong member")
    return r


def rule_array_element_type_as_declared(model: Model, rule_id: str = 'C02-R11') -> RuleResult:
    """The numpy add-on hands the declared element type to the nested-sequence converter; the dtype table (``_dtype_map``) maps numpy
    scalar classes for a *different* purpose and tests ``int`` before ``bool``: mapping a declared ``bool`` through it makes the element
    converter the int converter (an arbitrary int accepted as a bool)."""
    r = RuleResult(rule_id, "the array converter is built for the element type as declared (not passed through the numpy dtype table)", floor=1)
    mod = model.module('pane.addons.numpy')
    fs = [g for g in model.all_functions() if g.module is mod and g.name == 'numpy_converter_handler' and isinstance(g.node, ast.FunctionDef)]
    fs = [g for g in fs if any(isinstance(c, ast.Call) and 'NestedSequenceConverter' in unparse(c.func) for c in ast.walk(g.node))]
    if not fs:
        raise AnalysisError('numpy_converter_handler (with numpy) not found')
    f = fs[0]
    r.analysed.add(f.qualname)
    for c in ast.walk(f.node):
        if isinstance(c, ast.Call) and 'NestedSequenceConverter' in unparse(c.func) and c.args:
            r.instances += 1
            arg = c.args[0]
            mapped = None
            if isinstance(arg, ast.Name):
                for st in ast.walk(f.node):
                    if isinstance(st, ast.Assign) and any(isinstance(tg, ast.Name) and tg.id == arg.id for tg in st.targets) \
                            and any(isinstance(x, ast.Call) and unparse(x.func) == '_dtype_map' for x in ast.walk(st.value)) \
                            and not any(isinstance(a_, ast.Return) for a_ in ancestors(st)):
                        mapped = st
            elif any(isinstance(x, ast.Call) and unparse(x.func) == '_dtype_map' for x in ast.walk(arg)):
                mapped = arg
            r.sample({'element type argument': unparse(arg)[:50], 'mapped through the dtype table': mapped is not None})
            if mapped is None:
                r.ok()
            else:
                r.fail(f.qualname, f"`{unparse(mapped)[:60]}` rewrites the declared element type", f.loc(mapped),
                       "np.ndarray[Any, np.dtype[bool]] gets the int element converter (bool is a subclass of int and the table tests int "
                       "first): [1, 0, 2] is accepted as an array of bools")
    if r.instances == 0:
        raise AnalysisError('numpy_converter_handler: NestedSequenceConverter(...) not found')
    return r
