"""C13: conditions restrict exactly by their predicate (DESIGN §15)."""
from __future__ import annotations

import ast
import re
import typing as t

from ..cfg import CFG, Node, catches, cfg_of, handler_classes, node_exprs, walk_no_nested
from ..family import find_subcalls, subconv_attrs
from ..model import AnalysisError, FuncInfo, Model, ancestors, unparse
from ..norm import Normalizer
from ..report import RuleResult

COND = 'pane.converters.ConditionalConverter'
ANN = 'pane.annotations'


def _pm(f: FuncInfo) -> t.Dict[str, str]:
    pm = {p: f'${p}' for p in f.params}
    if f.params and f.params[0] in ('self', 'cls'):
        pm[f.params[0]] = f.params[0]
    return pm


def rule_c13_r1(model: Model) -> RuleResult:
    r = RuleResult('C13-R1', 'the predicate sees the converted value, the accepted value is that value, a raising predicate is a rejection', floor=6)
    cls = model.cls(COND)
    attrs = subconv_attrs(model, cls)
    converted = 'self.inner.try_convert(VAL)'
    for mname in ('try_convert', 'collect_errors'):
        f = model.func(f'{COND}.{mname}')
        cfg = cfg_of(model, f)
        nz = Normalizer(model, f, cfg)
        r.analysed.add(f.qualname)
        preds = []
        for n in cfg.live_nodes():
            for root in node_exprs(n):
                for c in walk_no_nested(root):
                    if isinstance(c, ast.Call) and nz.expr(c.func, n) == 'self.condition':
                        preds.append((n, c))
        r.instances += 1
        if len(preds) != 1:
            r.fail(f.qualname, f"{len(preds)} predicate calls", f.loc(), "the condition must be evaluated exactly once per pass")
            continue
        n, c = preds[0]
        arg = nz.expr(c.args[0], n) if c.args else '?'
        r.sample({'method': mname, 'predicate_argument': arg})
        if arg == converted:
            r.ok()
        else:
            r.fail(f.qualname, f"self.condition({arg})", f.loc(c),
                   "the predicate is applied to something other than the converted value (e.g. the raw input): "
                   "Annotated[Set[int], len_range(min=2)] would accept [1, 1]")
        # guarded by a handler catching Exception
        r.instances += 1
        ok = False
        for tr in reversed(n.tries):
            for h in tr.handlers:
                hc = handler_classes(model, f, h)
                if hc and catches(model, hc, 'builtins.Exception'):
                    ok = True
        if ok:
            r.ok()
        else:
            r.fail(f.qualname, 'predicate unguarded', f.loc(c), "a predicate that raises is not turned into a failed condition")
        if mname == 'try_convert':
            r.instances += 1
            rets = [nz.expr(x.ast.value, x) for x in cfg.live_nodes() if x.kind == 'return' and x.ast is not None and x.ast.value is not None]
            if rets and all(x == converted for x in rets):
                r.ok()
            else:
                r.fail(f.qualname, f"returns {rets}", f.loc(), "the accepted value is not the converted value, unchanged")
    f = model.func(f'{COND}.into_data')
    r.instances += 1
    r.analysed.add(f.qualname)
    src = unparse(f.node)
    cfg = cfg_of(model, f)
    nz = Normalizer(model, f, cfg)
    rets = [nz.expr(x.ast.value, x) for x in cfg.live_nodes() if x.kind == 'return' and x.ast is not None and x.ast.value is not None]
    if 'self.condition' in src:
        r.fail(f.qualname, 'into_data consults the condition', f.loc(), "serialisation must ignore conditions")
    elif rets == ['self.inner.into_data(VAL)']:
        r.ok()
    else:
        r.fail(f.qualname, f"returns {rets}", f.loc(), "serialisation of a conditioned type must be the inner type's serialisation")
    return r


def _lambda_form(model: Model, f: FuncInfo, lam: ast.AST, node: Node, nz: Normalizer) -> t.Tuple[str, bool]:
    if isinstance(lam, ast.Lambda):
        b = {a.arg: f'λ{i}' for i, a in enumerate(lam.args.args)}
        return nz.literal(lam.body, node, b)
    return nz.expr(lam, node), True


def _apply_subst(text: str, subst: t.Dict[str, str]) -> str:
    for k in sorted(subst, key=len, reverse=True):
        text = re.sub(re.escape(k) + r'(?![A-Za-z0-9_])', lambda _m, v=subst[k]: v, text)
    return text


def _condition_ctor(model: Model, f: FuncInfo, call: ast.Call, node: Node, nz: Normalizer,
                    depth: int = 0) -> t.Tuple[FuncInfo, ast.Call, Node, Normalizer, t.Dict[str, str]]:
    """The ``Condition(...)`` construction a call amounts to: the call itself, or the single ``return Condition(...)`` of the
    package function / static method it names (followed through helpers, parameters substituted by the caller's arguments)."""
    q = model.resolve(call.func, f.module, f)
    if q == f'{ANN}.Condition':
        return f, call, node, nz, {}
    g = model.functions.get(q or '')
    if g is None or depth > 3 or not isinstance(g.node, ast.FunctionDef):
        raise AnalysisError(f"{f.loc(call)}: `{unparse(call.func)}(...)` is not a Condition construction the analysis can follow")
    params = list(g.params)
    static = any(isinstance(d, ast.Name) and d.id == 'staticmethod' for d in g.decorators)
    if g.cls is not None and not static and params:
        params = params[1:]
    if any(isinstance(a, ast.Starred) for a in call.args):
        raise AnalysisError(f"{f.loc(call)}: starred arguments to helper `{g.name}`")
    subst = {f'${p_}': nz.expr(a, node) for p_, a in zip(params, call.args)}
    subst.update({f'${k.arg}': nz.expr(k.value, node) for k in call.keywords if k.arg})
    gcfg = cfg_of(model, g)
    gnz = Normalizer(model, g, gcfg, param_map=_pm(g))
    rets = [x for x in gcfg.live_nodes() if x.kind == 'return' and x.ast is not None and isinstance(x.ast.value, ast.Call)]
    if len(rets) != 1:
        raise AnalysisError(f"{g.loc()}: helper `{g.name}` is not a single `return Condition(...)`")
    f2, call2, node2, nz2, sub2 = _condition_ctor(model, g, rets[0].ast.value, rets[0], gnz, depth + 1)
    composed = {k: _apply_subst(v, subst) for k, v in sub2.items()}
    for k, v in subst.items():
        composed.setdefault(k, v)
    return f2, call2, node2, nz2, composed


def rule_c13_r2(model: Model) -> RuleResult:
    r = RuleResult('C13-R2', 'combinators are the Boolean connectives: & = all, | = any, ~ = not', floor=5)
    spec = {
        '__and__': 'pane.annotations.Condition.all(self, $other)',
        '__or__': 'pane.annotations.Condition.any(self, $other)',
    }
    for mname, want in spec.items():
        f = model.func(f'{ANN}.Condition.{mname}')
        cfg = cfg_of(model, f)
        nz = Normalizer(model, f, cfg, param_map=_pm(f))
        r.instances += 1
        r.analysed.add(f.qualname)
        rets = [nz.expr(x.ast.value, x) for x in cfg.live_nodes() if x.kind == 'return' and x.ast is not None and x.ast.value is not None]
        r.sample({mname: rets})
        if rets in ([want], [want.replace('pane.annotations.Condition', 'self')]) or rets == [want.replace('(self, $other)', '($other, self)')]:
            r.ok()
        else:
            r.fail(f.qualname, f"returns {rets}", f.loc(), f"Condition.{mname} must build {want.split('.')[-1].split('(')[0]}(self, other)")
    lam_spec = {
        '__invert__': ('self.f(λ0)', False),
        'all': ('all(GEN(ELEM($conditions).f(λ0)))', True),
        'any': ('any(GEN(ELEM($conditions).f(λ0)))', True),
    }
    for mname, want in lam_spec.items():
        f = model.func(f'{ANN}.Condition.{mname}')
        cfg = cfg_of(model, f)
        nz = Normalizer(model, f, cfg, param_map=_pm(f))
        r.instances += 1
        r.analysed.add(f.qualname)
        all_rets = [x for x in cfg.live_nodes() if x.kind == 'return' and x.ast is not None and x.ast.value is not None]
        rets = [x for x in all_rets if isinstance(x.ast.value, ast.Call)]
        if not rets:
            raise AnalysisError(f"{f.loc()}: Condition.{mname} has no `return Condition(...)`")
        for x in all_rets:
            if x not in rets:
                r.fail(f.qualname, f"also returns `{unparse(x.ast.value)}`", f.loc(x.ast),
                       f"Condition.{mname} hands back an existing condition on some path instead of building the connective: the result is "
                       f"then whatever that condition computes (e.g. `x <= 0` instead of `not x > 0`, which differ on NaN and on values "
                       f"whose comparison raises)")
        for ret in rets:
            f2, call, node2, nz2, subst = _condition_ctor(model, f, ret.ast.value, ret, nz)
            lam = call.args[0] if call.args else next((k.value for k in call.keywords if k.arg == 'f'), None)
            if lam is None:
                raise AnalysisError(f"{f.loc()}: Condition.{mname}: predicate argument not found")
            got = _lambda_form(model, f2, lam, node2, nz2)
            got = (_apply_subst(got[0], subst).replace('builtins.', ''), got[1])
            r.sample({mname: got})
            if got == want:
                r.ok()
            elif mname in ('all', 'any') and got == (want[0].replace('GEN(', 'LIST('), True):
                r.fail(f.qualname, f"predicate {got[0]}", f.loc(call),
                       f"Condition.{mname} evaluates every sub-condition before combining them (a list, not a generator): it no longer short-circuits, "
                       f"so a later predicate that raises on a value an earlier one already decided turns the result into a failure")
            else:
                r.fail(f.qualname, f"predicate {'' if got[1] else 'not '}{got[0]}", f.loc(call),
                       f"Condition.{mname} does not compute {'not ' if not want[1] else ''}{want[0]}")
    return r


STOCK = {
    # name -> (atom, polarity)  of the one-expression predicate, in literal normal form
    'Positive': ('0 < λ0', True),
    'Negative': ('λ0 < 0', True),
    'NonPositive': ('0 < λ0', False),
    'NonNegative': ('λ0 < 0', False),
    'Empty': ('TRUTHY(λ0)', False),
    'NonEmpty': ('TRUTHY(λ0)', True),
    'Finite': ('math.isfinite', True),
}
RANGE = {
    'val_range': {'min': ('λ0 < $min', False), 'max': ('$max < λ0', False)},
    'len_range': {'min': ('len(λ0) < $min', False), 'max': ('$max < len(λ0)', False)},
}
ALIASES = {
    'PositiveInt': ('builtins.int', 'Positive'), 'NonNegativeInt': ('builtins.int', 'NonNegative'),
    'NegativeInt': ('builtins.int', 'Negative'), 'NonPositiveInt': ('builtins.int', 'NonPositive'),
    'PositiveFloat': ('builtins.float', 'Positive'), 'NonNegativeFloat': ('builtins.float', 'NonNegative'),
    'NegativeFloat': ('builtins.float', 'Negative'), 'NonPositiveFloat': ('builtins.float', 'NonPositive'),
    'FiniteFloat': ('builtins.float', 'Finite'),
}


def rule_c13_r3(model: Model) -> RuleResult:
    r = RuleResult('C13-R3', 'stock conditions compute the documented predicate (operator, operand, bound; boundaries inclusive)', floor=20)
    m = model.module(ANN)
    # a fake function scope to normalise module-level lambdas
    for name, want in STOCK.items():
        v = m.assign_values.get(name)
        r.instances += 1
        if not isinstance(v, ast.Call) or not v.args:
            raise AnalysisError(f"{m.relpath}: stock condition {name} is not built by a call with its predicate first")
        got = _module_lambda_form(model, m, v.args[0])
        r.sample({name: ('' if got[1] else 'not ') + got[0]})
        if got == want:
            r.ok()
        else:
            r.fail(f'{ANN}.{name}', f"predicate {'' if got[1] else 'not '}{got[0]}", f"{m.relpath}:{v.lineno}",
                   f"{name} must be {'' if want[1] else 'not '}{want[0]} (e.g. the boundary value 0 is decided the wrong way)")
    # the makers the stock conditions are built with hand the predicate they are given to Condition as it is
    makers: t.Dict[str, FuncInfo] = {}
    for name in STOCK:
        v = m.assign_values.get(name)
        if isinstance(v, ast.Call):
            q = model.resolve(v.func, m)
            g = model.functions.get(q or '')
            if g is not None and q != f'{ANN}.Condition' and isinstance(g.node, ast.FunctionDef):
                makers[g.qualname] = g
    for q, g in sorted(makers.items()):
        r.instances += 1
        r.analysed.add(q)
        gcfg = cfg_of(model, g)
        gnz = Normalizer(model, g, gcfg, param_map=_pm(g))
        ctors = []
        for n in gcfg.live_nodes():
            for root in node_exprs(n):
                for c in walk_no_nested(root):
                    if isinstance(c, ast.Call) and model.resolve(c.func, g.module, g) == f'{ANN}.Condition':
                        pred = c.args[0] if c.args else next((k.value for k in c.keywords if k.arg == 'f'), None)
                        ctors.append((c, gnz.expr(pred, n) if pred is not None else None))
        r.sample({q: [x for _c, x in ctors]})
        if ctors and all(x == f'${g.params[0]}' for _c, x in ctors):
            r.ok()
        else:
            c0 = ctors[0][0] if ctors else g.node
            r.fail(q, f"Condition({ctors[0][1] if ctors else '?'}, ...)", g.loc(c0),
                   f"{g.name} does not build the condition on the predicate it is given: every stock condition made with it computes "
                   f"something else than its documented predicate (e.g. accepts None, on which the predicate raises)")
    for fname, bounds in RANGE.items():
        f = model.func(f'{ANN}.{fname}')
        cfg = cfg_of(model, f)
        nz = Normalizer(model, f, cfg, param_map=_pm(f))
        r.analysed.add(f.qualname)
        found: t.Dict[str, t.Tuple[str, bool]] = {}
        guards: t.Dict[str, bool] = {}
        for n in cfg.live_nodes():
            for root in node_exprs(n):
                for c in walk_no_nested(root):
                    if isinstance(c, ast.Call) and model.resolve(c.func, f.module, f) == f'{ANN}.Condition' and c.args:
                        got = _lambda_form(model, f, c.args[0], n, nz)
                        for b in bounds:
                            if f'${b}' in got[0]:
                                found[b] = got
                                # built only when the bound is given: statement-level branch or conditional expression
                                ok = False
                                for a in cfg.nodes:
                                    if a.kind == 'cond':
                                        text, pos = nz.literal(a.ast, a)
                                        if text in (f"None is ${b}", f"${b} is None"):
                                            lb = 'F' if pos else 'T'
                                            if a.edge(lb) and cfg.edge_dominates(a, lb, n):
                                                ok = True
                                child: ast.AST = c
                                for anc in ancestors(c):
                                    if isinstance(anc, ast.IfExp) and child is not anc.test:
                                        text, pos = nz.literal(anc.test, n)
                                        if text in (f"None is ${b}", f"${b} is None"):
                                            holds_none = pos if child is anc.body else not pos
                                            if not holds_none:
                                                ok = True
                                    if isinstance(anc, ast.stmt):
                                        break
                                    child = anc
                                guards[b] = ok
        for b, want in bounds.items():
            r.instances += 1
            got = found.get(b)
            r.sample({f"{fname}({b}=)": (('' if got[1] else 'not ') + got[0]) if got else None})
            if got is None:
                r.fail(f.qualname, f"no predicate for {b}", f.loc(), f"{fname} ignores its `{b}` bound")
            elif got != want:
                r.fail(f.qualname, f"{b}: {'' if got[1] else 'not '}{got[0]}", f.loc(),
                       f"{fname}({b}=...) must be {'' if want[1] else 'not '}{want[0]} (inclusive bound)")
            elif not guards.get(b):
                r.fail(f.qualname, f"{b} predicate not guarded by `{b} is not None`", f.loc(), f"{fname} applies its `{b}` bound even when it is not given")
            else:
                r.ok()
        # combined with all()
        r.instances += 1
        rets = [nz.expr(x.ast.value, x) for x in cfg.live_nodes() if x.kind == 'return' and x.ast is not None and x.ast.value is not None]
        if rets and all('pane.annotations.Condition.all(*' in x for x in rets):
            r.ok()
        else:
            r.fail(f.qualname, f"returns {rets}", f.loc(), f"{fname} must require all of its bounds (Condition.all)")
    # (the wanted shape is compared as a tuple: array shapes are tuples, and a shape given as a list never equals one)
    for fname, want in (('shape', ('tuple($shape) == λ0.shape', True)), ('broadcastable', ('pane.util.is_broadcastable(λ0.shape, $shape)', True))):
        f = model.func(f'{ANN}.{fname}')
        cfg = cfg_of(model, f)
        nz = Normalizer(model, f, cfg, param_map=_pm(f))
        r.instances += 1
        got = None
        for n in cfg.live_nodes():
            for root in node_exprs(n):
                for c in walk_no_nested(root):
                    if isinstance(c, ast.Call) and model.resolve(c.func, f.module, f) == f'{ANN}.Condition' and c.args:
                        got = _lambda_form(model, f, c.args[0], n, nz)
        r.sample({fname: got})
        same = {want, (want[0].replace('λ0.shape', 'tuple(λ0.shape)'), want[1]), (want[0].replace(', $shape)', ', tuple($shape))'), want[1])}
        if got in same:
            r.ok()
        else:
            r.fail(f.qualname, f"predicate {got}", f.loc(), f"{fname} must test {want[0]}")
    # aliases in pane.types pair the right base type with the right condition
    tm = model.module('pane.types')
    for alias, (base, cond) in ALIASES.items():
        v = tm.assign_values.get(alias)
        r.instances += 1
        if not isinstance(v, ast.Subscript) or not isinstance(v.slice, ast.Tuple) or len(v.slice.elts) != 2:
            r.fail(f'pane.types.{alias}', 'not Annotated[T, cond]', f"{tm.relpath}", f"alias {alias} is missing or not of the form Annotated[type, condition]")
            continue
        b = model.resolve(v.slice.elts[0], tm)
        c = model.resolve(v.slice.elts[1], tm)
        if b == base and c == f'{ANN}.{cond}':
            r.ok()
        else:
            r.fail(f'pane.types.{alias}', f"Annotated[{b}, {c}]", f"{tm.relpath}:{v.lineno}", f"{alias} must be Annotated[{base.split('.')[-1]}, {cond}]")
    return r


def _module_lambda_form(model: Model, m: t.Any, lam: ast.AST) -> t.Tuple[str, bool]:
    """Normal form of a lambda (or function reference) appearing at module level."""
    src = "def __scope__():\n    return 0\n"
    fake_node = ast.parse(src).body[0]
    f = FuncInfo('__scope__', f'{m.name}.__scope__', m, fake_node, None, None)  # type: ignore[arg-type]
    cfg = CFG(model, f)
    nz = Normalizer(model, f, cfg)
    node = cfg.entry
    if isinstance(lam, ast.Lambda):
        b = {a.arg: f'λ{i}' for i, a in enumerate(lam.args.args)}
        return nz.literal(lam.body, node, b)
    return nz.expr(lam, node), True


def rule_c13_r4(model: Model) -> RuleResult:
    r = RuleResult('C13-R4', 'no condition of an annotation is dropped; several conditions are combined with all()', floor=3)
    f = model.func('pane.convert._annotated_converter')
    cfg = cfg_of(model, f)
    nz = Normalizer(model, f, cfg, param_map=_pm(f))
    r.analysed.add(f.qualname)
    loops = [n for n in cfg.live_nodes() if n.kind == 'iter']
    if len(loops) != 1:
        raise AnalysisError(f"{f.loc()}: _annotated_converter is expected to have one loop over the annotations")
    lp = loops[0]
    # (1) every Condition annotation is buffered
    r.instances += 1
    appended = False
    for n in cfg.live_nodes():
        if lp.ast in n.loop_of:
            for root in node_exprs(n):
                for c in walk_no_nested(root):
                    if isinstance(c, ast.Call) and isinstance(c.func, ast.Attribute) and c.func.attr == 'append' and c.args:
                        if nz.expr(c.args[0], n) == 'ELEM($args)':
                            for a in cfg.nodes:
                                if a.kind == 'cond':
                                    text, pos = nz.literal(a.ast, a)
                                    if text == 'isinstance(ELEM($args), {pane.annotations.Condition})' and a.edge('T' if pos else 'F') \
                                            and cfg.edge_dominates(a, 'T' if pos else 'F', n):
                                        appended = True
    if appended:
        r.ok()
    else:
        r.fail(f.qualname, 'conditions not buffered', f.loc(lp.ast), "a Condition annotation is not collected for application")
    # (2) after the loop: the buffered conditions are applied before returning
    post = [n for n in cfg.live_nodes() if lp.ast not in n.loop_of]
    rets = [n for n in post if n.kind == 'return']
    flush_nodes: t.List[Node] = []
    has_all = has_one = False
    helper_ok: t.Optional[bool] = None
    for n in post:
        for root in node_exprs(n):
            for c in walk_no_nested(root):
                if not isinstance(c, ast.Call):
                    continue
                if isinstance(c.func, ast.Attribute) and c.func.attr == '_converter':
                    recv = unparse(c.func.value)
                    if 'Condition.all(*' in recv:
                        has_all = True
                        flush_nodes.append(n)
                    elif re.match(r'^\w+\[0\]$', recv):
                        has_one = True
                        flush_nodes.append(n)
                else:
                    q = model.resolve(c.func, f.module, f)
                    g = model.functions.get(q or '')
                    if g is not None and g.cls is None and any(nz.expr(a, n).startswith('ACC') or unparse(a) == 'conditions' for a in c.args):
                        # the flush is delegated to a helper: it must apply all() to several conditions, the single one otherwise,
                        # and hand back its input unchanged only for an empty buffer
                        gcfg = cfg_of(model, g)
                        gnz = Normalizer(model, g, gcfg, param_map={p_: f'${p_}' for p_ in g.params})
                        buf = g.params[1] if len(g.params) > 1 else None
                        # which statements of the helper run for a buffer of 0, 1, 2, 3+ conditions (paths followed with the set of
                        # sizes that satisfy every size test on them)
                        sizes_at: t.Dict[int, t.Set[int]] = {}
                        todo_: t.List[t.Tuple[Node, t.FrozenSet[int]]] = [(gcfg.entry, frozenset({0, 1, 2, 3}))]
                        seen_: t.Set[t.Tuple[int, t.FrozenSet[int]]] = set()
                        while todo_:
                            x_, sz_ = todo_.pop()
                            if (x_.id, sz_) in seen_ or not sz_:
                                continue
                            seen_.add((x_.id, sz_))
                            sizes_at.setdefault(x_.id, set()).update(sz_)
                            lit_ = None
                            if x_.kind == 'cond' and x_.ast is not None:
                                tx_, ps_ = gnz.literal(x_.ast, x_)
                                tx2_ = re.sub(r'^TRUTHY\(len\((.*)\)\)$', r'TRUTHY(\1)', tx_)
                                if _eval_len_literal(tx2_, 1) is not None:
                                    lit_ = (tx2_, ps_)
                            for (lb_, y_) in x_.succ:
                                s2_ = sz_
                                if lit_ is not None and lb_ in ('T', 'F'):
                                    want_ = (lb_ == 'T') == lit_[1]
                                    s2_ = frozenset(n_ for n_ in sz_ if _eval_len_literal(lit_[0], n_) == want_)
                                todo_.append((y_, s2_))
                        sz_all: t.Set[int] = set()
                        sz_one: t.Set[int] = set()
                        sz_ident: t.Set[int] = set()
                        applied = True
                        for x_ in gcfg.live_nodes():
                            txt_ = unparse(x_.ast) if x_.ast is not None else ''
                            if x_.kind in ('stmt', 'return') and re.search(r'Condition\.all\(\*%s\)' % re.escape(buf or '?'), txt_):
                                sz_all |= sizes_at.get(x_.id, set())
                            if x_.kind in ('stmt', 'return') and re.search(r'\b%s\[0\]' % re.escape(buf or '?'), txt_):
                                sz_one |= sizes_at.get(x_.id, set())
                            if x_.kind == 'return' and x_.ast is not None and x_.ast.value is not None:
                                form_ = gnz.expr(x_.ast.value, x_)
                                if form_ == f'${g.params[0]}':
                                    sz_ident |= sizes_at.get(x_.id, set())
                                elif '._converter(' not in form_ or f'${g.params[0]}' not in form_ or 'handlers=$handlers' not in form_.replace('handlers=$' + (g.params[2] if len(g.params) > 2 else 'handlers'), 'handlers=$handlers'):
                                    applied = False
                        want_all = {2, 3} <= sz_all and 0 not in sz_all
                        want_one = (1 in sz_one or 1 in sz_all) and 0 not in sz_one
                        helper_ok = bool(want_all and want_one and applied and sz_ident <= {0})
                        has_all = has_all or want_all
                        has_one = has_one or want_one
                        flush_nodes.append(n)
                        r.analysed.add(g.qualname)
    r.instances += 1
    if not flush_nodes or not has_all or not has_one or not rets or helper_ok is False:
        r.fail(f.qualname, 'no final flush of the condition buffer', f.loc(),
               "conditions buffered at the end of the annotation list are never applied (or not all of them): Annotated[int, Positive] accepts -1")
    else:
        # reaching the return with a non-empty buffer must pass through a flush
        ok = True
        empty_edges = []
        for a in cfg.nodes:
            if a.kind == 'cond' and lp.ast not in a.loop_of:
                text, pos = nz.literal(a.ast, a)
                if text.startswith('TRUTHY(') and 'conditions' in unparse(a.ast):
                    empty_edges.append((a.id, 'F' if pos else 'T'))
        # path-sensitive in the size of the buffer: a path is followed with the sizes (1, 2, 3 = "more") that satisfy every size
        # test on it; `if len(b) > 1: ... elif len(b) == 1: ...` leaves no size for the fall-through
        for rn in rets:
            seen_states: t.Set[t.Tuple[int, t.FrozenSet[int]]] = set()
            stack2: t.List[t.Tuple[Node, t.FrozenSet[int]]] = [(m, frozenset({1, 2, 3})) for m in lp.edge('F')]
            reached = False
            while stack2:
                x, sizes = stack2.pop()
                if (x.id, sizes) in seen_states or any(x is fl for fl in flush_nodes) or not sizes:
                    continue
                seen_states.add((x.id, sizes))
                if x is rn:
                    reached = True
                    break
                lit = None
                if x.kind == 'cond' and x.ast is not None:
                    text, pos = nz.literal(x.ast, x)
                    if _eval_len_literal(text, 1) is not None and ('conditions' in unparse(x.ast) or text.startswith('TRUTHY(ACC')):
                        lit = (text, pos)
                for (lb, y) in x.succ:
                    if (x.id, lb) in empty_edges:
                        continue
                    sz = sizes
                    if lit is not None and lb in ('T', 'F'):
                        want = (lb == 'T') == lit[1]
                        sz = frozenset(n_ for n_ in sizes if _eval_len_literal(lit[0], n_) == want)
                    stack2.append((y, sz))
            if reached:
                ok = False
        if ok:
            r.ok()
        else:
            r.fail(f.qualname, 'a path to the return skips the flush', f.loc(rets[0].ast),
                   "some path returns the converter while conditions are still buffered (they are dropped)")
    r.instances += 1
    # which flush runs for a buffer of n conditions: none for 0, the single one (or all) for 1, all() for 2 and more
    def which(n_conds: int) -> t.Set[str]:
        ran = set()
        for fl in flush_nodes:
            kind = 'all' if 'Condition.all(*' in unparse(fl.ast) else 'one'
            holds = True
            for (cid, lb) in cfg.conditions_of(fl):
                cn = cfg.nodes[cid]
                if cn.kind != 'cond' or cn.ast is None:
                    continue
                text, pos = nz.literal(cn.ast, cn)
                v = _eval_len_literal(text, n_conds)
                if v is None:
                    continue
                if v != (pos == (lb == 'T')):
                    holds = False
            if holds:
                ran.add(kind)
        return ran
    table = {n_: which(n_) for n_ in (0, 1, 2, 5)}
    r.sample({'flush per buffer size': {k: sorted(v) for k, v in table.items()}})
    if helper_ok or (table[0] == set() and table[1] in ({'one'}, {'all'}) and table[2] == {'all'} and table[5] == {'all'}):
        r.ok()
    else:
        r.fail(f.qualname, f"flush per buffer size {({k: sorted(v) for k, v in table.items()})}", f.loc(),
               "several conditions on one annotation are not combined with Condition.all (or an empty / single buffer is handled wrongly)")
    return r


def _eval_len_literal(text: str, n: int) -> t.Optional[bool]:
    """Truth of a literal about the size of the condition buffer (`TRUTHY(buf)`, `1 < len(buf)`, `1 == len(buf)` ...) for size n."""
    m = re.match(r'^TRUTHY\((ACC\{.*\}|\$?\w+|\[\])\)$', text)
    if m:
        return n > 0
    m = re.match(r'^(\d+) (<|==) len\(.*\)$', text)
    if m:
        k = int(m.group(1))
        return (k < n) if m.group(2) == '<' else (k == n)
    m = re.match(r'^len\(.*\) (<|==) (\d+)$', text)
    if m:
        k = int(m.group(2))
        return (n < k) if m.group(1) == '<' else (n == k)
    return None


def rule_c13_r5(model: Model) -> RuleResult:
    r = RuleResult('C13-R5', 'no predicate closure captures a loop variable (late binding)', floor=5)
    for modname in ('pane.annotations', 'pane.types'):
        m = model.module(modname)
        for lam in ast.walk(m.tree):
            if not isinstance(lam, (ast.Lambda, ast.FunctionDef)):
                continue
            loops = [a for a in ancestors(lam) if isinstance(a, (ast.For, ast.While, ast.comprehension, ast.ListComp, ast.GeneratorExp, ast.SetComp, ast.DictComp))]
            encl_fn = next((a for a in ancestors(lam) if isinstance(a, (ast.FunctionDef, ast.Lambda))), None)
            if isinstance(lam, ast.Lambda):
                r.instances += 1
            loop_vars: t.Set[str] = set()
            for lp in loops:
                # only loops inside the same enclosing function
                if encl_fn is not None and encl_fn not in list(ancestors(lp)):
                    continue
                if isinstance(lp, ast.For):
                    loop_vars |= {x.id for x in ast.walk(lp.target) if isinstance(x, ast.Name)}
                    for st in lp.body:
                        for x in ast.walk(st):
                            if isinstance(x, ast.Assign):
                                for tg in x.targets:
                                    loop_vars |= {y.id for y in ast.walk(tg) if isinstance(y, ast.Name)}
                elif isinstance(lp, (ast.ListComp, ast.GeneratorExp, ast.SetComp, ast.DictComp)):
                    for g in lp.generators:
                        loop_vars |= {x.id for x in ast.walk(g.target) if isinstance(x, ast.Name)}
            if not loop_vars:
                if isinstance(lam, ast.Lambda):
                    r.ok()
                continue
            args = lam.args
            bound = {a.arg for a in (*args.posonlyargs, *args.args, *args.kwonlyargs)}
            body = lam.body if isinstance(lam, ast.Lambda) else lam
            body_nodes = ast.walk(body) if isinstance(lam, ast.Lambda) else (x for st in lam.body for x in ast.walk(st))
            free = {x.id for x in body_nodes if isinstance(x, ast.Name) and isinstance(x.ctx, ast.Load)} - bound
            # a lambda that is the element of the comprehension and called immediately is fine; we only look at
            # closures stored for later (all closures here are stored in Condition objects)
            cap = free & loop_vars
            if cap and not _consumed_in_place(lam):
                r.fail(f"{modname}", f"closure captures loop variable(s) {sorted(cap)}", f"{m.relpath}:{lam.lineno}",
                       "the closure is created in a loop and reads the loop variable when it is *called*: every predicate built by "
                       "the loop then uses the value of the last iteration")
            elif isinstance(lam, ast.Lambda):
                r.ok()
    return r


def _consumed_in_place(lam: ast.AST) -> bool:
    """A generator / lambda evaluated within the same expression (all(... for cond in conditions)) is not a
    stored closure."""
    par = getattr(lam, '_parent', None)
    return isinstance(par, ast.Call) and isinstance(par.func, ast.Name) and par.func.id in ('filter', 'map', 'sorted', 'min', 'max') \
        and getattr(par, '_parent', None) is not None and not isinstance(getattr(par, '_parent', None), (ast.Assign, ast.Return))
