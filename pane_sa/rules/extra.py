"""Further structural rules added after the second round of seeded changes (each names the property it serves)."""
from __future__ import annotations

import ast
import re
import typing as t

from .. import anchors
from ..cfg import CFG, Node, catches, cfg_of, handler_classes, node_exprs, walk_no_nested
from ..family import CONVERT_ERROR, CONVERTER, PI, conversion_zone, family, find_subcalls, helper_closure, subconv_attrs
from ..model import AnalysisError, ClassInfo, FuncInfo, Model, ancestors, unparse
from ..norm import Normalizer
from ..report import RuleResult
from .pairs import Accumulators

UNION_LIKE = ('UnionConverter', 'ValueOrListConverter')


def _pm(f: FuncInfo) -> t.Dict[str, str]:
    pm = {p: f'${p}' for p in f.params}
    if f.params and f.params[0] in ('self', 'cls'):
        pm[f.params[0]] = f.params[0]
    return pm


def rule_no_swallowed_rejection(model: Model, rule_id: str = 'C01-R4') -> RuleResult:
    """C01 / C02: a rejection by an element's converter rejects the whole value (only a union tries alternatives)."""
    r = RuleResult(rule_id, "an element's rejection is never swallowed by the fast pass (only unions try alternatives)", floor=10)
    zone = conversion_zone(model)
    for cls in family(model):
        if cls.name in UNION_LIKE:
            continue
        attrs = subconv_attrs(model, cls)
        for f in zone[cls.qualname]:
            if 'collect_errors' in f.name:
                continue
            cfg = cfg_of(model, f)
            nz = Normalizer(model, f, cfg)
            for sc in find_subcalls(model, cls, f, nz, cfg, attrs):
                if sc.method != 'try_convert':
                    continue
                r.instances += 1
                r.analysed.add(f.qualname)
                bad = None
                for tr in reversed(sc.node.tries):
                    for h in tr.handlers:
                        hc = handler_classes(model, f, h)
                        if hc and catches(model, hc, PI):
                            if not _always_rejects(model, f, h):
                                bad = h
                            break
                r.sample({'function': f.qualname, 'delegation': f"{sc.recv}.try_convert({sc.arg})", 'swallowed': bad is not None})
                if bad is None:
                    r.ok()
                else:
                    r.fail(f.qualname, f"{sc.recv}.try_convert({sc.arg}) under a handler that can continue", f.loc(bad),
                           "a value the element's type refuses can still be accepted (the rejection is caught and the handler goes on): "
                           "e.g. None silently accepted for a non-optional field that has a default")
    return r


def _always_rejects(model: Model, f: FuncInfo, h: ast.ExceptHandler) -> bool:
    """Every path through the handler body ends in ``raise`` (ParseInterrupt or re-raise)."""
    def ends(body: t.Sequence[ast.stmt]) -> bool:
        if not body:
            return False
        last = body[-1]
        if isinstance(last, ast.Raise):
            return True
        if isinstance(last, ast.If):
            return ends(last.body) and ends(last.orelse)
        return False
    # no early continue / return / break before the final raise
    for st in h.body:
        for sub in ast.walk(st):
            if isinstance(sub, (ast.Continue, ast.Break, ast.Return)):
                return False
    return ends(h.body)


def rule_unchecked_dict_complete(model: Model, rule_id: str = 'C14-R6') -> RuleResult:
    """C14 / C03: from_dict_unchecked stores the dict verbatim, so the dict must contain the defaulted fields."""
    r = RuleResult(rule_id, 'from_dict_unchecked is only given a field dict that was completed with the defaults', floor=1)
    cls = model.cls('pane.classes.PaneConverter')
    for f in cls.methods.values():
        cfg = cfg_of(model, f)
        acc = Accumulators(model, f, cfg)
        nz = Normalizer(model, f, cfg)
        for n in cfg.live_nodes():
            for root in node_exprs(n):
                for c in walk_no_nested(root):
                    if isinstance(c, ast.Call) and isinstance(c.func, ast.Attribute) and c.func.attr == 'from_dict_unchecked' and c.args:
                        r.instances += 1
                        r.analysed.add(f.qualname)
                        a0 = c.args[0]
                        ok = False
                        if isinstance(a0, ast.Name) and a0.id in acc.names:
                            vals = [nz.expr(v, fn) for (fn, _st, _k, v) in acc.fills.get(a0.id, []) if v is not None]
                            ok = any(x.endswith('.default') for x in vals) and any(x.endswith('.default_factory()') for x in vals)
                        r.sample({'function': f.qualname, 'dict': unparse(a0), 'completed_with_defaults': ok})
                        if ok:
                            r.ok()
                        else:
                            r.fail(f.qualname, f"from_dict_unchecked({unparse(a0)})", f.loc(c),
                                   "the unchecked dict constructor stores exactly the given entries: fields with a default or default factory that "
                                   "were not supplied do not exist on the instance that __post_init__ sees (the other pass fills them in)")
    return r


ORDERING = {'sorted', 'min', 'max'}


def rule_no_ordering_refs(model: Model, rule_id: str = 'C06-R5') -> RuleResult:
    """C05 / C06: serialisation never orders members (calls or references to sorted / min / max / .sort)."""
    r = RuleResult(rule_id, 'serialisation never orders or compares the members of a container', floor=10)
    base_into = model.func(f'{CONVERTER}.into_data')
    for cls in family(model):
        f = model.find_method(cls.qualname, 'into_data')
        if f is None or f.qualname == base_into.qualname:
            continue
        for g in [x for x in helper_closure(model, cls, 'into_data') if x.cls is not None and x.cls.qualname != CONVERTER]:
            r.instances += 1
            r.analysed.add(g.qualname)
            bad = None
            for sub in ast.walk(g.node):
                if isinstance(sub, ast.Name) and sub.id in ORDERING and isinstance(sub.ctx, ast.Load) and model.resolve(sub, g.module, g) == f'builtins.{sub.id}':
                    bad = sub
                if isinstance(sub, ast.Attribute) and sub.attr == 'sort' and isinstance(getattr(sub, '_parent', None), ast.Call):
                    bad = sub
            if bad is not None:
                r.fail(g.qualname, unparse(bad), g.loc(bad),
                       "into_data orders serialised members: values whose data forms are not mutually orderable (mappings, None next to numbers, "
                       "complex, mixed kinds) make serialisation raise, so a valid typed value can no longer be written or re-converted")
            else:
                r.ok()
    return r


def rule_hashable_writers(model: Model, rule_id: str = 'C06-R6') -> RuleResult:
    """C05 / C06: tuple types may be mapping keys, so their serialised form must stay hashable (a tuple)."""
    r = RuleResult(rule_id, 'tuple-typed values serialise to tuples (usable as mapping keys in interchange data)', floor=2)
    for (q, cond) in (('pane.converters.TupleConverter.into_data', None), ('pane.classes.PaneConverter.into_data', 'tuple')):
        f = model.func(q)
        cfg = cfg_of(model, f)
        nz = Normalizer(model, f, cfg)
        r.analysed.add(q)
        from ..cfg import returned_values
        for (val_e, n) in returned_values(cfg):
            if cond is not None:
                dom = False
                for a in cfg.nodes:
                    if a.kind == 'cond':
                        text, pos = nz.literal(a.ast, a)
                        if text == "'tuple' == self.opts.out_format" and a.edge('T' if pos else 'F') and cfg.edge_dominates(a, 'T' if pos else 'F', n):
                            dom = True
                if not dom:
                    continue
            r.instances += 1
            form = nz.expr(val_e, n)
            r.sample({q: form[:80]})
            if form.startswith('tuple('):
                r.ok()
            else:
                r.fail(q, f"returns {form[:80]}", f.loc(val_e),
                       "a fixed tuple is written as an unhashable container: a Dict[Tuple[...], V] value can no longer be serialised "
                       "(its keys are not hashable), so convert(x, T) fails on a valid x")
    return r


def rule_no_truthiness_default_on_actual(model: Model, rule_id: str = 'C08-R7') -> RuleResult:
    """C08: the offending value is shown even when it is falsy (no `x or default` on it)."""
    r = RuleResult(rule_id, "renderers never replace a falsy offending value by a default (`actual or ...`)", floor=1)
    m = model.module('pane.errors')
    n_inst = 0
    for q, f in model.functions.items():
        if not q.startswith('pane.errors.') or not isinstance(f.node, ast.FunctionDef):
            continue
        uses_actual = any(isinstance(x, ast.Constant) and x.value == 'actual' or isinstance(x, ast.Attribute) and x.attr == 'actual' for x in ast.walk(f.node))
        if not uses_actual:
            continue
        n_inst += 1
        r.analysed.add(q)
        bad = None
        for b in ast.walk(f.node):
            if isinstance(b, ast.BoolOp) and isinstance(b.op, ast.Or):
                first = b.values[0]
                if any((isinstance(x, ast.Constant) and x.value == 'actual') or (isinstance(x, ast.Attribute) and x.attr == 'actual')
                       or (isinstance(x, ast.Name) and x.id == 'actual') for x in ast.walk(first)):
                    bad = b
            if isinstance(b, ast.IfExp) and isinstance(b.test, (ast.Name, ast.Attribute)) and 'actual' in unparse(b.test):
                bad = b
        if bad is not None:
            r.fail(q, unparse(bad)[:80], f.loc(bad), "a falsy offending value (0, '', [], False) is replaced by a default: the message no longer shows the value received")
        else:
            r.ok()
    r.instances = n_inst
    return r


def _tables(model: Model) -> t.Set[str]:
    out = {anchors.scalar_table(model), anchors.args_table(model), anchors.abstract_table(model), 'pane.convert._ScalarType', 'pane.convert._DataType'}
    for optional in (anchors.hash_table, anchors.joiner_table):
        try:
            out.add(optional(model))          # (a table that a refactoring turned into a function is no table to protect)
        except AnalysisError:
            pass
    return out
MUT = {'append', 'extend', 'insert', 'remove', 'clear', 'pop', 'sort', 'reverse', 'update', 'setdefault', 'popitem', 'add', 'discard', '__setitem__', '__delitem__'}


def rule_tables_immutable(model: Model, rule_id: str = 'C10-R7') -> RuleResult:
    """C10: the module-level dispatch tables are constants; no function writes to them."""
    r = RuleResult(rule_id, 'module-level dispatch tables are never written at run time', floor=5)
    for tq in sorted(_tables(model)):
        mod, _, nm = tq.rpartition('.')
        if model.module_of(mod) is None or nm not in model.module(mod).assign_values:
            raise AnalysisError(f"anchor table {tq} not found")
        r.instances += 1
        writers = []
        for m in model.modules.values():
            for node in ast.walk(m.tree):
                fn = model.enclosing_function(node)
                hit = None
                if isinstance(node, ast.Call) and isinstance(node.func, ast.Attribute) and node.func.attr in MUT \
                        and model.resolve(node.func.value, m, fn) == tq:
                    hit = f".{node.func.attr}()"
                elif isinstance(node, (ast.Assign, ast.AugAssign, ast.Delete)):
                    tgts = node.targets if isinstance(node, (ast.Assign, ast.Delete)) else [node.target]
                    for tg in tgts:
                        if isinstance(tg, ast.Subscript) and model.resolve(tg.value, m, fn) == tq:
                            hit = 'item store'
                        if isinstance(tg, (ast.Name, ast.Attribute)) and fn is not None and model.resolve(tg, m, fn) == tq and isinstance(node, ast.AugAssign):
                            hit = 'augmented assignment'
                elif isinstance(node, ast.Global) and nm in node.names and m.name.rstrip('.__init__') == mod:
                    hit = 'global rebinding'
                if hit:
                    writers.append((fn.qualname if fn else m.name, hit, f"{m.relpath}:{node.lineno}"))
        if writers:
            for (who, what, loc) in writers:
                r.fail(who, f"{what} on {nm}", loc,
                       f"the dispatch table {nm} is modified while the program runs: what a type converts to depends on which conversions ran before "
                       f"(and with which handlers)")
        else:
            r.ok()
    return r


def rule_keycache_shared_state(model: Model, rule_id: str = 'C10-R8') -> RuleResult:
    """C10: outside the lock the cache performs only single dict reads / stores on shared state."""
    r = RuleResult(rule_id, 'KeyCache keeps no shared bookkeeping outside its lock besides the entry and its keep-alive reference', floor=2)
    f = model.func('pane.util.KeyCache.__call__')
    r.analysed.add(f.qualname)
    allowed_store = re.compile(r'^self\.(cache|_refs)\[')
    for sub in ast.walk(f.node):
        what = None
        node: t.Optional[ast.AST] = None
        if isinstance(sub, ast.Call) and isinstance(sub.func, ast.Attribute) and sub.func.attr in MUT and unparse(sub.func.value).startswith('self.'):
            what = unparse(sub.func)
            node = sub
        elif isinstance(sub, (ast.Assign, ast.AugAssign)):
            tgts = sub.targets if isinstance(sub, ast.Assign) else [sub.target]
            for tg in tgts:
                s = unparse(tg)
                if s.startswith('self.'):
                    what = s
                    node = sub
        if what is None or node is None:
            continue
        r.instances += 1
        locked = any(isinstance(a, ast.With) and any(unparse(i.context_expr) == 'self._lock' for i in a.items) for a in ancestors(node))
        if locked or allowed_store.match(what):
            r.ok()
        else:
            r.fail(f.qualname, what, f.loc(node),
                   "shared state of the cache is modified outside the lock: concurrent first-time lookups of the same key interfere "
                   "(one of them can fail or see the other's bookkeeping)")
    return r


def rule_annotation_flush_args(model: Model, rule_id: str = 'C13-R6') -> RuleResult:
    """C12 / C13: every annotation wraps the converter built so far (not the bare type), and every Condition is buffered."""
    r = RuleResult(rule_id, 'annotations are applied cumulatively: each wraps the converter built so far; every Condition is buffered', floor=2)
    f = model.func('pane.convert._annotated_converter')
    funcs = [f]
    for c in ast.walk(f.node):
        if isinstance(c, ast.Call):
            q = model.resolve(c.func, f.module, f)
            g = model.functions.get(q or '')
            if g is not None and g.cls is None and g.qualname.startswith('pane.convert._') and g is not f:
                funcs.append(g)
    for g in funcs:
        firsts = []
        for c in ast.walk(g.node):
            if isinstance(c, ast.Call) and isinstance(c.func, ast.Attribute) and c.func.attr == '_converter' and c.args:
                firsts.append((unparse(c.args[0]), c))
        if not firsts:
            continue
        r.instances += 1
        r.analysed.add(g.qualname)
        names = {x for x, _c in firsts}
        r.sample({g.qualname: sorted(names)})
        # the running converter variable: the one the results are assigned back to (or the helper's first parameter)
        if len(names) == 1:
            r.ok()
        else:
            odd = [c for x, c in firsts if list(x for x, _ in firsts).count(x) == 1]
            r.fail(g.qualname, f"_converter(...) applied to {sorted(names)}", g.loc(odd[0] if odd else firsts[0][1]),
                   "one annotation is applied to something other than the converter built so far: the annotations applied before it "
                   "(e.g. Tagged before a Condition) are discarded")
    # the append of a Condition depends on nothing but `isinstance(arg, Condition)`
    cfg = cfg_of(model, f)
    nz = Normalizer(model, f, cfg, param_map=_pm(f))
    for n in cfg.live_nodes():
        for root in node_exprs(n):
            for c in walk_no_nested(root):
                if isinstance(c, ast.Call) and isinstance(c.func, ast.Attribute) and c.func.attr == 'append' and c.args and nz.expr(c.args[0], n) == 'ELEM($args)':
                    r.instances += 1
                    lits = []
                    byid = {x.id: x for x in cfg.nodes}
                    for (aid, lb) in sorted(cfg.conditions_of(n)):
                        a = byid[aid]
                        if a.kind == 'cond':
                            text, pos = nz.literal(a.ast, a)
                            lits.append(('' if pos == (lb == 'T') else 'not ') + text)
                    extra = [x for x in lits if x != 'isinstance(ELEM($args), {pane.annotations.Condition})']
                    if extra:
                        r.fail(f.qualname, f"condition buffered only when {extra}", f.loc(c),
                               "some Condition annotations are skipped: Annotated[T, c1, c2] no longer enforces every condition")
                    else:
                        r.ok()
    return r


def rule_eq_own_origin(model: Model, rule_id: str = 'C16-R6') -> RuleResult:
    """C16: equality ignores generic parameters only: the origin marker is read from the class's own namespace."""
    r = RuleResult(rule_id, "equality reads the generic origin from the class's own namespace, not through inheritance", floor=1)
    f = model.func('pane.classes._make_eq.__eq__')
    cfg = cfg_of(model, f)
    nz = Normalizer(model, f, cfg, param_map=_pm(f))
    r.instances += 1
    r.analysed.add(f.qualname)
    lits = [nz.literal(n.ast, n)[0] for n in cfg.nodes if n.kind == 'cond' and '__origin__' in nz.literal(n.ast, n)[0]]
    # the marker may be read by a helper of the module (it follows the chain of markers, C16-R13): then the helper reads it from
    # the namespace of each class it visits (`'__origin__' in c.__dict__`, `c.__dict__[...]`), never with getattr / hasattr
    helper_ok = None
    for c in ast.walk(f.node):
        if isinstance(c, ast.Call):
            g = model.functions.get(model.resolve(c.func, f.module, f) or '')
            if g is not None and g.module is f.module and '__origin__' in unparse(g.node):
                reads = [x for x in ast.walk(g.node) if isinstance(x, ast.Constant) and x.value == '__origin__']
                bad_reads = [x for x in ast.walk(g.node) if isinstance(x, ast.Call) and isinstance(x.func, ast.Name)
                             and x.func.id in ('getattr', 'hasattr') and any(isinstance(a_, ast.Constant) and a_.value == '__origin__' for a_ in x.args)]
                dict_reads = len(re.findall(r"__dict__|vars\(", unparse(g.node)))
                helper_ok = bool(reads) and not bad_reads and dict_reads >= 1 and (helper_ok is not False)
                r.analysed.add(g.qualname)
    r.sample({'class test': lits, 'helper reads the marker from own namespaces': helper_ok})
    if (lits and all(x.count(".__dict__.get('__origin__'") == 2 for x in lits)) or (not lits and helper_ok):
        r.ok()
    else:
        r.fail(f.qualname, f"class test {lits}", f.loc(),
               "the origin marker of a parameterised generic is inherited by its subclasses: instances of different subclasses of Box[int] "
               "(or Box[int] and a subclass) compare equal")
    return r


def rule_substitution_early_return(model: Model, rule_id: str = 'C17-R5') -> RuleResult:
    """C17: replace_typevars returns a type unchanged only when it has no arguments at all."""
    r = RuleResult(rule_id, 'type-variable substitution leaves a type untouched only if it has no type arguments', floor=1)
    f = model.func('pane.util.replace_typevars')
    cfg = cfg_of(model, f)
    nz = Normalizer(model, f, cfg, param_map=_pm(f))
    r.analysed.add(f.qualname)
    byid = {x.id: x for x in cfg.nodes}
    for n in cfg.live_nodes():
        if n.kind == 'return' and n.ast is not None and n.ast.value is not None and nz.expr(n.ast.value, n) == '$ty':
            r.instances += 1
            direct = cfg.control_deps().get(n.id, set())
            lits = []
            for (aid, lb) in sorted(direct):
                a = byid[aid]
                if a.kind == 'cond':
                    text, pos = nz.literal(a.ast, a)
                    lits.append(('' if pos == (lb == 'T') else 'not ') + text)
            r.sample({'returns ty unchanged when': lits})
            unchanged = len(lits) >= 1 and all(re.search(r'pane\.util\.replace_typevars\(', x) and ' is ' in x and not x.startswith('not ')
                                                 for x in lits[-1:])
            if lits == ['not TRUTHY(typing.get_args($ty))'] or unchanged:
                r.ok()          # no arguments at all, or every substituted argument is identical to the original one
            else:
                r.fail(f.qualname, f"return ty when {lits}", f.loc(n.ast),
                       "a type with arguments can be returned unsubstituted: type variables nested inside it (e.g. in a struct literal "
                       "argument, which typing does not list in __parameters__) stay unbound and accept anything")
    return r


HANDLERLESS_OK = {
    'EnumConverter': 'fallback for a value that is not a member',
    'ValueOrListConverter': 'only for a value that is not a ValueOrList at all; the union writers are judged by C18-R8',
    'DelegateConverter': 'fallback when the inner converter cannot serialise the subclass instance',
    'Converter': 'default implementation: dispatch on the runtime type',
}


def rule_into_data_keeps_handlers(model: Model, rule_id: str = 'C18-R6') -> RuleResult:
    """C18: containers that infer member converters from the runtime type do so with their handlers."""
    r = RuleResult(rule_id, 'member serialisation inferred from the runtime type keeps the handlers in scope', floor=4)
    for cls in family(model):
        if cls.name in HANDLERLESS_OK:
            continue
        has_handlers = any('handlers' in (model.classes[q].attr_annotations if q in model.classes else {}) for q in model.mro(cls.qualname)) or \
            any(isinstance(x, ast.Attribute) and x.attr == 'handlers' and isinstance(x.value, ast.Name) and x.value.id == 'self'
                for mm in cls.methods.values() for x in ast.walk(mm.node))
        if not has_handlers:
            continue
        funcs = [g for g in helper_closure(model, cls, 'into_data') if g.cls is not None and g.cls.qualname != CONVERTER]
        extra = [g for q, g in model.functions.items() if g.parent in funcs and isinstance(g.node, ast.FunctionDef)]
        for g in funcs + extra:
            for c in ast.walk(g.node):
                if isinstance(c, ast.Call):
                    q = model.resolve(c.func, g.module, g)
                    if q == 'pane.convert.into_data' and model.enclosing_function(c) is g:
                        r.instances += 1
                        r.analysed.add(g.qualname)
                        r.fail(g.qualname, unparse(c)[:60], g.loc(c),
                               "a member is serialised through the module-level into_data, which builds its converter without the handlers in scope: "
                               "custom converters passed to the call (or declared on an enclosing dataclass) stop applying to Any-typed members")
                    if q == 'pane.convert.make_converter' and model.enclosing_function(c) is g:
                        r.instances += 1
                        r.analysed.add(g.qualname)
                        if any('handlers' in unparse(a) for a in list(c.args) + [k.value for k in c.keywords]):
                            r.ok()
                        else:
                            r.fail(g.qualname, unparse(c)[:60], g.loc(c), "a member converter is inferred from the runtime type without the handlers in scope")
    return r


def rule_dump_options_closed(model: Model, rule_id: str = 'C19-R4') -> RuleResult:
    """C19: json.dump / yaml.dump receive exactly the documented options; nothing else is hard-coded."""
    r = RuleResult(rule_id, 'the dump calls pass only the documented, caller-controlled options', floor=2)
    doc = {'pane.io.write_json': ('json.dump', {'indent', 'sort_keys'}),
           'pane.io.write_yaml': ('yaml.dump', {'indent', 'width', 'allow_unicode', 'explicit_start', 'explicit_end', 'default_style',
                                                'default_flow_style', 'sort_keys', 'Dumper'})}
    for fq, (target, allowed) in doc.items():
        f = model.func(fq)
        for c in ast.walk(f.node):
            if isinstance(c, ast.Call) and unparse(c.func) == target:
                r.instances += 1
                r.analysed.add(fq)
                extra = [k.arg for k in c.keywords if k.arg not in allowed]
                r.sample({fq: sorted(k.arg for k in c.keywords if k.arg)})
                if extra:
                    r.fail(fq, f"{target}(..., {', '.join(f'{k}=...' for k in extra)})", f.loc(c),
                           f"a formatting option ({', '.join(map(str, extra))}) is hard-coded: text that round-trips with the library default "
                           f"(e.g. escaped lone surrogates) may no longer be writable to every sink")
                else:
                    r.ok()
    return r


def rule_whole_value_delegation(model: Model, rule_id: str = 'C02-R5') -> RuleResult:
    """C02 / C01: a converter that hands the whole input to one inner converter accepts nothing that inner converter has not seen."""
    r = RuleResult(rule_id, "converters that wrap one inner converter accept a value only after the inner converter accepted it "
                            "(no shortcut keyed by the raw input: 1.0 == 1 == True, and hash alike)", floor=3)
    zone = conversion_zone(model)
    for cls in family(model):
        if cls.name in UNION_LIKE:
            continue
        attrs = subconv_attrs(model, cls)
        for f in zone[cls.qualname]:
            if 'collect_errors' in f.name or f.name == 'into_data':
                continue
            cfg = cfg_of(model, f)
            nz = Normalizer(model, f, cfg)
            whole = [sc for sc in find_subcalls(model, cls, f, nz, cfg, attrs)
                     if sc.method == 'try_convert' and not sc.recv.startswith('ELEM(') and (sc.arg == 'VAL' or sc.arg.startswith('PHI(VAL|'))]
            if not whole:
                continue
            if any(isinstance(c, ast.Attribute) and c.attr == f.name and isinstance(c.value, ast.Name)
                   and f.params and c.value.id == f.params[0] for c in ast.walk(f.node)):
                continue        # a recursive walk over nested containers: the inner converter sees the leaves
            r.instances += 1
            r.analysed.add(f.qualname)
            rets = [n for n in cfg.live_nodes() if n.kind == 'return' and n.ast is not None and n.ast.value is not None]
            bad = [n for n in rets if not any(cfg.node_dominates(sc.node, n) or sc.node is n for sc in whole)]
            r.sample({'function': f.qualname, 'inner': whole[0].recv, 'accepting exits': len(rets), 'not behind the inner converter': len(bad)})
            if bad:
                for n in bad:
                    r.fail(f.qualname, f"return {nz.expr(n.ast.value, n)[:80]} before {whole[0].recv}.try_convert", f.loc(n.ast),
                           "a value is accepted without passing the inner converter: a look-up or test on the raw input treats values of another "
                           "kind as equal (1.0, True and 1 are equal and hash alike), so e.g. 2.0 is accepted for an int-valued enum")
            else:
                r.ok()
    return r


def rule_keycache_keepalive(model: Model, rule_id: str = 'C10-R9') -> RuleResult:
    """C10: an entry keyed by id() stays valid only while its arguments are alive: entry and keep-alive reference live and die together."""
    r = RuleResult(rule_id, "every cache entry is stored together with a reference to its arguments, and that reference is dropped only "
                            "together with the entry (ids are unique only among live objects)", floor=3)
    call = model.func('pane.util.KeyCache.__call__')
    cls = call.cls
    assert cls is not None
    funcs = [g for g in cls.methods.values() if isinstance(g.node, ast.FunctionDef) and g.name != '__init__']
    vararg = call.node.args.vararg.arg if isinstance(call.node, ast.FunctionDef) and call.node.args.vararg else None
    keep: t.Set[str] = set()
    cache: t.Set[str] = set()
    for g in funcs:
        for x in ast.walk(g.node):
            if isinstance(x, ast.Assign):
                for tg in x.targets:
                    if isinstance(tg, ast.Subscript) and isinstance(tg.value, ast.Attribute) and isinstance(tg.value.value, ast.Name) \
                            and tg.value.value.id == 'self' and isinstance(x.value, ast.Tuple) and vararg \
                            and any(isinstance(e, ast.Name) and e.id == vararg for e in x.value.elts):
                        keep.add(tg.value.attr)
            if isinstance(x, ast.Call) and isinstance(x.func, ast.Attribute) and x.func.attr == 'get' and isinstance(x.func.value, ast.Attribute) \
                    and isinstance(x.func.value.value, ast.Name) and x.func.value.value.id == 'self':
                cache.add(x.func.value.attr)
    if len(keep) != 1 or len(cache) != 1:
        raise AnalysisError(f"{call.loc()}: KeyCache: keep-alive table {sorted(keep)} / entry table {sorted(cache)} not identified")
    ka, ca = keep.pop(), cache.pop()
    events: t.List[t.Tuple[FuncInfo, Node, str, str, str]] = []     # (function, node, table, 'store'|'drop', key form)
    for g in funcs:
        cfg = cfg_of(model, g)
        nz = Normalizer(model, g, cfg)
        for n in cfg.live_nodes():
            st = n.ast
            if n.kind != 'stmt' or st is None:
                continue
            tgts: t.List[ast.AST] = []
            if isinstance(st, ast.Assign):
                tgts = list(st.targets)
                kind = 'store'
            elif isinstance(st, ast.Delete):
                tgts = list(st.targets)
                kind = 'drop'
            for tg in tgts:
                if isinstance(tg, ast.Subscript) and isinstance(tg.value, ast.Attribute) and isinstance(tg.value.value, ast.Name) \
                        and tg.value.value.id == 'self' and tg.value.attr in (ka, ca):
                    events.append((g, n, tg.value.attr, kind, nz.expr(tg.slice, n)))
            for c in (walk_no_nested(st) if isinstance(st, ast.Expr) or isinstance(st, ast.Assign) else []):
                if isinstance(c, ast.Call) and isinstance(c.func, ast.Attribute) and c.func.attr in ('pop', 'popitem', 'clear') \
                        and isinstance(c.func.value, ast.Attribute) and isinstance(c.func.value.value, ast.Name) and c.func.value.value.id == 'self' \
                        and c.func.value.attr in (ka, ca):
                    events.append((g, n, c.func.value.attr, 'drop', nz.expr(c.args[0], n) if c.args else f'<{c.func.attr}>'))
    for (g, n, table, kind, key) in events:
        other = ca if table == ka else ka
        if kind == 'store' and table == ka:
            continue            # an extra reference is harmless
        r.instances += 1
        r.analysed.add(g.qualname)
        cfg = cfg_of(model, g)
        mine = cfg.conditions_of(n)
        partner = [m for (g2, m, t2, k2, key2) in events if g2 is g and t2 == other and k2 == kind and key2 == key and cfg.conditions_of(m) == mine]
        r.sample({'function': g.qualname, 'event': f"{kind} {table}[{key}]", 'paired': bool(partner)})
        if partner:
            r.ok()
        elif kind == 'store':
            r.fail(g.qualname, f"entry {ca}[{key}] stored without keeping its arguments alive", g.loc(n.ast),
                   "the key may contain the id() of a temporary type; once it is collected a new type at the same address gets the stale converter")
        else:
            r.fail(g.qualname, f"{table}[{key}] dropped on its own", g.loc(n.ast),
                   "the keep-alive reference and the entry are no longer dropped together: an entry outlives its arguments (a new type at the "
                   "same address gets the dead type's converter), or a live entry loses its reference")
    return r


ONE_SHOT_CALLS = {'map', 'filter', 'zip', 'enumerate', 'reversed', 'iter'}


def _one_shot(model: Model, f: FuncInfo, cfg: CFG, e: ast.AST, n: Node, depth: int = 0) -> t.Optional[str]:
    """Why the value of ``e`` is an iterator that can be consumed only once (None if it is not known to be one)."""
    if isinstance(e, ast.GeneratorExp):
        return 'a generator expression'
    if isinstance(e, ast.Call):
        if isinstance(e.func, ast.Name) and e.func.id in ONE_SHOT_CALLS and not cfg.reaching().is_local(e.func.id):
            return f'{e.func.id}(...)'
        q = model.resolve(e.func, f.module, f)
        if q and q.startswith('itertools.'):
            return f'{q}(...)'
        if q == 'typing.cast' and len(e.args) == 2:
            return _one_shot(model, f, cfg, e.args[1], n, depth + 1)
        return None
    if isinstance(e, ast.IfExp):
        return _one_shot(model, f, cfg, e.body, n, depth + 1) or _one_shot(model, f, cfg, e.orelse, n, depth + 1)
    if isinstance(e, ast.Name) and depth < 6:
        for d in cfg.reaching().at(n, e.id):
            if d.kind in ('assign', 'walrus') and d.value is not None and not d.path:
                why = _one_shot(model, f, cfg, d.value, d.node, depth + 1)
                if why:
                    return why
    return None


def rule_no_one_shot_state(model: Model, rule_id: str = 'C10-R10') -> RuleResult:
    """C10 / C15: objects that outlive the call (fields, class records, converters) hold re-iterable collections, never one-shot iterators."""
    r = RuleResult(rule_id, 'no generator / map / filter / zip object is stored in a field record, class record or converter attribute '
                            '(a second traversal would see nothing)', floor=40)
    for f in model.all_functions():
        if not isinstance(f.node, ast.FunctionDef):
            continue
        cfg = cfg_of(model, f)
        for n in cfg.live_nodes():
            sites: t.List[t.Tuple[ast.AST, str, ast.AST]] = []
            for root in node_exprs(n):
                for c in walk_no_nested(root):
                    if isinstance(c, ast.Call):
                        q = model.resolve(c.func, f.module, f)
                        if (q in model.classes and not model.is_subclass(q, 'builtins.BaseException')) or q == 'dataclasses.replace':
                            for a in c.args:
                                sites.append((c, f"{q.split('.')[-1]}(...)", a))
                            for k in c.keywords:
                                sites.append((c, f"{q.split('.')[-1]}({k.arg}=)", k.value))
            st = n.ast
            if n.kind == 'stmt' and isinstance(st, (ast.Assign, ast.AnnAssign)) and getattr(st, 'value', None) is not None:
                tgts = st.targets if isinstance(st, ast.Assign) else [st.target]
                for tg in tgts:
                    if isinstance(tg, ast.Attribute) and isinstance(tg.value, ast.Name) and f.params and tg.value.id == f.params[0] and f.cls is not None:
                        sites.append((st, f"{tg.value.id}.{tg.attr} =", st.value))
            for (where, what, val) in sites:
                r.instances += 1
                why = _one_shot(model, f, cfg, val, n)
                if why:
                    r.fail(f.qualname, f"{what} {why}", f.loc(where),
                           "the stored value is a one-shot iterator: whoever reads it first uses it up, and later readers (the converter built "
                           "for another handler set, the next comparison ...) see an empty collection: the outcome depends on which call came first")
                else:
                    r.ok()
    return r


def rule_no_shared_class_state(model: Model, rule_id: str = 'C10-R11') -> RuleResult:
    """C10: no mutable container bound at class level is written through instances (it would be shared by every converter of that class)."""
    r = RuleResult(rule_id, 'a container bound at class level is never filled through an instance (one table per converter, not one per class)',
                   floor=30)
    for ci in sorted(model.classes.values(), key=lambda c: c.qualname):
        r.instances += 1
        shared = {}
        for nm, v in ci.attr_values.items():
            mutable = isinstance(v, (ast.Dict, ast.List, ast.Set, ast.DictComp, ast.ListComp, ast.SetComp)) or (
                isinstance(v, ast.Call) and isinstance(v.func, ast.Name) and v.func.id in ('dict', 'list', 'set', 'defaultdict', 'OrderedDict', 'Counter', 'deque'))
            if mutable:
                shared[nm] = v
        if not shared:
            r.ok()
            continue
        bad = []
        classes = [c for c in model.classes.values() if c is ci or model.is_subclass(c.qualname, ci.qualname)]
        for c in classes:
            for f in c.methods.values():
                if not isinstance(f.node, ast.FunctionDef) or not f.params:
                    continue
                me = f.params[0]
                rebinds = {tg.attr for st in ast.walk(f.node) if isinstance(st, (ast.Assign, ast.AnnAssign))
                           for tg in (st.targets if isinstance(st, ast.Assign) else [st.target])
                           if isinstance(tg, ast.Attribute) and isinstance(tg.value, ast.Name) and tg.value.id == me}
                for st in ast.walk(f.node):
                    hit = None
                    if isinstance(st, (ast.Assign, ast.AugAssign, ast.Delete)):
                        tgts = st.targets if isinstance(st, (ast.Assign, ast.Delete)) else [st.target]
                        for tg in tgts:
                            if isinstance(tg, ast.Subscript) and isinstance(tg.value, ast.Attribute) and isinstance(tg.value.value, ast.Name) \
                                    and tg.value.value.id == me and tg.value.attr in shared:
                                hit = tg.value.attr
                    if isinstance(st, ast.Call) and isinstance(st.func, ast.Attribute) and st.func.attr in MUT and isinstance(st.func.value, ast.Attribute) \
                            and isinstance(st.func.value.value, ast.Name) and st.func.value.value.id == me and st.func.value.attr in shared:
                        hit = st.func.value.attr
                    if hit and not (f.name in ('__init__', '__post_init__') and hit in rebinds):
                        bad.append((f, st, hit))
        r.analysed.add(ci.qualname)
        if bad:
            for (f, st, nm) in bad:
                r.fail(ci.qualname, f"{nm} is bound at class level and filled through self in {f.name}", f.loc(st),
                       "every instance writes into the same table: what one converter accepts depends on which other converters of the "
                       "class were built before (e.g. enum value tables of different enums merge)")
        else:
            r.ok()
    return r


def rule_no_module_state(model: Model, rule_id: str = 'C10-R12') -> RuleResult:
    """C10 / C18: the package keeps no hidden module-level memo: the only container a function may fill is the registered-handler list
    (by register_converter_handler); converters are memoised only by the key cache, which keeps its arguments alive."""
    r = RuleResult(rule_id, 'no function writes into a module-level container (other than registering a global handler)', floor=3)
    gh = anchors.global_handlers(model)
    for m in model.modules.values():
        cont = {}
        for nm, v in m.assign_values.items():
            vv = v
            while isinstance(vv, ast.Call) and model.resolve(vv.func, m) == 'typing.cast' and len(vv.args) == 2:
                vv = vv.args[1]
            if isinstance(vv, (ast.Dict, ast.List, ast.Set)) or (isinstance(vv, ast.Call) and isinstance(vv.func, ast.Name)
                                                                   and vv.func.id in ('dict', 'list', 'set', 'defaultdict', 'OrderedDict', 'WeakValueDictionary')):
                cont[nm] = v
        for nm in sorted(cont):
            if nm.startswith('__'):
                continue
            q = f"{m.name.replace('.__init__', '')}.{nm}"
            r.instances += 1
            writers = []
            for f in model.all_functions():
                if not isinstance(f.node, ast.FunctionDef):
                    continue
                for x in ast.walk(f.node):
                    hit = None
                    if isinstance(x, (ast.Assign, ast.AugAssign, ast.Delete)):
                        tgts = x.targets if isinstance(x, (ast.Assign, ast.Delete)) else [x.target]
                        for tg in tgts:
                            if isinstance(tg, ast.Subscript) and model.resolve(tg.value, f.module, f) == q:
                                hit = 'item store'
                    elif isinstance(x, ast.Call) and isinstance(x.func, ast.Attribute) and x.func.attr in MUT | {'move_to_end'} \
                            and model.resolve(x.func.value, f.module, f) == q:
                        hit = f".{x.func.attr}()"
                    if hit and not (q == gh and f.qualname == 'pane.convert.register_converter_handler'):
                        writers.append((f, x, hit))
            if writers:
                for (f, x, hit) in writers:
                    r.fail(f.qualname, f"{hit} on module-level {nm}", f.loc(x),
                           "a module-level table is filled while the program runs: what a call does depends on the calls before it (a memo keyed "
                           "by id() or by a mutable mapping goes stale when the object is collected or changed)")
            else:
                r.ok()
    return r
