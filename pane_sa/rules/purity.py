"""C01-R2 (converted flow) and C01-R3 / C10-R5 (purity of the passes; converters immutable after construction)."""
from __future__ import annotations

import ast
import re
import typing as t

from ..cfg import cfg_of, node_exprs, walk_no_nested
from ..family import CONVERTER, PI, conversion_zone, family, helper_closure, subconv_attrs, is_subconv_form
from ..model import AnalysisError, ClassInfo, FuncInfo, Model, unparse
from ..norm import Normalizer
from ..report import RuleResult
from .mutation import Freshness, _mutations
from .pairs import Accumulators

LEAF_CLASSES = {'AnyConverter', 'NoneConverter', 'LiteralConverter', 'ScalarConverter', 'DatetimeConverter'}
IMPURE_MODULES = ('random.', 'time.', 'os.environ', 'os.getenv', 'secrets.', 'uuid.')


def pass_functions(model: Model, cls: ClassInfo) -> t.List[FuncInfo]:
    fs: t.Dict[str, FuncInfo] = {}
    for entry in ('try_convert', 'collect_errors', 'into_data'):
        for f in helper_closure(model, cls, entry):
            if f.cls is not None and f.cls.qualname == CONVERTER:
                continue
            if f.name in ('__init__', '__post_init__'):
                continue
            fs[f.qualname] = f
    # closures nested in those methods
    for q, f in model.functions.items():
        p = f.parent
        while p is not None:
            if p.qualname in fs and isinstance(f.node, ast.FunctionDef):
                fs[q] = f
                break
            p = p.parent
    return sorted(fs.values(), key=lambda f: (f.module.relpath, f.lineno))


def rule_purity(model: Model, rule_id: str = 'C01-R3') -> RuleResult:
    r = RuleResult(rule_id, 'conversion passes and into_data keep no state: no store to self, no global / nonlocal, no ambient input', floor=60)
    seen: t.Set[str] = set()
    for cls in family(model):
        for f in pass_functions(model, cls):
            if f.qualname in seen:
                continue
            seen.add(f.qualname)
            r.analysed.add(f.qualname)
            r.instances += 1
            fr = Freshness(model, f)
            bad = False
            for n in fr.cfg.live_nodes():
                for (what, recv, sub) in _mutations(n):
                    if fr.classify(recv, n) == 'SELF':
                        bad = True
                        r.fail(f.qualname, f"{what} on `{unparse(recv)}`", f.loc(sub),
                               "a conversion pass writes to the (shared, memoised) converter object: later conversions depend on earlier ones "
                               "and a memoised converter no longer behaves like a freshly built one")
                if n.kind == 'stmt' and isinstance(n.ast, (ast.Global, ast.Nonlocal)):
                    bad = True
                    r.fail(f.qualname, unparse(n.ast), f.loc(n.ast), "a conversion pass rebinds global / enclosing state")
                for root in node_exprs(n):
                    for sub in walk_no_nested(root):
                        if isinstance(sub, ast.Call):
                            q = model.resolve(sub.func, f.module, f) or ''
                            if q == 'builtins.setattr' and sub.args and isinstance(sub.args[0], ast.Name) and sub.args[0].id == 'self':
                                bad = True
                                r.fail(f.qualname, 'setattr(self, ...)', f.loc(sub), "a conversion pass writes to the converter object")
                            if any(q.startswith(m) or q == m.rstrip('.') for m in IMPURE_MODULES):
                                bad = True
                                r.fail(f.qualname, f"call {q}", f.loc(sub), "verdict or value would depend on something other than the type and the value")
            if not bad:
                r.ok()
    # no module-level mutable caches consulted by the passes other than the constant tables: functools caches on methods
    for cls in family(model):
        for f in cls.methods.values():
            for d in f.decorators:
                q = model.resolve(d.func if isinstance(d, ast.Call) else d, f.module, f) or ''
                if q in ('functools.lru_cache', 'functools.cache', 'functools.cached_property'):
                    r.fail(f.qualname, f"@{q.split('.')[-1]}", f.loc(), "a memo on a converter method makes results depend on call history")
    return r


def rule_c01_r3(model: Model) -> RuleResult:
    return rule_purity(model, 'C01-R3')


def rule_c10_r5(model: Model) -> RuleResult:
    return rule_purity(model, 'C10-R5')


# ---------------------------------------------------------------------------- converted flow


RAW_TOKEN = re.compile(r'(?<![\w.$])(VAL)\b')


def _strip_balanced(s: str, start: int) -> int:
    """index just past the parenthesis group opening at s[start] == '('"""
    depth = 0
    for i in range(start, len(s)):
        if s[i] == '(':
            depth += 1
        elif s[i] == ')':
            depth -= 1
            if depth == 0:
                return i + 1
    return len(s)


def residual_raw(form: str, attrs: t.Set[str], helper_names: t.Set[str]) -> str:
    """Remove every ``<subconv>.try_convert(...)`` / ``self.<helper>(...)`` group from ``form``; what is left shows
    how the result depends on the input *without* going through a sub-converter."""
    out = []
    i = 0
    pat = re.compile(r'\.try_convert\(|self\.(\w+)\(|\bλ\d')
    while i < len(form):
        m = pat.search(form, i)
        if not m:
            out.append(form[i:])
            break
        if m.group(0) == '.try_convert(':
            # find the receiver start: walk back over a balanced receiver expression
            j = m.start()
            k = j
            depth = 0
            while k > 0:
                c = form[k - 1]
                if c in ')]':
                    depth += 1
                elif c in '([':
                    if depth == 0:
                        break
                    depth -= 1
                elif depth == 0 and not (c.isalnum() or c in '._'):
                    break
                k -= 1
            recv = form[k:j]
            end = _strip_balanced(form, m.end() - 1)
            if is_subconv_form(recv, attrs):
                out.append(form[i:k])
                out.append('CONVERTED')
                i = end
                continue
            out.append(form[i:m.end()])
            i = m.end()
            continue
        if m.group(1) is not None:
            if m.group(1) in helper_names:
                end = _strip_balanced(form, m.end() - 1)
                out.append(form[i:m.start()])
                out.append('CONVERTED')
                i = end
                continue
            out.append(form[i:m.end()])
            i = m.end()
            continue
        out.append(form[i:m.end()])
        i = m.end()
    return ''.join(out)


def _strip_table_lookups(form: str) -> str:
    """``self.<attr>[<anything>]`` denotes configuration looked up by a data key: not raw data itself."""
    out = []
    i = 0
    pat = re.compile(r'self\.\w+(?:\.\w+)*\[')
    while i < len(form):
        m = pat.search(form, i)
        if not m:
            out.append(form[i:])
            break
        depth = 0
        j = m.end() - 1
        while j < len(form):
            if form[j] == '[':
                depth += 1
            elif form[j] == ']':
                depth -= 1
                if depth == 0:
                    break
            j += 1
        out.append(form[i:m.start()])
        out.append('TABLE')
        i = j + 1
    return ''.join(out)


class _FlowChecker:
    def __init__(self, model: Model, cls: ClassInfo, r: RuleResult):
        self.model = model
        self.cls = cls
        self.r = r
        self.attrs = subconv_attrs(model, cls)
        self.stack: t.List[str] = []
        self.done: t.Set[t.Tuple[str, t.Tuple[t.Tuple[str, str], ...]]] = set()
        self.key_gated = False
        for f in helper_closure(model, cls, 'try_convert'):
            if f.cls is None or f.cls.qualname == CONVERTER or not isinstance(f.node, ast.FunctionDef):
                continue
            cfg = cfg_of(model, f)
            nzp = Normalizer(model, f, cfg)
            for n in cfg.nodes:
                if n.kind == 'cond' and re.match(r'^KEY\(VAL\) in self\.\w+$', nzp.literal(n.ast, n)[0]):
                    self.key_gated = True

    def helper(self, name: str) -> t.Optional[FuncInfo]:
        f = self.model.find_method(self.cls.qualname, name)
        if f is None or f.cls is None or f.cls.qualname == CONVERTER or not isinstance(f.node, ast.FunctionDef):
            return None
        if name in ('expected', 'expected_struct', 'expected_tuple', 'tag_expected', 'obj_expected', 'into_data', 'collect_errors', 'convert'):
            return None
        return f

    def clean(self, form: str) -> str:
        helper_names = {n for n in re.findall(r'self\.(\w+)\(', form) if self.helper(n) is not None}
        res = residual_raw(form, self.attrs, helper_names)
        res = _strip_table_lookups(res)
        if self.key_gated:
            res = re.sub(r'KEY\(VAL\)=>', 'FIELDNAME=>', res)
        res = re.sub(r'\bINDEX\((?:[^()]|\([^()]*\))*\)', 'INDEX', res)
        return res

    def check(self, f: FuncInfo, pm: t.Dict[str, str]) -> None:
        key = (f.qualname, tuple(sorted(pm.items())))
        if key in self.done or f.qualname in self.stack:
            return
        self.done.add(key)
        self.stack.append(f.qualname)
        try:
            self._check(f, pm)
        finally:
            self.stack.pop()

    def _check(self, f: FuncInfo, pm: t.Dict[str, str]) -> None:
        model, r = self.model, self.r
        cfg = cfg_of(model, f)
        acc = Accumulators(model, f, cfg)
        base = Normalizer(model, f, cfg, param_map=pm)

        def hook(nm: str, node: t.Any) -> t.Optional[str]:
            if nm not in acc.names:
                return None
            parts = []
            for (fn, _st, key, val) in acc.fills.get(nm, []):
                parts.append(f"{base.expr(key, fn) if key is not None else '#'}=>{base.expr(val, fn) if val is not None else '?'}")
            return 'ACCV{' + '; '.join(sorted(parts)) + '}'
        nz = Normalizer(model, f, cfg, param_map=pm, name_hook=hook)
        r.analysed.add(f.qualname)
        ret_forms = ' '.join(nz.expr(n.ast.value, n) for n in cfg.live_nodes()
                             if n.kind == 'return' and n.ast is not None and n.ast.value is not None)
        for n in cfg.live_nodes():
            # recurse into the helpers whose result is (part of) the returned value, with the provenance of their arguments
            for root in node_exprs(n):
                for sub in walk_no_nested(root):
                    hname = None
                    if isinstance(sub, ast.Call) and isinstance(sub.func, ast.Attribute):
                        hname = sub.func.attr
                    elif isinstance(sub, ast.Call) and isinstance(sub.func, ast.Name) and sub.func.id == 'map' and sub.args \
                            and isinstance(sub.args[0], ast.Attribute):
                        hname = sub.args[0].attr
                    if hname is None or f"self.{hname}(" not in ret_forms:
                        continue
                    callee = None
                    args: t.List[ast.AST] = []
                    if isinstance(sub, ast.Call) and isinstance(sub.func, ast.Attribute) and isinstance(sub.func.value, ast.Name) \
                            and sub.func.value.id in ('self', self.cls.name):
                        callee = self.helper(sub.func.attr)
                        args = list(sub.args)
                        forms = [self.clean(nz.expr(a, n)) for a in args]
                    elif isinstance(sub, ast.Call) and isinstance(sub.func, ast.Name) and sub.func.id == 'map' and len(sub.args) == 2 \
                            and isinstance(sub.args[0], ast.Attribute) and isinstance(sub.args[0].value, ast.Name) \
                            and sub.args[0].value.id in ('self', self.cls.name):
                        callee = self.helper(sub.args[0].attr)
                        forms = [self.clean(nz.iter_elem(sub.args[1], (), n, {}, 0))]
                    if callee is None:
                        continue
                    cps = callee.params
                    is_static = any(isinstance(d, ast.Name) and d.id == 'staticmethod' for d in callee.decorators)
                    sub_pm: t.Dict[str, str] = {}
                    if not is_static and cps:
                        sub_pm[cps[0]] = 'self'
                        cps = cps[1:]
                    for p_, fm in zip(cps, forms):
                        sub_pm[p_] = fm
                    self.check(callee, sub_pm)
            if n.kind != 'return' or n.ast is None or n.ast.value is None:
                continue
            form = nz.expr(n.ast.value, n)
            res = self.clean(form)
            r.instances += 1
            leaks = RAW_TOKEN.findall(res)
            r.sample({'function': f.qualname, 'returns': form[:160], 'residual': res[:120]})
            if leaks:
                r.fail(f.qualname, f"return {res[:140]}", f.loc(n.ast),
                       "part of the accepted value is taken from the raw input without passing through the element's converter "
                       "(the result is not the deep, exactly-typed image of the input)")
            else:
                r.ok()


def rule_c01_r2(model: Model) -> RuleResult:
    r = RuleResult('C01-R2', 'the accepted value of a composite converter depends on the input only through sub-converter results', floor=12)
    # leaf: a scalar converter always answers with a value constructed by its target type (exactly typed, never the
    # input object itself, which may be an instance of a subclass such as bool for int)
    sc = model.func('pane.converters.ScalarConverter.try_convert')
    scfg = cfg_of(model, sc)
    snz = Normalizer(model, sc, scfg)
    r.analysed.add(sc.qualname)
    for n in scfg.live_nodes():
        if n.kind == 'return' and n.ast is not None and n.ast.value is not None:
            r.instances += 1
            form = snz.expr(n.ast.value, n)
            if form == 'self.ty(VAL)':
                r.ok()
            else:
                r.fail(sc.qualname, f"return {form}", sc.loc(n.ast),
                       "a scalar converter hands back something other than self.ty(value): the result is not exactly typed "
                       "(from_data(True, int) would return True)")
    for cls in family(model):
        if cls.name in LEAF_CLASSES:
            continue
        f = model.find_method(cls.qualname, 'try_convert')
        if f is None or f.cls is None or f.cls.qualname == CONVERTER:
            raise AnalysisError(f"{cls.qualname} has no try_convert")
        _FlowChecker(model, cls, r).check(f, {})
    return r
