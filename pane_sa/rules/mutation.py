"""C09: conversion never mutates its input — freshness / alias analysis (DESIGN §11).

Every value reachable from a data parameter (the parameter itself, its aliases, loop elements, items,
subscripts, attributes) is RAW; results of ``.copy()``, ``dict(...)``, ``list(...)``, displays and
comprehensions are FRESH.  No RAW value may be the receiver of a mutating method, the target of a subscript /
attribute store, ``del`` or an augmented assignment.  In addition a RAW mapping is never subscripted with a
key that was not first tested for membership (``defaultdict.__missing__`` inserts on read).
"""
from __future__ import annotations

import ast
import typing as t

from ..cfg import CFG, Def, Node, cfg_of, node_exprs, walk_no_nested
from ..family import CONVERTER, conversion_zone, family, helper_closure
from ..model import AnalysisError, ClassInfo, FuncInfo, Model, unparse
from ..norm import Normalizer
from ..report import RuleResult

MUTATORS = {'pop', 'popitem', 'clear', 'update', 'setdefault', 'append', 'extend', 'insert', 'remove', 'sort', 'reverse',
            'add', 'discard', '__setitem__', '__delitem__', 'appendleft', 'extendleft', 'popleft', 'rotate',
            'difference_update', 'intersection_update', 'symmetric_difference_update', 'move_to_end', 'subtract'}
FRESH_CALLS = {'dict', 'list', 'set', 'tuple', 'frozenset', 'sorted', 'reversed', 'str', 'bytes', 'bytearray', 'int', 'float',
               'enumerate', 'zip', 'map', 'filter', 'iter', 'len', 'repr', 'deepcopy', 'copy'}
PROJECTING_METHODS = {'items', 'keys', 'values', 'get'}
INDEXLIKE = ('INDEX(', '-', '0', '1', '2', '3', '4', '5', '6', '7', '8', '9')

EXTRA_SCOPE = [
    'pane.convert.into_data', 'pane.convert.from_data', 'pane.convert.convert',
    'pane.classes._make_init.__init__', 'pane.classes._make_init.make_unchecked', 'pane.classes._make_init.from_dict_unchecked',
    'pane.classes.PaneBase.__copy__', 'pane.classes.PaneBase.__deepcopy__', 'pane.classes.PaneBase.__replace__',
    'pane.classes.PaneBase.dict', 'pane.classes.PaneBase.from_data', 'pane.classes.PaneBase.from_obj',
    'pane.classes.PaneBase.into_data', 'pane.types.ValueOrList.map',
    'pane.io.from_json', 'pane.io.from_yaml', 'pane.io.from_yaml_all', 'pane.io.write_json', 'pane.io.write_yaml',
]


ALIASING_CALLS = {'numpy.asarray', 'numpy.asanyarray', 'numpy.ascontiguousarray', 'numpy.ravel', 'numpy.reshape', 'numpy.squeeze', 'numpy.atleast_1d'}


def scope(model: Model) -> t.List[FuncInfo]:
    fs: t.Dict[str, FuncInfo] = {}
    for cls in family(model):
        for entry in ('try_convert', 'collect_errors', 'into_data'):
            for f in helper_closure(model, cls, entry):
                if f.cls is not None and f.cls.qualname == CONVERTER and f.name != 'into_data' and f.name != 'convert':
                    continue
                if f.name.startswith('expected') or f.name in ('tag_expected', 'obj_expected'):
                    continue
                fs[f.qualname] = f
    for q in EXTRA_SCOPE:
        fs[q] = model.func(q)
    # accessors of the dataclass base that run while a value is merely read (serialised, compared, printed)
    for nm in ('__getattr__', '__getattribute__', '__repr__', '__eq__', '__hash__', '__iter__', '__len__',
               # ... or written, copied, listed: none of these may change the instance they are called on
               'write_json', 'write_yaml', 'into_data', 'dict', '__copy__', '__deepcopy__', '__replace__'):
        g = model.functions.get(f'pane.classes.PaneBase.{nm}')
        if g is not None:
            fs[g.qualname] = g
    # module-level constructors named in the tables of basic converters (they receive the input value itself)
    conv_mod = model.modules.get('pane.converters')
    if conv_mod is not None:
        for tbl in ('_BASIC_CONVERTERS', '_BASIC_WITH_ARGS'):
            val = conv_mod.assign_values.get(tbl)
            for x in ast.walk(val) if val is not None else []:
                if isinstance(x, ast.Name):
                    g = model.functions.get(f'pane.converters.{x.id}')
                    if g is not None and g.cls is None and isinstance(g.node, ast.FunctionDef):
                        fs[g.qualname] = g
    # module-level writers handed to a converter as `into_data_f=` (numpy add-on)
    for q, f in list(model.functions.items()):
        if not isinstance(f.node, ast.FunctionDef):
            continue
        for c in ast.walk(f.node):
            if isinstance(c, ast.Call):
                for k in c.keywords:
                    if k.arg == 'into_data_f':
                        for x in ast.walk(k.value):
                            if isinstance(x, ast.Name):
                                g = model.functions.get(model.resolve(x, f.module, f) or '')
                                if g is not None and g.cls is None and isinstance(g.node, ast.FunctionDef):
                                    fs[g.qualname] = g
    # nested closures defined inside into_data methods (DictConverter._k_into_data ...)
    for q, f in list(model.functions.items()):
        p = f.parent
        while p is not None:
            if p.qualname in fs and isinstance(f.node, ast.FunctionDef):
                fs[q] = f
                break
            p = p.parent
    return sorted(fs.values(), key=lambda f: (f.module.relpath, f.lineno))


class Freshness:
    def __init__(self, model: Model, func: FuncInfo):
        self.model = model
        self.func = func
        self.cfg = cfg_of(model, func)
        self.rd = self.cfg.reaching()
        a = func.node.args
        self.fresh_params = {x.arg for x in (a.vararg, a.kwarg) if x is not None}
        self.self_names = set()
        if func.cls is not None and func.params and not any(isinstance(d, ast.Name) and d.id == 'staticmethod' for d in func.decorators):
            self.self_names.add(func.params[0])
        if func.name == '__init__' and func.params:
            self.self_names.add(func.params[0])
        if func.params and func.params[0] in ('self', 'cls'):
            self.self_names.add(func.params[0])
        # methods of *data* classes (ValueOrList.map, PaneBase.dict, ...): the receiver is the caller's value, not converter state
        self.value_self: t.Set[str] = set()
        if func.cls is not None and func.params and func.params[0] == 'self' and func.name not in ('__init__', '__new__') \
                and not _is_converter(model, func.cls):
            self.value_self.add(func.params[0])
            self.self_names.discard(func.params[0])
        self._memo: t.Dict[t.Tuple[int, int], str] = {}

    def classify(self, e: ast.AST, n: Node, depth: int = 0) -> str:
        """'RAW' | 'FRESH' | 'SELF' (state of the converter / configuration) | 'OTHER'."""
        if depth > 12:
            return 'OTHER'
        if isinstance(e, ast.Name):
            if e.id in self.self_names:
                return 'SELF'
            if e.id in self.value_self and all(d.kind == 'param' for d in self.rd.at(n, e.id)):
                return 'RAW'
            if not self.rd.is_local(e.id):
                return 'OTHER'
            kinds = set()
            for d in self.rd.at(n, e.id):
                kinds.add(self.classify_def(d, depth + 1))
            if 'RAW' in kinds:
                return 'RAW'
            if kinds == {'FRESH'}:
                return 'FRESH'
            if 'SELF' in kinds:
                return 'SELF'
            return 'OTHER'
        if isinstance(e, ast.Attribute):
            return self.classify(e.value, n, depth + 1)
        if isinstance(e, ast.Subscript):
            return self.classify(e.value, n, depth + 1)
        if isinstance(e, ast.Starred):
            return self.classify(e.value, n, depth + 1)
        if isinstance(e, ast.NamedExpr):
            return self.classify(e.value, n, depth + 1)
        if isinstance(e, ast.IfExp):
            ks = {self.classify(e.body, n, depth + 1), self.classify(e.orelse, n, depth + 1)}
            return 'RAW' if 'RAW' in ks else ('FRESH' if ks == {'FRESH'} else 'OTHER')
        if isinstance(e, (ast.Dict, ast.List, ast.Set, ast.Tuple, ast.ListComp, ast.SetComp, ast.DictComp, ast.GeneratorExp,
                          ast.Constant, ast.JoinedStr, ast.BinOp, ast.Compare, ast.BoolOp, ast.UnaryOp, ast.Lambda)):
            return 'FRESH'
        if isinstance(e, ast.Call):
            f = e.func
            q = self.model.resolve(f, self.func.module, self.func)
            if q == 'typing.cast' and len(e.args) == 2:
                return self.classify(e.args[1], n, depth + 1)
            if isinstance(f, ast.Attribute):
                if f.attr in ('copy', '__copy__', '__deepcopy__') or f.attr in FRESH_CALLS:
                    return 'FRESH'
                if f.attr in PROJECTING_METHODS or f.attr in ('pop', 'popitem', 'setdefault'):
                    # an element of the receiver
                    base = self.classify(f.value, n, depth + 1)
                    if base == 'FRESH' and isinstance(f.value, ast.Name) and f.value.id in self.fresh_params:
                        return 'RAW'     # an element of *args / **kwargs is the caller's object
                    return 'RAW' if base == 'RAW' else ('FRESH' if f.attr in ('items', 'keys', 'values') and base == 'FRESH' else 'OTHER')
                if _private(f.attr) and _own_pure_helper(self.model, self.func, f.value, f.attr):
                    # a private accessor of the value's own class: what it returns may be a part of the value
                    return self.classify(f.value, n, depth + 1)
            if isinstance(f, ast.Name) and f.id in ('next', 'iter') and e.args:
                return self.classify(e.args[0], n, depth + 1)
            if (q in ALIASING_CALLS or (isinstance(f, ast.Attribute) and f.attr in ('asarray', 'asanyarray'))) and e.args:
                # numpy.asarray(x, ...) is x itself when x already is an array of the requested dtype
                return self.classify(e.args[0], n, depth + 1)
            if isinstance(f, ast.Name) and f.id in ('vars', 'getattr') and e.args and not self.rd.is_local(f.id):
                # the live attribute dictionary / an attribute of the object: part of the caller's value
                return self.classify(e.args[0], n, depth + 1)
            return 'FRESH' if (isinstance(f, ast.Name) and f.id in FRESH_CALLS) else 'OTHER'
        return 'OTHER'

    def classify_def(self, d: Def, depth: int) -> str:
        key = (d.id, 0)
        if key in self._memo:
            return self._memo[key]
        self._memo[key] = 'OTHER'   # cycle guard
        out = 'OTHER'
        if d.kind == 'param':
            if d.name in self.self_names:
                out = 'SELF'
            elif d.name in self.value_self:
                out = 'RAW'
            elif d.name in self.fresh_params:
                out = 'FRESH'
            else:
                out = 'RAW'
        elif d.kind in ('assign', 'walrus'):
            if d.value is not None:
                out = self.classify(d.value, d.node, depth + 1)
                if d.path and isinstance(d.value, (ast.Tuple, ast.List)):
                    cur: ast.AST = d.value
                    p = list(d.path)
                    while p and isinstance(cur, (ast.Tuple, ast.List)) and 0 <= p[0] < len(cur.elts):
                        cur = cur.elts[p.pop(0)]
                    out = self.classify(cur, d.node, depth + 1)
                elif d.path and out == 'FRESH':
                    # destructuring a fresh tuple built from raw parts: next(iter(val.items()))
                    out = 'RAW' if any(isinstance(x, ast.Name) and self.classify(x, d.node, depth + 1) == 'RAW'
                                       for x in ast.walk(d.value)) else 'FRESH'
        elif d.kind == 'for':
            it = d.value
            base_kinds = set()
            for x in ast.walk(it) if it is not None else []:
                if isinstance(x, ast.Name):
                    base_kinds.add(self.classify(x, d.node, depth + 1))
            out = 'RAW' if 'RAW' in base_kinds else 'OTHER'
        elif d.kind == 'aug':
            out = 'OTHER'
        self._memo[key] = out
        return out


def _private(name: str) -> bool:
    """A single-underscore method of somebody else's object (``Counter._keep_positive``): its effect on the receiver is not part of any
    public contract, so calling it on the caller's value is treated as a mutation."""
    return name.startswith('_') and not (name.startswith('__') and name.endswith('__'))


def _is_converter(model: Model, cls: ClassInfo) -> bool:
    return model.is_subclass(cls.qualname, CONVERTER)


def rule_c09_r1(model: Model) -> RuleResult:
    r = RuleResult('C09-R1', 'no mutating operation is applied to a value reachable from the input', floor=12)
    fixture_ok = _fixture_fires()
    if not fixture_ok:
        raise AnalysisError("C09-R1 positive fixture did not fire: the freshness analysis is broken")
    for f in scope(model):
        fr = Freshness(model, f)
        cfg = fr.cfg
        r.analysed.add(f.qualname)
        for n in cfg.live_nodes():
            for (what, recv, sub) in _mutations(n, private=True):
                k = fr.classify(recv, n)
                if k != 'RAW' and _private(what.strip('.()')):
                    continue       # private helpers of the converter itself
                if _private(what.strip('.()')) and _own_pure_helper(model, f, recv, what.strip('.()')):
                    continue       # a private accessor of the value's own class that writes nothing to it
                r.instances += 1
                r.sample({'function': f.qualname, 'operation': what, 'receiver': unparse(recv), 'class': k})
                if k == 'RAW':
                    r.fail(f.qualname, f"{what} on `{unparse(recv)}`", f.loc(sub),
                           f"`{unparse(recv)}` is (an alias of / a part of) the value passed in by the caller and is mutated here; "
                           f"copy it first (as the tag-stripping code does)")
                else:
                    r.ok()
    return r


def _own_pure_helper(model: Model, f: FuncInfo, recv: ast.AST, name: str) -> bool:
    """``self._helper()`` inside a method of the same class, where the helper (read from the model) applies no mutating
    operation to anything rooted at ``self`` and calls no further private method on it."""
    if not (isinstance(recv, ast.Name) and recv.id == 'self' and f.cls is not None):
        return False
    m = model.find_method(f.cls.qualname, name)
    if m is None or not isinstance(m.node, ast.FunctionDef):
        return False
    for sub in ast.walk(m.node):
        tgts: t.List[ast.AST] = []
        if isinstance(sub, (ast.Assign, ast.Delete)):
            tgts = list(sub.targets)
        elif isinstance(sub, (ast.AugAssign, ast.AnnAssign)):
            tgts = [sub.target]
        for tg in tgts:
            for x in ast.walk(tg):
                if isinstance(x, (ast.Attribute, ast.Subscript)):
                    return False
        if isinstance(sub, ast.Call) and isinstance(sub.func, ast.Attribute) and (sub.func.attr in MUTATORS or _private(sub.func.attr)
                                                                                   or sub.func.attr in ('__setattr__', '__delattr__')):
            return False
        if isinstance(sub, ast.Call) and isinstance(sub.func, ast.Name) and sub.func.id in ('setattr', 'delattr'):
            return False
    return True


def _mutations(n: Node, private: bool = False) -> t.List[t.Tuple[str, ast.AST, ast.AST]]:
    out: t.List[t.Tuple[str, ast.AST, ast.AST]] = []
    a = n.ast
    if a is None:
        return out
    if n.kind == 'stmt':
        if isinstance(a, ast.Assign):
            for tg in a.targets:
                for x in ([tg] if not isinstance(tg, (ast.Tuple, ast.List)) else tg.elts):
                    if isinstance(x, ast.Subscript):
                        out.append(('item store', x.value, x))
                    elif isinstance(x, ast.Attribute):
                        out.append(('attribute store', x.value, x))
        elif isinstance(a, ast.AugAssign):
            if isinstance(a.target, ast.Subscript):
                out.append(('augmented item store', a.target.value, a.target))
            elif isinstance(a.target, ast.Attribute):
                out.append(('augmented attribute store', a.target.value, a.target))
            elif isinstance(a.target, ast.Name):
                out.append(('augmented assignment', a.target, a.target))
        elif isinstance(a, ast.Delete):
            for tg in a.targets:
                if isinstance(tg, ast.Subscript):
                    out.append(('item delete', tg.value, tg))
                elif isinstance(tg, ast.Attribute):
                    out.append(('attribute delete', tg.value, tg))
    if n.kind == 'with' and isinstance(a, (ast.With, ast.AsyncWith)):
        for item in a.items:
            if isinstance(item.context_expr, (ast.Name, ast.Attribute, ast.Subscript)):
                out.append(('with (enters and exits the object)', item.context_expr, item.context_expr))
    for root in node_exprs(n):
        for sub in walk_no_nested(root):
            if isinstance(sub, ast.Call) and isinstance(sub.func, ast.Attribute) and (sub.func.attr in MUTATORS or (private and _private(sub.func.attr))):
                out.append((f".{sub.func.attr}()", sub.func.value, sub))
            if isinstance(sub, ast.Call) and isinstance(sub.func, ast.Attribute) and sub.func.attr == '__setattr__' \
                    and isinstance(sub.func.value, ast.Name) and sub.func.value.id == 'object' and sub.args:
                out.append(('object.__setattr__', sub.args[0], sub))
    return out


def _fixture_fires() -> bool:
    """Tiny positive example that must match on every run (a rule expecting zero hits must be shown alive)."""
    import os
    import tempfile
    src = (
        "import typing as t\n"
        "class Converter: pass\n"
        "class K(Converter):\n"
        "    def try_convert(self, val):\n"
        "        val = t.cast(dict, val)\n"
        "        tag = val.pop('tag')\n"
        "        for (k, v) in val.items():\n"
        "            v.append(1)\n"
        "        c = val.copy()\n"
        "        c.pop('x')\n"
        "        return c\n"
    )
    with tempfile.TemporaryDirectory() as d:
        os.makedirs(os.path.join(d, 'pane'))
        with open(os.path.join(d, 'pane', 'converters.py'), 'w') as fh:
            fh.write(src)
        m = Model(d)
        f = m.func('pane.converters.K.try_convert')
        fr = Freshness(m, f)
        hits = []
        for n in fr.cfg.live_nodes():
            for (what, recv, sub) in _mutations(n):
                hits.append((what, unparse(recv), fr.classify(recv, n)))
    return ('.pop()', 'val', 'RAW') in hits and ('.append()', 'v', 'RAW') in hits and ('.pop()', 'c', 'FRESH') in hits


def rule_c09_r2(model: Model) -> RuleResult:
    """Reads that can write: subscripting a raw mapping with a key not known to be present."""
    r = RuleResult('C09-R2', 'a raw mapping is subscripted only after a membership test (defaultdict inserts on read)', floor=2)
    for f in scope(model):
        fr = Freshness(model, f)
        cfg = fr.cfg
        nz = Normalizer(model, f, cfg)
        for n in cfg.live_nodes():
            for root in node_exprs(n):
                for sub in walk_no_nested(root):
                    if not (isinstance(sub, ast.Subscript) and isinstance(sub.ctx, ast.Load)):
                        continue
                    if fr.classify(sub.value, n) != 'RAW':
                        continue
                    if not isinstance(sub.value, ast.Name):
                        continue
                    key = nz.expr(sub.slice, n)
                    base = nz.expr(sub.value, n)
                    if key.startswith(INDEXLIKE) or isinstance(sub.slice, ast.Slice):
                        continue
                    # only mapping-typed inputs: the function must treat the value as a mapping somewhere
                    r.instances += 1
                    r.analysed.add(f.qualname)
                    ok = False
                    for a in cfg.nodes:
                        if a.kind != 'cond':
                            continue
                        text, pos = nz.literal(a.ast, a)
                        if text == f"{key} in {base}":
                            lb = 'T' if pos else 'F'
                            if a.edge(lb) and cfg.edge_dominates(a, lb, n):
                                ok = True
                    r.sample({'function': f.qualname, 'read': f"{base}[{key}]", 'dominated_by_membership_test': ok})
                    if ok:
                        r.ok()
                    else:
                        r.fail(f.qualname, f"read {base}[{key}]", f.loc(sub),
                               f"the caller's mapping is subscripted with a key that was not tested with `in` first: on a "
                               f"collections.defaultdict (or any mapping with __missing__) the read inserts the key into the input")
    return r
